#!/usr/bin/env python3
"""tools/file_round.py <round> <seed-no> <root> Cxx [Cyy ...]
Round layout `<root>/Cxx/` = a scratch worktree of /repo with the change left uncommitted under websocket/, `demo.py` and
`NOTES.md` at its root.  For each property: (1) confirm the change myself in the worktree (demo exits 0 without the change,
non-zero with it, test suite 38 passed with it); (2) apply it to /repo, run `./check Cxx --tier quick`, restore /repo and
the evidence file; (3) file it as seeded/Cxx-<seed-no>/ (patch.diff, demo.py, meta.json).  One at a time: /repo is shared."""
import json
import os
import shutil
import subprocess
import sys

VERIF = os.path.dirname(os.path.dirname(os.path.abspath(__file__)))


def sh(cmd, cwd=None, timeout=3000):
    p = subprocess.run(cmd, shell=True, cwd=cwd, stdout=subprocess.PIPE, stderr=subprocess.STDOUT, timeout=timeout)
    return p.returncode, p.stdout.decode(errors="replace")


def one(rnd, no, root, prop, extra):
    wt = os.path.join(root, prop)
    diff = os.path.join(root, f"{prop}.diff")
    rc, out = sh("git diff -- websocket", cwd=wt)
    if not out.strip():
        print(f"[{prop}] no change in {wt}")
        return
    open(diff, "w").write(out)
    ran = []
    rc1, out1 = sh("timeout 120 /venv/bin/python demo.py", cwd=wt)
    ran.append(f"demo with the change: exit {rc1}: {out1.strip()[-300:]}")
    rct, outt = sh("/venv/bin/python -m pytest -q -p no:cacheprovider --timeout=900 --continue-on-collection-errors websocket/tests 2>&1 | tail -1", cwd=wt)
    ran.append(f"test suite with the change: {outt.strip()}")
    sh(f"git apply -R {diff}", cwd=wt)
    rc0, out0 = sh("timeout 120 /venv/bin/python demo.py", cwd=wt)
    ran.append(f"demo on unmodified worktree: exit {rc0}")
    sh(f"git apply {diff}", cwd=wt)
    ok = rc0 == 0 and rc1 != 0 and "38 passed" in outt
    print(f"[{prop}-{no}] confirm: demo_clean={rc0} demo_mut={rc1} tests='{outt.strip()}' -> {'CONFIRMED' if ok else 'NOT CONFIRMED'}", flush=True)
    if not ok:
        return
    rc, out = sh(f"git -C /repo apply {diff}")
    if rc != 0:
        print("does not apply to /repo:", out)
        return
    results, saved = {}, {}
    try:
        for p in [prop] + extra:
            evp = os.path.join(VERIF, "evidence", f"{p}.json")
            if os.path.exists(evp):
                saved[p] = open(evp, "rb").read()
            rcc, outc = sh(f"./check {p} --tier quick", cwd=VERIF)
            viol = [l for l in outc.splitlines() if l.startswith("VIOLATION")]
            summ = [l for l in outc.splitlines() if l.startswith(p + " tier=")]
            results[p] = {"exit": rcc, "violation_lines": viol[:4], "summary": summ[-1] if summ else outc[-300:]}
            print(f"   check {p}: exit {rcc} {viol[:2]} {summ[-1] if summ else outc[-300:]}", flush=True)
    finally:
        sh("git -C /repo checkout -- .")
        for p, b in saved.items():
            open(os.path.join(VERIF, "evidence", f"{p}.json"), "wb").write(b)
        st = sh("git -C /repo status --short")[1]
        if st.strip():
            print("WARNING /repo not clean:", st)
    d = os.path.join(VERIF, "seeded", f"{prop}-{no}")
    os.makedirs(d, exist_ok=True)
    shutil.copy(diff, os.path.join(d, "patch.diff"))
    shutil.copy(os.path.join(wt, "demo.py"), os.path.join(d, "demo.py"))
    notes = os.path.join(wt, "NOTES.md")
    needs = open(notes).read() if os.path.exists(notes) else ""
    v = results[prop]["violation_lines"]
    caught = results[prop]["exit"] == 1 and bool(v)
    meta = {"property": prop, "round": rnd, "needs_to_manifest": needs.strip()[:6000], "what_i_ran": ran, "checks": results,
            "caught_by_own_property_check": caught,
            "concrete_input": bool(caught and "no-failing-input-found" not in v[0]),
            "missed_as_the_checks_stood": not caught}
    json.dump(meta, open(os.path.join(d, "meta.json"), "w"), indent=1)
    print(f"   filed seeded/{prop}-{no} caught={caught}", flush=True)


def main():
    rnd, no, root = int(sys.argv[1]), sys.argv[2], sys.argv[3]
    for a in sys.argv[4:]:
        props = a.split("+")          # Cxx+Cyy: also run Cyy's check
        one(rnd, no, root, props[0], props[1:])


if __name__ == "__main__":
    main()
