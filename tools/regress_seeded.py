#!/usr/bin/env python3
"""tools/regress_seeded.py [Cxx ...] — re-run the filed seeded changes against the current checks and the current /repo:
for every seeded/<id>/patch.diff that still applies, apply it, run the quick checks named in its meta (own property and
`caught_by`), restore /repo.  Evidence files are kept out of reach.  Prints one line per change."""
import glob
import json
import os
import subprocess
import sys

VERIF = os.path.dirname(os.path.dirname(os.path.abspath(__file__)))


def sh(cmd, cwd=None, timeout=3000):
    p = subprocess.run(cmd, shell=True, cwd=cwd, stdout=subprocess.PIPE, stderr=subprocess.STDOUT, timeout=timeout)
    return p.returncode, p.stdout.decode(errors="replace")


def main():
    only = set(sys.argv[1:])
    rows = []
    for d in sorted(glob.glob(os.path.join(VERIF, "seeded", "C*-*")), key=lambda x: (x.split("/")[-1].split("-")[0], int(x.split("-")[-1]))):
        sid = os.path.basename(d)
        prop = sid.split("-")[0]
        if only and prop not in only and sid not in only:
            continue
        meta = json.load(open(os.path.join(d, "meta.json")))
        cb = meta.get("caught_by") or []
        if isinstance(cb, str):
            cb = [x for x in cb.replace(",", " ").split() if x.startswith("C") and len(x) == 3]
        props = [prop] + [p for p in cb if p != prop]
        if meta.get("not_in_own_quantifier"):
            props = list(cb) or [prop]
        diff = os.path.join(d, "patch.diff")
        rc, out = sh(f"git -C /repo apply --check {diff}")
        if rc != 0:
            rows.append((sid, "does-not-apply", ""))
            print(sid, "does-not-apply", flush=True)
            continue
        sh(f"git -C /repo apply {diff}")
        saved = {}
        try:
            res = []
            for p in props:
                evp = os.path.join(VERIF, "evidence", f"{p}.json")
                if os.path.exists(evp) and p not in saved:
                    saved[p] = open(evp, "rb").read()
                rcc, outc = sh(f"./check {p} --tier quick", cwd=VERIF)
                v = [l for l in outc.splitlines() if l.startswith("VIOLATION")]
                res.append((p, rcc, "NFI" if v and "no-failing-input-found" in v[0] else ("concrete" if v else "-")))
        finally:
            sh("git -C /repo checkout -- .")
            for p, b in saved.items():
                open(os.path.join(VERIF, "evidence", f"{p}.json"), "wb").write(b)
        caught = any(r[1] == 1 for r in res)
        rows.append((sid, "caught" if caught else "MISSED", res))
        print(sid, "caught" if caught else "MISSED", res, flush=True)
    print("summary:", {k: sum(1 for r in rows if r[1] == k) for k in ("caught", "MISSED", "does-not-apply")})


if __name__ == "__main__":
    sys.exit(main())
