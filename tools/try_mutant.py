#!/usr/bin/env python3
"""[SEED_ID=<id>] tools/try_mutant.py <prop> <worktree> <N> [<extra props...>]
Confirms a seeded change (worktree/_demo/mutN.diff + demoN.py + noteN.txt) myself, runs the checks against it,
and files it under seeded/<prop>-<N>/.  /repo is restored afterwards in every case."""
import json
import os
import shutil
import subprocess
import sys

VERIF = os.path.dirname(os.path.dirname(os.path.abspath(__file__)))


def sh(cmd, cwd=None, timeout=1800):
    p = subprocess.run(cmd, shell=True, cwd=cwd, stdout=subprocess.PIPE, stderr=subprocess.STDOUT, timeout=timeout)
    return p.returncode, p.stdout.decode(errors="replace")


def main():
    prop, wt, n = sys.argv[1], sys.argv[2], sys.argv[3]
    extra = sys.argv[4:]
    demo_dir = os.path.join(wt, "_demo")
    diff = os.path.join(demo_dir, f"mut{n}.diff")
    demo = os.path.join(demo_dir, f"demo{n}.py")
    note = os.path.join(demo_dir, f"note{n}.txt")
    ran = []
    # 1. confirm in the scratch worktree
    sh("git checkout -- websocket", cwd=wt)
    rc0, out0 = sh(f"/venv/bin/python {demo}", cwd=wt)
    ran.append(f"demo on unmodified worktree: exit {rc0}")
    rc, out = sh(f"git apply {diff}", cwd=wt)
    if rc != 0:
        print("diff does not apply:", out)
        return 2
    rct, outt = sh("/venv/bin/python -m pytest -q -p no:cacheprovider --timeout=900 --continue-on-collection-errors websocket/tests 2>&1 | tail -1", cwd=wt)
    ran.append(f"test suite with the change: {outt.strip()}")
    rc1, out1 = sh(f"/venv/bin/python {demo}", cwd=wt)
    ran.append(f"demo with the change: exit {rc1}: {out1.strip()[:200]}")
    sh("git checkout -- websocket", cwd=wt)
    ok = rc0 == 0 and rc1 != 0 and "38 passed" in outt
    print(f"[{prop}-{n}] confirm: demo_clean={rc0} demo_mut={rc1} tests='{outt.strip()}' -> {'CONFIRMED' if ok else 'NOT CONFIRMED'}")
    if not ok:
        return 1
    # 2. run the checks against /repo with the change applied
    results = {}
    rc, out = sh(f"git -C /repo apply {diff}")
    if rc != 0:
        print("does not apply to /repo:", out)
        return 2
    saved_ev = {}
    try:
        for p in [prop] + extra:
            # the evidence files describe the UNCHANGED tree: keep them out of reach of a run against a seeded change
            evp = os.path.join(VERIF, "evidence", f"{p}.json")
            if os.path.exists(evp) and p not in saved_ev:
                saved_ev[p] = open(evp, "rb").read()
            rcc, outc = sh(f"./check {p} --tier quick", cwd=VERIF, timeout=3000)
            viol = [l for l in outc.splitlines() if l.startswith("VIOLATION")]
            summ = [l for l in outc.splitlines() if l.startswith(p + " tier=")]
            results[p] = {"exit": rcc, "violation_lines": viol[:4], "summary": summ[-1] if summ else outc[-300:]}
            print(f"   check {p}: exit {rcc} {viol[:2]} {summ[-1] if summ else ''}")
    finally:
        for p, data in saved_ev.items():
            with open(os.path.join(VERIF, "evidence", f"{p}.json"), "wb") as fh:
                fh.write(data)
        sh("git -C /repo checkout -- .")
        st = sh("git -C /repo status --short")[1]
        if st.strip():
            print("WARNING /repo not clean:", st)
    # 3. file it
    fid = os.environ.get("SEED_ID", n)   # round 2 files mut1/mut2 as <prop>-3/<prop>-4
    d = os.path.join(VERIF, "seeded", f"{prop}-{fid}")
    os.makedirs(d, exist_ok=True)
    shutil.copy(diff, os.path.join(d, "patch.diff"))
    shutil.copy(demo, os.path.join(d, "demo.py"))
    needs = open(note).read() if os.path.exists(note) else ""
    caught = results[prop]["exit"] == 1 and bool(results[prop]["violation_lines"])
    meta = {"property": prop, "needs_to_manifest": needs.strip(), "what_i_ran": ran,
            "checks": results, "caught_by_own_property_check": caught}
    with open(os.path.join(d, "meta.json"), "w") as f:
        json.dump(meta, f, indent=1)
    print(f"   filed seeded/{prop}-{fid}  caught={caught}")
    return 0


if __name__ == "__main__":
    sys.exit(main())
