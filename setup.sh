#!/bin/bash
# MANIFEST.setup_cmd — offline: extract tables from /repo, build the Lean library and the driver.
set -e
cd "$(dirname "$0")"
mkdir -p .state evidence replays
/venv/bin/python harness/extract.py --repo /repo || true
cd lean
lake build wsdriver
lake build WS || echo "setup: some proof modules do not build on this tree (reported by the checks)"
printf 'ping\n' | .lake/build/bin/wsdriver | grep -q pong
echo setup-ok
