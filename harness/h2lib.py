"""Shared by harness/props/c09.py, c10.py, c11.py (group H2): building scripted responses, calling the
real `WebSocket.connect` inside the simulated world, rendering the observation exactly like the
driver's `m-connect`, and the independent (regex) reader of response heads used by the oracle."""
import base64
import hashlib
import re
import ssl

import common
from simnet_h2 import Net, DialSpec, RecContext, hx, hopt, hlist

GUID = "258EAFA5-E914-47DA-95CA-C5AB0DC85B11"


def key_of(rand):
    return base64.b64encode(bytes(rand)).decode()


def accept_of(key):
    return base64.b64encode(hashlib.sha1((key + GUID).encode()).digest()).decode()


def swapcase_digest(s):
    """same letters, case swapped on the first letter that has a case"""
    for i, c in enumerate(s):
        if c.isalpha():
            return s[:i] + c.swapcase() + s[i + 1:]
    return s


def response(status="101", headers=(), version="HTTP/1.1", reason="Switching Protocols", eol="\r\n",
             body=b""):
    """status may be None (no status line at all)"""
    lines = []
    if status is not None:
        sl = f"{version} {status}"
        if reason is not None:
            sl += f" {reason}"
        lines.append(sl)
    for k, v in headers:
        lines.append(f"{k}: {v}" if v is not None else k)
    return (eol.join(lines) + eol + eol).encode("utf-8", "surrogatepass") + body


def good_headers(key, sub=None, upgrade="websocket", connection="Upgrade", accept="right"):
    h = []
    if upgrade is not None:
        h.append(("Upgrade", upgrade))
    if connection is not None:
        h.append(("Connection", connection))
    if accept == "right":
        h.append(("Sec-WebSocket-Accept", accept_of(key)))
    elif accept is not None:
        h.append(("Sec-WebSocket-Accept", accept))
    if sub is not None:
        h.append(("Sec-WebSocket-Protocol", sub))
    return h


# ---- independent reader of a response head (for the oracle; not the code's split/strip logic) ----

_STATUS = re.compile(rb"(\S+) (\d{3})(?: ([^\r\n]*))?")
# field values are read without the surrounding white space; "white space" is taken generously (SP, HT
# and the other ASCII separators VT FF FS GS RS US), so that a value that differs from the expected one
# only by such padding is not reported (DESIGN: a reading where the property holds is not an alarm).
_WS = rb"[ \t\x0b\x0c\x1c-\x1f]"
_FIELD = re.compile(rb"([!#$%&'*+\-.^_`|~0-9A-Za-z]+):" + _WS + rb"*([^\r\n]*?)" + _WS + rb"*")


def read_head(raw):
    """-> (status:int, [(name.lower(), value)]) for a complete, grammatical head; else None"""
    m = re.search(rb"\r?\n\r?\n", raw)
    if not m:
        return None
    lines = re.split(rb"\r?\n", raw[:m.start()])
    sm = _STATUS.fullmatch(lines[0])
    if not sm:
        return None
    fields = []
    for l in lines[1:]:
        fm = _FIELD.fullmatch(l)
        if not fm:
            return None
        try:
            fields.append((fm.group(1).decode("ascii").lower(), fm.group(2).decode("utf-8")))
        except UnicodeDecodeError:
            return None
    return int(sm.group(2)), fields


def dict_arg(fields):
    return "_" if not fields else ";".join(f"{hx(k)}={hx(v)}" for k, v in fields)


# ---- options -> driver tokens ------------------------------------------------------------------

def header_arg(h):
    if h is None:
        return "A"
    if isinstance(h, dict):
        return "D:" + (";".join(f"{hx(k)}={hopt(v)}" for k, v in h.items()) if h else "_")
    return "L:" + hlist(list(h))


def opts_args(o):
    origin = o.get("origin") if ("origin" in o and o["origin"] is not None) else None
    return [hopt(o.get("host")), hopt(origin), "1" if o.get("suppress_origin") else "0",
            header_arg(o.get("header")), hopt(o.get("connection")),
            hlist(o.get("subprotocols") or []), hopt(o.get("cookie"))]


CERT = {None: "~", ssl.CERT_NONE: "N", ssl.CERT_OPTIONAL: "O", ssl.CERT_REQUIRED: "R"}


def sslopt_arg(s):
    s = s or {}
    chk = s.get("check_hostname")
    ctx = s.get("context")
    parts = [CERT[s.get("cert_reqs")], "~" if chk is None else str(int(bool(chk))),
             hopt(s.get("ca_certs")), hopt(s.get("ca_cert_path")), hopt(s.get("server_hostname")),
             "~" if ctx is None else str(ctx.rec_user_id)]
    if "ssl_version" in s:
        # which protocol constant the context is made for: anything but PROTOCOL_TLS_CLIENT starts with verification off
        parts.append(str(int(s["ssl_version"] != ssl.PROTOCOL_TLS_CLIENT)))
    return ":".join(parts)


def tlsenv_arg(env, isfile, isdir):
    b = (env or {}).get("WEBSOCKET_CLIENT_CA_BUNDLE")
    return ":".join([hopt(b), str(int(b in isfile)) if b is not None else "0",
                     str(int(b in isdir)) if b is not None else "0"])


def user_context(uid):
    c = RecContext(ssl.PROTOCOL_TLS_CLIENT)
    c.rec_user_id = uid
    return c


def url_table(urls):
    from websocket._url import parse_url
    ents = []
    for u in dict.fromkeys(urls):
        try:
            h, p, r, sec = parse_url(u)
            ents.append(f"{hx(u)}>{hx(h)}:{int(p)}:{hx(r)}:{int(bool(sec))}")
        except Exception as e:  # noqa
            ents.append(f"{hx(u)}>E:{common.canon_exc(e)}")
    return ";".join(ents) if ents else "_"


class Case:
    """one `connect` scenario"""

    def __init__(self, url, dials, options=None, limit=None, sslopt=None, env=None, isfile=(), isdir=(),
                 proxy=None, user_sock=None, via="connect", seed_cookies=(), locations=(), tag=""):
        self.url = url
        self.dials = dials
        self.options = dict(options or {})
        self.limit = limit
        self.sslopt = sslopt
        self.env = env or {}
        self.isfile = tuple(isfile)
        self.isdir = tuple(isdir)
        self.proxy = proxy              # None | (host, port, auth|None)
        self.user_sock = user_sock      # DialSpec for a caller-made socket (takes the place of dial 0)
        self.via = via
        self.seed_cookies = tuple(seed_cookies)
        self.locations = list(locations)
        self.tag = tag

    def describe(self):
        return {"url": self.url, "options": {k: (v if not isinstance(v, bytes) else v.hex())
                                             for k, v in self.options.items()},
                "limit": self.limit, "sslopt": sslopt_arg(self.sslopt), "env": self.env,
                "proxy": self.proxy, "user_sock": self.user_sock.arg() if self.user_sock else None,
                "dials": [d.arg() for d in self.dials], "via": self.via, "tag": self.tag}


class Run:
    pass


def run_real(case):
    """execute the real code; returns a Run with the canonical observation and the raw material"""
    import websocket
    net = Net(case.dials, env=case.env, isfile=case.isfile, isdir=case.isdir,
              seed_cookies=case.seed_cookies, user_socket_spec=case.user_sock)
    kw = dict(case.options)
    if case.limit is not None:
        kw["redirect_limit"] = case.limit
    if case.proxy is not None:
        kw["http_proxy_host"], kw["http_proxy_port"] = case.proxy[0], case.proxy[1]
        if case.proxy[2] is not None:
            kw["http_proxy_auth"] = case.proxy[2]
    r = Run()
    r.exc = None
    # the ambient logging configuration of the process is not behaviour: one case in six runs with the library's logger
    # silenced (setLevel above CRITICAL), one with logging.disable(CRITICAL), one with enableTrace(True); derived from the
    # case itself so that a replay runs in the same mode
    import logging
    import zlib
    mode = zlib.crc32((case.tag + "|" + case.url + "|" + str(len(case.dials))).encode()) % 6
    lg = websocket._logging._logger
    old_level, old_handlers, old_disable = lg.level, lg.handlers[:], logging.root.manager.disable
    old_trace = websocket._logging._traceEnabled
    r.ambient = {3: "logger-silenced", 4: "logging-disabled", 5: "trace-on"}.get(mode, "default")
    if mode == 3:
        lg.setLevel(logging.CRITICAL + 10)
    elif mode == 4:
        logging.disable(logging.CRITICAL)
    elif mode == 5:
        websocket.enableTrace(True, handler=logging.NullHandler())
    try:
        return _run_real(case, net, kw, r)
    finally:
        logging.disable(old_disable)
        websocket._logging._traceEnabled = old_trace
        lg.setLevel(old_level)
        lg.handlers[:] = old_handlers


def _run_real(case, net, kw, r):
    import websocket
    with net:
        if case.user_sock is not None:
            kw["socket"] = net.user_socket
        ws = None
        try:
            if case.via == "create_connection":
                ws = websocket.create_connection(case.url, sslopt=case.sslopt, **kw)
            else:
                ws = websocket.WebSocket(sslopt=case.sslopt)
                ws.connect(case.url, **kw)
            res = "ok"
        except BaseException as e:  # noqa
            r.exc = e
            res = common.canon_exc(e)
    r.net, r.ws, r.res = net, ws, res
    if ws is not None:
        sk = ws.sock.idx if ws.sock is not None else None
        r.connected, r.sock, r.status, r.sub = bool(ws.connected), sk, ws.status, ws.subprotocol
        r.headers = ws.headers
    else:
        r.connected, r.sock, r.status, r.sub, r.headers = False, None, None, None, None
    r.dials = net.call_index + 1
    r.obs = (f"{res} connected={int(r.connected)} sock={r.sock} status={r.status} sub={hopt(r.sub)} "
             f"dials={r.dials} trace={net.trace()}")
    net.fill_jars()
    return r


def model_line(case, net=None):
    lim = "~" if case.limit is None else str(max(0, case.limit))
    us = "~"
    if case.user_sock is not None:
        d = case.user_sock
        from simnet_h2 import events_arg
        us = "!".join(["E" if d.tail == "eof" else "T", events_arg(d.events),
                       "~" if d.sends_left is None else str(d.sends_left)])
    px = "0"
    if case.proxy is not None:
        a = case.proxy[2]
        px = "1" if a is None else f"1:{hx(a[0])}:{hopt(a[1])}"
    dials = "/".join(d.arg() for d in case.dials) if case.dials else "_"
    return " ".join(["m-connect", hx(case.url)] + opts_args(case.options) +
                    [lim, us, sslopt_arg(case.sslopt), tlsenv_arg(case.env, case.isfile, case.isdir),
                     url_table([case.url] + case.locations), px, dials])


# ---- (de)serialisation of cases (corpus / replay files) -----------------------------------------

_CERTJ = {None: None, ssl.CERT_NONE: "N", ssl.CERT_OPTIONAL: "O", ssl.CERT_REQUIRED: "R"}
_CERTB = {None: None, "N": ssl.CERT_NONE, "O": ssl.CERT_OPTIONAL, "R": ssl.CERT_REQUIRED}


def _ev_json(events):
    return [[e[0], bytes(e[1]).hex()] if e[0] == "chunk" else ([e[0], e[1]] if e[0] == "interrupt" else [e[0]]) for e in events]


def _ev_back(j):
    return [("chunk", bytes.fromhex(e[1])) if e[0] == "chunk" else (tuple(e) if e[0] == "interrupt" else (e[0],)) for e in j]


def dial_json(d):
    return {"events": _ev_json(d.events), "tail": d.tail, "addr": d.addr, "wrap": d.wrap,
            "rand": bytes(d.rand).hex(), "sends_left": d.sends_left}


def dial_back(j):
    return DialSpec(_ev_back(j["events"]), tail=j["tail"], addr=j["addr"], wrap=j["wrap"],
                    rand=bytes.fromhex(j["rand"]), sends_left=j["sends_left"])


def case_json(c):
    so = None
    if c.sslopt is not None:
        so = {k: v for k, v in c.sslopt.items() if k not in ("cert_reqs", "context")}
        if "cert_reqs" in c.sslopt:
            so["cert_reqs"] = _CERTJ[c.sslopt["cert_reqs"]]
        if c.sslopt.get("context") is not None:
            so["context"] = c.sslopt["context"].rec_user_id
    return {"url": c.url, "options": c.options, "limit": c.limit, "sslopt": so, "env": c.env,
            "isfile": list(c.isfile), "isdir": list(c.isdir),
            "proxy": None if c.proxy is None else [c.proxy[0], c.proxy[1],
                                                   None if c.proxy[2] is None else list(c.proxy[2])],
            "user_sock": None if c.user_sock is None else dial_json(c.user_sock),
            "dials": [dial_json(d) for d in c.dials], "via": c.via,
            "seed_cookies": list(c.seed_cookies), "locations": c.locations, "tag": c.tag}


def case_back(j):
    so = None
    if j.get("sslopt") is not None:
        so = dict(j["sslopt"])
        if "cert_reqs" in so:
            so["cert_reqs"] = _CERTB[so["cert_reqs"]]
        if so.get("context") is not None:
            so["context"] = user_context(so["context"])
    px = j.get("proxy")
    if px is not None:
        px = (px[0], px[1], None if px[2] is None else tuple(px[2]))
    return Case(j["url"], [dial_back(d) for d in j["dials"]], options=j.get("options") or {},
                limit=j.get("limit"), sslopt=so, env=j.get("env") or {}, isfile=j.get("isfile", ()),
                isdir=j.get("isdir", ()), proxy=px,
                user_sock=None if j.get("user_sock") is None else dial_back(j["user_sock"]),
                via=j.get("via", "connect"), seed_cookies=j.get("seed_cookies", ()),
                locations=j.get("locations", []), tag=j.get("tag", ""))


def load_corpus(prop):
    import glob
    import json
    import os
    out = []
    for p in sorted(glob.glob(os.path.join(common.VERIF, "corpus", prop, "*.json"))):
        with open(p) as f:
            out.append((os.path.basename(p), json.load(f)))
    return out


# ---- unit level: read_headers / _get_resp_headers / _validate against the model ------------------

F8_HEADS = [
    (b"HTTP/1.1\r\n\r\n", "status-line-without-code"),
    (b"HTTP/1.1 abc OK\r\n\r\n", "non-numeric-status"),
    (b"\xff\xfe 101\r\n\r\n", "undecodable-head"),
    (b"HTTP/1.1 0 OK\r\nfoo: bar\r\n\r\n", "header-after-status-0"),
    (b"HTTP/1.1 400 Bad\r\nContent-Length: zz\r\n\r\n", "non-numeric-content-length"),
    (b"HTTP/1.1 400 Bad\r\nContent-Length: 999999999\r\n\r\n", "declared-length-to-recv"),
    (b"HTTP/1.1 400 Bad\r\nContent-Length: -5\r\n\r\nhello", "negative-content-length"),
]


def head_streams(rnd, thorough):
    """byte streams for the head phase: grammar-based, corrupted, truncated, exhaustive short ones"""
    import itertools
    out = [h for h, _ in F8_HEADS]
    k = key_of(bytes(16))
    good = response("101", good_headers(k))
    redir = response("301", [("Location", "ws://h/")], reason="Moved")
    bad = response("404", [("Content-Length", "3")], reason="Not Found", body=b"abc")
    out += [good, redir, bad, b"", b"\r\n", b"\n", b"\r\n\r\n"]
    # status-line zoo
    for st in ["101", " 101", "+101", "-101", "1_0_1", "0101", "0", "00", "-0", "1e2", "1.0", "", "١٠١",
               "1" * 4300, "1" * 4301, "0x65", "101\t", "\t101", "\x0b101", "\x1c101", "10 1"]:
        for ver in ["HTTP/1.1", "FOO", ""]:
            for reason in [None, "OK", "Switching Protocols", ""]:
                out.append(response(st, good_headers(k), version=ver, reason=reason))
    # header-line zoo
    for line in ["Upgrade:websocket", "Upgrade:  websocket  ", "Upgrade : websocket", "upgrade: websocket",
                 "UPGRADE: WEBSOCKET", " Upgrade: websocket", "Upgrade", ":", ": x", "a:b:c", "Upgrade:",
                 "Set-Cookie: a=1", "Set-Cookie: b=2", "set-cookie:", "X:\t y \t",
                 "Set-Cookie: a/b=1", "Set-Cookie: (a)=1; Domain=x.co", "Set-Cookie: a,b=1", "Set-Cookie: a@b=1; Path=/", "Set-Cookie: {a}=1",
                 "Set-Cookie: ok=1; Domain=x.co; a?=2", "Set-Cookie: =", "Set-Cookie: ;;;", "Set-Cookie: a=\"unterminated", "X: caf\u00e9", "X: \u00a0y",
                 "\u0130: x", "X: a\x1c", "\x1cX: a", "Content-Length: 12"]:
        out.append(response("101", []).replace(b"\r\n\r\n", b"\r\n" + line.encode("utf-8") + b"\r\n\r\n"))
        out.append(response("101", [("Set-Cookie", "z=9")]).replace(
            b"\r\n\r\n", b"\r\n" + line.encode("utf-8") + b"\r\nSet-Cookie: q=1\r\n\r\n"))
    # Set-Cookie values the cookie parser may refuse, on responses that are otherwise ACCEPTED (101) or FOLLOWED (3xx):
    # only then does the value reach the cookie jar
    for ck in ["a/b=1", "(a)=1; Domain=x.co", "a,b=1", "a@b=1; Path=/", "{a}=1", "ok=1; Domain=x.co; a?=2", "=", ";;;",
               "a=\"unterminated", "a=1; Domain=", "a=1; Max-Age=x", "a=1; Expires=never", "\u00e9=1; Domain=x.co", "a=\u00e9"]:
        out.append(response("101", good_headers(k) + [("Set-Cookie", ck)]))
        out.append(response("302", [("Location", "ws://h/"), ("Set-Cookie", ck)], reason="Found"))
    # values of the VALIDATED headers that are well-formed UTF-8 but not ASCII (an otherwise acceptable 101 response)
    right = accept_of(k)
    for v in ["caf\u00e9", right + "\u00e9", "\u00e9" + right, right[:10] + "\u0130" + right[10:], "\u212a" + right[1:],
              "\U0001f600", "\u017f" + right[1:]]:
        out.append(response("101", good_headers(k, accept=v)))
    for v in ["websocket\u00e9", "web\u017focket", "\u212aebsocket", "WEB\u0131SOCKET"]:
        out.append(response("101", good_headers(k, upgrade=v)))
    for v in ["Upgrade\u00e9", "\u00dcpgrade", "upgrade, \u00e9"]:
        out.append(response("101", good_headers(k, connection=v)))
    for v in ["ch\u00e4t", "\u212a"]:
        out.append(response("101", good_headers(k, sub=v)))
    # long heads (more header fields than any hidden bound one might put on the loop): complete, cut before the blank line,
    # with a malformed line or undecodable bytes in their tail, required fields first / last
    many = [(f"X-Field-{i}", f"v{i}") for i in range(150)]
    long_ok = response("101", good_headers(k) + many)
    out += [long_ok, response("101", many + good_headers(k)), long_ok[:-2], long_ok[:-4],
            long_ok[:-4] + b"\r\nno colon here\r\n\r\n", long_ok[:-4] + b"\r\nX: \xff\xfe\r\n\r\n",
            response("101", good_headers(k) + many[:96]), response("101", good_headers(k) + many[:97])[:-2],
            response("101", good_headers(k) + many[:99])[:-2]]
    # line endings
    for eol in ["\n", "\r", "\r\r\n", "\n\r"]:
        out.append(response("101", good_headers(k), eol=eol))
    # error bodies
    for cl in ["0", "1", "3", "5", "70000", "999999999", "zz", "", " 3 ", "+3", "-1", "3.0", "1_0", "1" * 4301]:
        for body in [b"", b"abc", b"abcdef"]:
            out.append(response("400", [("Content-Length", cl)], reason="Bad", body=body))
            out.append(response("200", [("content-length", cl), ("Content-Length", "2")], reason="OK", body=body))
    # truncations and single-byte corruptions of the good / redirect / bad heads
    for base in (good, redir, bad):
        for i in range(len(base) + 1):
            out.append(base[:i])
        n = len(base) if thorough else 60
        for _ in range(n):
            i = rnd.randrange(len(base))
            b = bytearray(base)
            b[i] = rnd.choice([0, 9, 10, 13, 32, 48, 58, 65, 0x80, 0xC3, 0xFF, rnd.randrange(256)])
            out.append(bytes(b))
    # exhaustive short streams
    alpha = [b"H", b"1", b" ", b"0", b":", b"\r\n"]
    maxlen = 5 if thorough else 4
    for n in range(1, maxlen + 1):
        for t in itertools.product(alpha, repeat=n):
            out.append(b"".join(t) + b"\r\n\r\n")
    for a in range(256):
        out.append(bytes([a]))
        out.append(bytes([a]) + b" 101\r\n\r\n")
        out.append(b"HTTP/1.1 101 " + bytes([a]) + b"\r\n\r\n")
    if thorough:
        for a in range(256):
            for b in (0x0A, 0x20, 0x80, 0xBF, 0xC3, 0xE2, 0xF0):
                out.append(bytes([a, b]) + b"\r\n\r\n")
    # random soup
    for _ in range(3000 if thorough else 400):
        n = rnd.randint(1, 40)
        out.append(bytes(rnd.choice(b"HTP/1. 0\r\n:aZ\xc3\xa9\xff") for _ in range(n)) + rnd.choice([b"", b"\r\n\r\n"]))
    return list(dict.fromkeys(out))


def head_events(rnd, stream):
    """the stream as a script: one chunk, or cut in pieces with a timeout / reset somewhere"""
    r = rnd.random()
    if r < 0.7 or len(stream) < 2:
        return [("chunk", stream)], "eof"
    i = rnd.randrange(1, len(stream))
    if r < 0.8:
        return [("chunk", stream[:i]), ("chunk", stream[i:])], "eof"
    if r < 0.9:
        return [("chunk", stream[:i]), ("timeout",), ("chunk", stream[i:])], "eof"
    if r < 0.95:
        return [("chunk", stream[:i]), ("reset",)], "eof"
    return [("chunk", stream[:i])], "timeout"


def _odict(d):
    return "_" if not d else ";".join(f"{hx(k)}={hx(v)}" for k, v in d.items())


def real_read_headers(events, tail):
    from websocket._http import read_headers
    from simnet_h2 import H2Socket, Net
    net = Net([])
    s = H2Socket(net, 0, DialSpec(events, tail=tail))
    try:
        status, headers, msg = read_headers(s)
        left = sum(len(e[1]) for e in s.events if e[0] == "chunk")
        return f"ok {status} {hopt(msg)} {_odict(headers)} reads={len(s.recv_sizes)} left={left}", s
    except Exception as e:  # noqa
        return f"exn {common.canon_exc(e)} reads={len(s.recv_sizes)}", s


def real_resp_headers(events, tail):
    from websocket._handshake import _get_resp_headers
    from simnet_h2 import H2Socket, Net
    net = Net([])
    net.phase = ""
    s = H2Socket(net, "", DialSpec(events, tail=tail))
    try:
        status, headers = _get_resp_headers(s)
        return f"ok {status} {_odict(headers)} io={net.trace()}", s
    except Exception as e:  # noqa
        return f"exn {common.canon_exc(e)} io={net.trace()}", s
