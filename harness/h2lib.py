"""Shared by harness/props/c09.py, c10.py, c11.py (group H2): building scripted responses, calling the
real `WebSocket.connect` inside the simulated world, rendering the observation exactly like the
driver's `m-connect`, and the independent (regex) reader of response heads used by the oracle."""
import base64
import hashlib
import re
import ssl

import common
from simnet_h2 import Net, DialSpec, RecContext, hx, hopt, hlist

GUID = "258EAFA5-E914-47DA-95CA-C5AB0DC85B11"


def key_of(rand):
    return base64.b64encode(bytes(rand)).decode()


def accept_of(key):
    return base64.b64encode(hashlib.sha1((key + GUID).encode()).digest()).decode()


def swapcase_digest(s):
    """same letters, case swapped on the first letter that has a case"""
    for i, c in enumerate(s):
        if c.isalpha():
            return s[:i] + c.swapcase() + s[i + 1:]
    return s


def response(status="101", headers=(), version="HTTP/1.1", reason="Switching Protocols", eol="\r\n",
             body=b""):
    """status may be None (no status line at all)"""
    lines = []
    if status is not None:
        sl = f"{version} {status}"
        if reason is not None:
            sl += f" {reason}"
        lines.append(sl)
    for k, v in headers:
        lines.append(f"{k}: {v}" if v is not None else k)
    return (eol.join(lines) + eol + eol).encode("utf-8", "surrogatepass") + body


def good_headers(key, sub=None, upgrade="websocket", connection="Upgrade", accept="right"):
    h = []
    if upgrade is not None:
        h.append(("Upgrade", upgrade))
    if connection is not None:
        h.append(("Connection", connection))
    if accept == "right":
        h.append(("Sec-WebSocket-Accept", accept_of(key)))
    elif accept is not None:
        h.append(("Sec-WebSocket-Accept", accept))
    if sub is not None:
        h.append(("Sec-WebSocket-Protocol", sub))
    return h


# ---- independent reader of a response head (for the oracle; not the code's split/strip logic) ----

_STATUS = re.compile(rb"(\S+) (\d{3})(?: ([^\r\n]*))?")
_FIELD = re.compile(rb"([!#$%&'*+\-.^_`|~0-9A-Za-z]+):[ \t]*([^\r\n]*?)[ \t]*")


def read_head(raw):
    """-> (status:int, [(name.lower(), value)]) for a complete, grammatical head; else None"""
    m = re.search(rb"\r?\n\r?\n", raw)
    if not m:
        return None
    lines = re.split(rb"\r?\n", raw[:m.start()])
    sm = _STATUS.fullmatch(lines[0])
    if not sm:
        return None
    fields = []
    for l in lines[1:]:
        fm = _FIELD.fullmatch(l)
        if not fm:
            return None
        try:
            fields.append((fm.group(1).decode("ascii").lower(), fm.group(2).decode("utf-8")))
        except UnicodeDecodeError:
            return None
    return int(sm.group(2)), fields


def dict_arg(fields):
    return "_" if not fields else ";".join(f"{hx(k)}={hx(v)}" for k, v in fields)


# ---- options -> driver tokens ------------------------------------------------------------------

def header_arg(h):
    if h is None:
        return "A"
    if isinstance(h, dict):
        return "D:" + (";".join(f"{hx(k)}={hopt(v)}" for k, v in h.items()) if h else "_")
    return "L:" + hlist(list(h))


def opts_args(o):
    origin = o.get("origin") if ("origin" in o and o["origin"] is not None) else None
    return [hopt(o.get("host")), hopt(origin), "1" if o.get("suppress_origin") else "0",
            header_arg(o.get("header")), hopt(o.get("connection")),
            hlist(o.get("subprotocols") or []), hopt(o.get("cookie"))]


CERT = {None: "~", ssl.CERT_NONE: "N", ssl.CERT_OPTIONAL: "O", ssl.CERT_REQUIRED: "R"}


def sslopt_arg(s):
    s = s or {}
    chk = s.get("check_hostname")
    ctx = s.get("context")
    return ":".join([CERT[s.get("cert_reqs")], "~" if chk is None else str(int(bool(chk))),
                     hopt(s.get("ca_certs")), hopt(s.get("ca_cert_path")), hopt(s.get("server_hostname")),
                     "~" if ctx is None else str(ctx.rec_user_id)])


def tlsenv_arg(env, isfile, isdir):
    b = (env or {}).get("WEBSOCKET_CLIENT_CA_BUNDLE")
    return ":".join([hopt(b), str(int(b in isfile)) if b is not None else "0",
                     str(int(b in isdir)) if b is not None else "0"])


def user_context(uid):
    c = RecContext(ssl.PROTOCOL_TLS_CLIENT)
    c.rec_user_id = uid
    return c


def url_table(urls):
    from websocket._url import parse_url
    ents = []
    for u in dict.fromkeys(urls):
        try:
            h, p, r, sec = parse_url(u)
            ents.append(f"{hx(u)}>{hx(h)}:{int(p)}:{hx(r)}:{int(bool(sec))}")
        except Exception as e:  # noqa
            ents.append(f"{hx(u)}>E:{common.canon_exc(e)}")
    return ";".join(ents) if ents else "_"


class Case:
    """one `connect` scenario"""

    def __init__(self, url, dials, options=None, limit=None, sslopt=None, env=None, isfile=(), isdir=(),
                 proxy=None, user_sock=None, via="connect", seed_cookies=(), locations=(), tag=""):
        self.url = url
        self.dials = dials
        self.options = dict(options or {})
        self.limit = limit
        self.sslopt = sslopt
        self.env = env or {}
        self.isfile = tuple(isfile)
        self.isdir = tuple(isdir)
        self.proxy = proxy              # None | (host, port, auth|None)
        self.user_sock = user_sock      # DialSpec for a caller-made socket (takes the place of dial 0)
        self.via = via
        self.seed_cookies = tuple(seed_cookies)
        self.locations = list(locations)
        self.tag = tag

    def describe(self):
        return {"url": self.url, "options": {k: (v if not isinstance(v, bytes) else v.hex())
                                             for k, v in self.options.items()},
                "limit": self.limit, "sslopt": sslopt_arg(self.sslopt), "env": self.env,
                "proxy": self.proxy, "user_sock": self.user_sock.arg() if self.user_sock else None,
                "dials": [d.arg() for d in self.dials], "via": self.via, "tag": self.tag}


class Run:
    pass


def run_real(case):
    """execute the real code; returns a Run with the canonical observation and the raw material"""
    import websocket
    net = Net(case.dials, env=case.env, isfile=case.isfile, isdir=case.isdir,
              seed_cookies=case.seed_cookies, user_socket_spec=case.user_sock)
    kw = dict(case.options)
    if case.limit is not None:
        kw["redirect_limit"] = case.limit
    if case.proxy is not None:
        kw["http_proxy_host"], kw["http_proxy_port"] = case.proxy[0], case.proxy[1]
        if case.proxy[2] is not None:
            kw["http_proxy_auth"] = case.proxy[2]
    r = Run()
    r.exc = None
    with net:
        if case.user_sock is not None:
            kw["socket"] = net.user_socket
        ws = None
        try:
            if case.via == "create_connection":
                ws = websocket.create_connection(case.url, sslopt=case.sslopt, **kw)
            else:
                ws = websocket.WebSocket(sslopt=case.sslopt)
                ws.connect(case.url, **kw)
            res = "ok"
        except BaseException as e:  # noqa
            r.exc = e
            res = common.canon_exc(e)
    r.net, r.ws, r.res = net, ws, res
    if ws is not None:
        sk = ws.sock.idx if ws.sock is not None else None
        r.connected, r.sock, r.status, r.sub = bool(ws.connected), sk, ws.status, ws.subprotocol
        r.headers = ws.headers
    else:
        r.connected, r.sock, r.status, r.sub, r.headers = False, None, None, None, None
    r.dials = net.call_index + 1
    r.obs = (f"{res} connected={int(r.connected)} sock={r.sock} status={r.status} sub={hopt(r.sub)} "
             f"dials={r.dials} trace={net.trace()}")
    net.fill_jars()
    return r


def model_line(case, net=None):
    lim = "~" if case.limit is None else str(max(0, case.limit))
    us = "~"
    if case.user_sock is not None:
        d = case.user_sock
        from simnet_h2 import events_arg
        us = "!".join(["E" if d.tail == "eof" else "T", events_arg(d.events),
                       "~" if d.sends_left is None else str(d.sends_left)])
    px = "0"
    if case.proxy is not None:
        a = case.proxy[2]
        px = "1" if a is None else f"1:{hx(a[0])}:{hopt(a[1])}"
    dials = "/".join(d.arg() for d in case.dials) if case.dials else "_"
    return " ".join(["m-connect", hx(case.url)] + opts_args(case.options) +
                    [lim, us, sslopt_arg(case.sslopt), tlsenv_arg(case.env, case.isfile, case.isdir),
                     url_table([case.url] + case.locations), px, dials])
