"""C09 — a connection is reported established only after a valid upgrade response.

(C) `m-connect` (lean/WS/Model/Connect.lean) against the real `WebSocket.connect` /
    `create_connection` in a simulated world (scripted dials, responses, TLS recorder, urandom and
    cookie-jar recorders): result class, `connected`, `status`, which socket `self.sock` is,
    number of dials, and the whole transport timeline (dial / write / every recv size / wrap / close).
    Unit ops `m-read-headers`, `m-resp-headers`, `m-validate` localise a divergence.
(O) the real outcome is judged by the Lean Spec op `s-established` applied to an *independent*
    (regex) reading of the last scripted response and to the key found in the bytes the real code
    wrote; plus the redirect bound and the clean-failure clause.
"""
import itertools
import json
import re

import common
import h2lib
from h2lib import (Case, DialSpec, response, good_headers, key_of, accept_of, swapcase_digest,
                   read_head, dict_arg, run_real, model_line, case_json, case_back)
from simnet_h2 import hx, hlist

REDIRECTS = (301, 302, 303, 307, 308)

STATUSES = [None, "0", "100", "101", "200", "204", "301", "302", "303", "304", "307", "308", "400", "404", "500"]
# (each header is judged on ITS OWN tokens: `upgrade` listed in the Upgrade header does not make up for a Connection header
#  without it, nor `websocket` in the Connection header for an Upgrade header without it)
UPGRADES = ["websocket", "WebSocket", "h2c, websocket", "websocket2", "", None, "websocket, upgrade", "Upgrade, WebSocket", "upgrade"]
CONNECTIONS = ["Upgrade", "upgrade", "keep-alive, Upgrade", "close", None, "keep-alive", "websocket", "websocket, upgrade"]
ACCEPTS = ["right", "wrong", None, "prev", "truncated", "padded", "caseswap"]
SUBS = [(None, None), (None, ["chat"]), ("chat", ["chat"]), ("CHAT", ["chat", "superchat"]),
        ("other", ["chat"]), ("chat", None), ("", ["chat"]),
        # the server selects ONE of the offered names: a list (even of offered names only) is not a selection
        ("mqtt, chat", ["chat"]), ("chat,superchat", ["chat", "superchat"]), ("chat, chat", ["chat"]), ("chat,", ["chat"]),
        (" chat", ["chat"]), ("superchat", ["chat", "superchat"])]


def rands(rnd, n):
    return [bytes(rnd.randrange(256) for _ in range(16)) for _ in range(n)]


def accept_value(kind, key, other_key):
    right = accept_of(key)
    if kind == "right":
        return right
    if kind == "wrong":
        return accept_of(key + "x")
    if kind == "prev":
        return accept_of(other_key)
    if kind == "truncated":
        return right[:-1]
    if kind == "padded":
        return "  " + right + " \t"
    if kind == "caseswap":
        return swapcase_digest(right)
    return None


def single_case(rnd, status, upgrade, connection, accept, sub, offered, via="connect", wss=False):
    r0, r1, r2 = rands(rnd, 3)
    k0 = key_of(r0)
    hdrs = good_headers(k0, sub=sub, upgrade=upgrade, connection=connection,
                        accept=accept_value(accept, k0, key_of(r2)))
    locs = []
    dials = []
    if status is None:
        raw = response(None, hdrs) if rnd.random() < 0.5 else b"\r\n"
    else:
        if status in ("301", "302", "303", "307", "308") and rnd.random() < 0.7:
            hdrs = hdrs + [("Location", "ws://next.example/r")]
            locs.append("ws://next.example/r")
        raw = response(status, hdrs, reason=rnd.choice(["OK", "Switching Protocols", None, "x y z"]))
    dials.append(DialSpec([("chunk", raw)], rand=r0))
    if locs:
        dials.append(DialSpec([("chunk", response("101", good_headers(key_of(r1), sub=(offered or [None])[0])))], rand=r1))
    opts = {}
    if offered is not None:
        opts["subprotocols"] = offered
    url = ("wss" if wss else "ws") + "://example.com/chat"
    return Case(url, dials, options=opts, locations=locs, via=via,
                tag=f"single:{status}:{upgrade}:{connection}:{accept}:{sub}:{offered}")


def gen_single(ctx, rnd):
    dflt = ("101", "websocket", "Upgrade", "right", (None, None))
    axes = [STATUSES, UPGRADES, CONNECTIONS, ACCEPTS, SUBS]
    seen = set()

    def emit(t):
        if t in seen:
            return None
        seen.add(t)
        s, u, c, a, (sub, off) = t
        return single_case(rnd, s, u, c, a, sub, tuple(off) if off else None)
    if ctx.thorough():
        for t in itertools.product(*axes):
            t = (t[0], t[1], t[2], t[3], (t[4][0], tuple(t[4][1]) if t[4][1] else None))
            c = emit(t)
            if c:
                yield c
        return
    for i, j in itertools.combinations(range(5), 2):
        for vi in axes[i]:
            for vj in axes[j]:
                t = list(dflt)
                t[i], t[j] = vi, vj
                t[4] = (t[4][0], tuple(t[4][1]) if t[4][1] else None)
                c = emit(tuple(t))
                if c:
                    yield c
    for _ in range(1200):
        t = [rnd.choice(a) for a in axes]
        t[4] = (t[4][0], tuple(t[4][1]) if t[4][1] else None)
        c = emit(tuple(t))
        if c:
            yield c


def chain_case(rnd, n_redirects, limit, final, via="connect", same_host=False, scheme="ws", relative=False):
    rs = rands(rnd, n_redirects + 2)
    dials, locs = [], []
    for i in range(n_redirects):
        loc = f"{scheme}://example.com/chat" if same_host else f"{scheme}://h{i + 1}.example/p{i + 1}"
        if relative and i == n_redirects - 1:
            loc = f"/p{i + 1}"
        locs.append(loc)
        st = str(REDIRECTS[(i + rnd.randrange(5)) % 5])
        dials.append(DialSpec([("chunk", response(st, [("Location", loc)], reason="Moved"))], rand=rs[i]))
    k = key_of(rs[n_redirects])
    if final == "good":
        ev = [("chunk", response("101", good_headers(k)))]
    elif final == "404":
        ev = [("chunk", response("404", [], reason="Not Found"))]
    elif final == "bad-accept":
        ev = [("chunk", response("101", good_headers(k, accept=accept_of(key_of(rs[max(0, n_redirects - 1)]) if n_redirects else k + "y"))))]
    elif final == "eof":
        ev = [("chunk", b"HTTP/1.1 101 Swi")]
    elif final == "redir-no-location":
        ev = [("chunk", response("302", [], reason="Found"))]
    else:
        raise AssertionError(final)
    dials.append(DialSpec(ev, rand=rs[n_redirects]))
    return Case(f"{scheme}://example.com/chat", dials, limit=limit, locations=locs, via=via,
                tag=f"chain:{n_redirects}:{limit}:{final}")


def gen_chains(ctx, rnd):
    for n in range(0, 6):
        for limit in (None, 0, 1, 2, 3, 4):
            for final in ("good", "404", "bad-accept", "eof", "redir-no-location"):
                yield chain_case(rnd, n, limit, final)
    for n in (1, 2, 4):
        for limit in (None, 0, 1, 5, -1):
            yield chain_case(rnd, n, limit, "good", via="create_connection")
            yield chain_case(rnd, n, limit, "good", same_host=True)
            yield chain_case(rnd, n, limit, "good", scheme="wss")
            yield chain_case(rnd, n, limit, "good", relative=True)


def gen_truncations(ctx, rnd):
    r0, r1 = rands(rnd, 2)
    k0, k1 = key_of(r0), key_of(r1)
    good = response("101", good_headers(k0))
    redir = response("307", [("Location", "ws://b.example/")], reason="Temporary Redirect")
    good1 = response("101", good_headers(k1))
    step = 1 if ctx.thorough() else 1
    for i in range(0, len(good) + 1, step):
        for tail, extra in (("eof", []), ("timeout", []), ("eof", [("reset",)]), ("eof", [("timeout",), ("chunk", good[i:])])):
            yield Case("ws://a.example/", [DialSpec([("chunk", good[:i])] + extra, tail=tail, rand=r0)],
                       tag=f"trunc:{i}:{tail}:{len(extra)}")
    for i in range(0, len(good1) + 1, 1 if ctx.thorough() else 3):
        for tail in ("eof", "timeout"):
            yield Case("ws://a.example/", [DialSpec([("chunk", redir)], rand=r0),
                                           DialSpec([("chunk", good1[:i])], tail=tail, rand=r1)],
                       locations=["ws://b.example/"], tag=f"trunc2:{i}:{tail}")
    # one byte per chunk
    yield Case("ws://a.example/", [DialSpec([("chunk", good[i:i + 1]) for i in range(len(good))], rand=r0)], tag="bytewise")


def gen_interrupts(ctx, rnd):
    """the caller is interrupted INSIDE the handshake (Ctrl-C, SystemExit, a deadline raised into the call by a green-thread
    or async framework — BaseExceptions, not Exceptions) at a byte of the response: the call raises, and like "every other
    case" leaves the transport closed and the object unconnected.  Oracle only (the model has no such event)."""
    r0, r1 = rands(rnd, 2)
    k0, k1 = key_of(r0), key_of(r1)
    good = response("101", good_headers(k0))
    redir = response("307", [("Location", "ws://b.example/")], reason="Temporary Redirect")
    good1 = response("101", good_headers(k1))
    pts = sorted({0, 1, 12, 34, 35, len(good) // 2, len(good) - 2, len(good) - 1})
    for i in pts:
        for kind in ("ki", "exit", "deadline"):
            for via in ("connect", "create_connection"):
                yield Case("ws://a.example/", [DialSpec([("chunk", good[:i]), ("interrupt", kind), ("chunk", good[i:])], rand=r0)],
                           via=via, tag=f"interrupt:{i}:{kind}:{via}")
    for kind in ("ki", "deadline"):
        yield Case("ws://a.example/", [DialSpec([("chunk", redir)], rand=r0),
                                       DialSpec([("chunk", good1[:20]), ("interrupt", kind)], rand=r1)],
                   locations=["ws://b.example/"], tag=f"interrupt2:{kind}")


def gen_accept_for_other_text(ctx, rnd):
    """an accept value that is the RIGHT digest of some other text the client sent in the same request (the name or value of
    one of its own headers, its Host, its path): derived from THAT REQUEST, but not from its key — never a success."""
    for hdr_form in ("dict", "list"):
        for via in ("connect", "create_connection"):
            for which in ("name", "value", "host", "path"):
                r0 = rands(rnd, 1)[0]
                k0 = key_of(r0)
                text = {"name": "X-Token", "value": "s3cr3t", "host": "example.com", "path": "/chat"}[which]
                hdrs = good_headers(k0, accept=accept_of(text))
                header = {"X-Trace": "1", "X-Token": "s3cr3t"} if hdr_form == "dict" else ["X-Trace: 1", "X-Token: s3cr3t"]
                yield Case("ws://example.com/chat", [DialSpec([("chunk", response("101", hdrs))], rand=r0)], options={"header": header},
                           via=via, tag=f"accept-of-other-text:{which}:{hdr_form}:{via}")
                # and the honest response to the same request IS a success (the key is the one in the request)
                yield Case("ws://example.com/chat", [DialSpec([("chunk", response("101", good_headers(k0)))], rand=r0)],
                           options={"header": header}, via=via, tag=f"accept-right-with-headers:{hdr_form}:{via}")


def gen_failures(ctx, rnd):
    r0, r1 = rands(rnd, 2)
    k0, k1 = key_of(r0), key_of(r1)
    good0 = [("chunk", response("101", good_headers(k0)))]
    good1 = [("chunk", response("101", good_headers(k1)))]
    redir = [("chunk", response("301", [("Location", "wss://b.example/x")], reason="Moved"))]
    for addr in ("ADDRESS", "WSGENERIC", "TRANSPORT"):
        yield Case("ws://a.example/", [DialSpec(good0, addr=addr, rand=r0)], tag=f"addr0:{addr}")
        yield Case("ws://a.example/", [DialSpec(redir, rand=r0), DialSpec(good1, addr=addr, rand=r1)],
                   locations=["wss://b.example/x"], tag=f"addr1:{addr}")
    yield Case("wss://a.example/", [DialSpec(good0, wrap="TRANSPORT", rand=r0)], tag="wrap0")
    yield Case("ws://a.example/", [DialSpec(redir, rand=r0), DialSpec(good1, wrap="TRANSPORT", rand=r1)],
               locations=["wss://b.example/x"], tag="wrap1")
    yield Case("ws://a.example/", [DialSpec(good0, sends_left=0, rand=r0)], tag="send0")
    yield Case("ws://a.example/", [DialSpec(redir, rand=r0), DialSpec(good1, sends_left=0, rand=r1)],
               locations=["wss://b.example/x"], tag="send1")
    import ssl
    yield Case("wss://a.example/", [DialSpec(good0, rand=r0)], sslopt={"cert_reqs": ssl.CERT_NONE, "check_hostname": True},
               tag="sslopt-refused")
    # through an HTTP proxy
    for reply in (b"HTTP/1.1 200 Connection established\r\n\r\n", b"HTTP/1.1 407 Auth\r\n\r\n", b"HTTP/1.1 200",
                  b"garbage\r\n\r\n", b"\r\n", b""):
        for scheme in ("ws", "wss"):
            for auth in (None, ("user", "secret"), ("user", None)):
                yield Case(f"{scheme}://a.example:8080/p", [DialSpec([("chunk", reply)] + good0, rand=r0)],
                           proxy=("proxy.local", 3128, auth), tag=f"proxy:{scheme}:{len(reply)}:{auth is not None}")
    yield Case("ws://a.example/", [DialSpec([("chunk", b"HTTP/1.1 200 OK\r\n\r\n")] + good0, sends_left=0, rand=r0)],
               proxy=("proxy.local", 3128, None), tag="proxy-send-fail")
    yield Case("ws://a.example/", [DialSpec([("chunk", b"HTTP/1.1 200 OK\r\n\r\n")] + good0, sends_left=1, rand=r0)],
               proxy=("proxy.local", 3128, None), tag="proxy-send-fail-2")
    # caller-made socket
    yield Case("ws://a.example/", [DialSpec(rand=r0)], user_sock=DialSpec(good0), tag="usersock-ok")
    yield Case("wss://a.example/", [DialSpec(rand=r0)], user_sock=DialSpec(good0), tag="usersock-wss")
    yield Case("ws://a.example/", [DialSpec(rand=r0)], user_sock=DialSpec([("chunk", b"HTTP/1.1 500 x\r\n\r\n")]),
               tag="usersock-bad")
    yield Case("ws://a.example/", [DialSpec(rand=r0), DialSpec(good1, rand=r1)], user_sock=DialSpec(redir),
               locations=["wss://b.example/x"], tag="usersock-redirect")
    # invalid first URL
    for u in ("http://a.example/", "a.example", "ws:///nohost", ""):
        yield Case(u, [DialSpec(good0, rand=r0)], tag=f"badurl:{u}")
    # manual key
    mk = "dGhlIHNhbXBsZSBub25jZQ=="
    yield Case("ws://a.example/", [DialSpec([("chunk", response("101", good_headers(mk)))], rand=r0)],
               options={"header": {"Sec-WebSocket-Key": mk}}, tag="manual-key-right")
    yield Case("ws://a.example/", [DialSpec(good0, rand=r0)],
               options={"header": {"Sec-WebSocket-Key": mk}}, tag="manual-key-generated-accept")
    yield Case("ws://a.example/", [DialSpec(good0, rand=r0)],
               options={"header": ["Sec-WebSocket-Key"]}, tag="manual-key-in-list")


def gen_options_chain(ctx, rnd):
    """options (and the cookie jar, Set-Cookie of the redirect responses included) carried across redirects"""
    n = 1500 if ctx.thorough() else 250
    hdr_choices = [None, ["X-A: 1"], {"X-A": "1", "X-N": None}, {"Sec-WebSocket-Key": "dGhlIHNhbXBsZSBub25jZQ=="}, []]
    for _ in range(n):
        k = rnd.choice([0, 1, 1, 2])
        rs = rands(rnd, k + 1)
        opts = {}
        if rnd.random() < 0.4:
            opts["host"] = rnd.choice(["override.example", ""])
        if rnd.random() < 0.4:
            opts["origin"] = rnd.choice([None, "https://o.example"])
        if rnd.random() < 0.3:
            opts["suppress_origin"] = True
        offered = rnd.choice([None, ["chat"], ["chat", "superchat"]])
        if offered:
            opts["subprotocols"] = offered
        if rnd.random() < 0.4:
            opts["cookie"] = rnd.choice(["a=1", ""])
        h = rnd.choice(hdr_choices)
        if h is not None:
            opts["header"] = h
        if rnd.random() < 0.3:
            opts["connection"] = rnd.choice(["Upgrade", "keep-alive, Upgrade"])
        manual = isinstance(h, dict) and "Sec-WebSocket-Key" in h
        dials, locs = [], []
        for i in range(k):
            loc = rnd.choice([f"ws://h{i + 1}.example/p", "ws://example.com/again", f"wss://s{i + 1}.example:8443/q?x=1"])
            locs.append(loc)
            hdrs = [("Location", loc)]
            if rnd.random() < 0.5:
                hdrs.append(("Set-Cookie", rnd.choice(["sid=abc; Domain=example.com", "t=1; Domain=.example", "u=2"])))
            dials.append(DialSpec([("chunk", response(str(rnd.choice(REDIRECTS)), hdrs, reason="Moved"))], rand=rs[i]))
        key = h["Sec-WebSocket-Key"] if manual else key_of(rs[k])
        sub = rnd.choice([None] + (offered or []) + ["other"]) if offered else rnd.choice([None, "chat"])
        dials.append(DialSpec([("chunk", response("101", good_headers(key, sub=sub)))], rand=rs[k]))
        yield Case("ws://example.com/chat", dials, options=opts, locations=locs,
                   seed_cookies=rnd.choice([(), ("z=9; Domain=example.com",)]), tag=f"optchain:{k}")


def gen_soup(ctx, rnd):
    """duplicated / oddly written header fields around an otherwise right response"""
    n = 2500 if ctx.thorough() else 350
    for _ in range(n):
        r0, r2 = rands(rnd, 2)
        k0 = key_of(r0)
        fields = []
        for name, val in (("Upgrade", "websocket"), ("Connection", "Upgrade"), ("Sec-WebSocket-Accept", accept_of(k0))):
            reps = rnd.choice([1, 1, 1, 2])
            for j in range(reps):
                nm = rnd.choice([name, name.lower(), name.upper(), name + " ", " " + name, name[:-1]])
                v = val
                if rnd.random() < 0.3:
                    v = rnd.choice([val.upper(), val.lower(), val + ", x", "x," + val, "\t" + val + " ", val[1:],
                                    accept_of(key_of(r2)), "", "\x0b" + val, val + "\x1c"])
                fields.append((nm, v))
        rnd.shuffle(fields)
        eol = rnd.choice(["\r\n", "\r\n", "\r\n", "\n"])
        st = rnd.choice(["101", "101", "101", " 101", "+101", "0101", "1_0_1", "101 ", "101\t", "1010", "10"])
        ver = rnd.choice(["HTTP/1.1", "HTTP/1.1", "HTTP/1.0", "X", ""])
        raw = response(st, fields, version=ver, reason=rnd.choice(["Switching Protocols", None, ""]), eol=eol)
        if rnd.random() < 0.15:
            # bytes that are not UTF-8 INSIDE a validated value (dropping them would repair the value)
            vb = rnd.choice(["websocket", "Upgrade", accept_of(k0)]).encode()
            i = raw.find(vb)
            if i >= 0:
                pos = i + rnd.choice([0, len(vb) // 2, len(vb)])
                raw = raw[:pos] + rnd.choice([b"\xff", b"\xc3", b"\x80\x80", b"\xfe"]) + raw[pos:]
        yield Case("ws://a.example/", [DialSpec([("chunk", raw)], rand=r0)], tag="soup")


def gen_garbled(ctx, rnd):
    """an otherwise perfect 101 response with bytes that are not UTF-8 inside ONE validated value or name:
    dropping or replacing those bytes would repair it — the response as sent is not a valid upgrade response."""
    for which in ("websocket", "Upgrade", "accept", "Sec-WebSocket-Accept", "Connection"):
        for where in (0, 1, 2):
            for junk in (b"\xff", b"\xc3", b"\x80\x80", b"\xfe\xff", b"\xed\xa0\x80"):
                r0, = rands(rnd, 1)
                k0 = key_of(r0)
                raw = response("101", good_headers(k0))
                vb = (accept_of(k0) if which == "accept" else which).encode()
                i = raw.find(vb)
                pos = i + (0, len(vb) // 2, len(vb))[where]
                raw = raw[:pos] + junk + raw[pos:]
                yield Case("ws://a.example/", [DialSpec([("chunk", raw)], rand=r0)], tag="garbled")
    # well-formed UTF-8, but not the ASCII token: characters whose Unicode lower-casing lands on an ASCII letter
    # (U+212A KELVIN SIGN -> k), or that merely look alike
    for up in ("websoc\u212aet", "WEBSOC\u212aET", "web\u017focket", "webs\u00f6cket"):
        r0, = rands(rnd, 1)
        yield Case("ws://a.example/", [DialSpec([("chunk", response("101", good_headers(key_of(r0), upgrade=up)))], rand=r0)],
                   tag="garbled")
    for sub, offered in (("\u212a", ["k"]), ("\u212aafka", ["kafka"]), ("KAFKA", ["kafka"]), ("kafka", ["\u212aafka"])):
        r0, = rands(rnd, 1)
        yield Case("ws://a.example/", [DialSpec([("chunk", response("101", good_headers(key_of(r0), sub=sub)))], rand=r0)],
                   options={"subprotocols": offered}, tag="garbled")
    # long heads: 150 further fields; complete (established), cut before the blank line (end of stream / silence), a malformed
    # or undecodable line near the end — with the required fields first
    many = [(f"X-Field-{i}", f"v{i}") for i in range(150)]
    for kind in ("complete", "cut-2", "cut-4", "no-colon", "not-utf8", "required-last", "96", "97-cut", "99-cut"):
        r0, = rands(rnd, 1)
        k0 = key_of(r0)
        full = response("101", good_headers(k0) + many)
        raw = {"complete": full, "cut-2": full[:-2], "cut-4": full[:-4], "no-colon": full[:-4] + b"\r\nno colon here\r\n\r\n",
               "not-utf8": full[:-4] + b"\r\nX: \xff\xfe\r\n\r\n", "required-last": response("101", many + good_headers(k0)),
               "96": response("101", good_headers(k0) + many[:96]), "97-cut": response("101", good_headers(k0) + many[:97])[:-2],
               "99-cut": response("101", good_headers(k0) + many[:99])[:-2]}[kind]
        for tailk in ("eof", "silence"):
            yield Case("ws://a.example/", [DialSpec([("chunk", raw)] + ([("eof",)] if tailk == "eof" else []), rand=r0)], tag="garbled")


# ---------------------------------------------------------------------------------------------------

def raw_response_of(case, idx):
    """bytes the peer of `_http.connect` call #idx sends for the WebSocket handshake"""
    if idx == 0 and case.user_sock is not None:
        d = case.user_sock
    elif 0 <= idx < len(case.dials):
        d = case.dials[idx]
    else:
        return b""
    raw = b""
    for e in d.events:
        if e[0] == "chunk":
            raw += e[1]
        else:
            break
    if case.proxy is not None and not (idx == 0 and case.user_sock is not None):
        m = re.search(rb"\r?\n\r?\n", raw)
        raw = raw[m.end():] if m else b""
    return raw


def key_sent(run, idx):
    for i, phase, data in reversed(run.net.writes):
        if i == idx and phase == "I":
            m = re.search(rb"\r\nSec-WebSocket-Key: ([^\r\n]*)\r\n", data)
            return m.group(1).decode("utf-8", "replace") if m else None
    return None


def judge(ctx, case, run, spec_lines, pending):
    """(O) — queue the Spec evaluation for a returned connect; check the other clauses directly."""
    inp = case_json(case)
    size = len(json.dumps(inp))
    lim = case.limit if case.limit is not None else 3
    lim = max(0, lim)
    if run.dials - 1 > lim:
        ctx.violate("redirect-bound", "more-redirects-than-limit", inp, f"at most {lim} redirects followed",
                    f"{run.dials - 1} followed", size)
    socks = list(run.net.dialled) + ([run.net.user_socket] if run.net.user_socket is not None else [])
    if run.res == "ok":
        if not run.connected:
            ctx.violate("returns-connected", "returned-unconnected", inp, "a returned object is connected", run.obs, size)
        j = run.dials - 1
        raw = raw_response_of(case, j)
        parsed = read_head(raw)
        key = key_sent(run, j)
        offered = case.options.get("subprotocols") or []
        if key is None:
            key = case.options.get("header", {}).get("Sec-WebSocket-Key", "") if isinstance(case.options.get("header"), dict) else ""
        if parsed is None:
            # whatever the code made of an ungrammatical head, two things hold of the bytes AS SENT: the head ends with a blank
            # line, and the status token of its first line is exactly "101"
            if not re.search(rb"\r?\n\r?\n", raw) and not re.search(rb"\n[ \t\r\x0b\x0c\x1c-\x1f]*\n", raw):
                ctx.violate("established", "head-not-terminated", inp, "raise: the response head never ended (no blank line)", run.obs, size)
            else:
                toks = raw.split(b"\n", 1)[0].split(b" ")
                tok = toks[1].strip() if len(toks) > 1 else b""
                if tok.isdigit() and tok.isascii() and len(tok.lstrip(b"0")) > 3:
                    ctx.violate("status-101", f"status-{tok[:6].decode()}", inp, "raise: the status code is not 101", run.obs, size)
            # bytes that are not UTF-8 on the line of a validated header: whatever the code made of them, the field as
            # sent cannot carry the required value
            m = re.search(rb"\r?\n\r?\n", raw)
            for ln in (raw[:m.start()] if m else raw).split(b"\n"):
                try:
                    ln.decode("utf-8")
                except UnicodeDecodeError:
                    nm = ln.decode("utf-8", "ignore").split(":", 1)[0].strip().lower()
                    near = [h for h in ("upgrade", "connection", "sec-websocket-accept") if h == nm or
                            (len(nm) == len(h) - 1 and any(h[:i] + h[i + 1:] == nm for i in range(len(h))))]
                    if near:
                        ctx.violate("established", "undecodable-bytes-in-validated-field", inp,
                                    f"raise: the {near[0]} field as sent is not text", run.obs, size)
            # not a grammatical head for the independent reader: judge the code's own reading
            fields = sorted((run.headers or {}).items())
            status = run.status
            view = "own-reading"
        else:
            status, fields = parsed
            view = "independent"
        spec_lines.append(f"s-established {status if status is not None else 'None'} {dict_arg(fields)} {hx(key or '')} {hlist(offered)}")
        pending.append((case, run, inp, size, status, fields, key, view))
    else:
        if run.ws is not None:
            if run.connected:
                ctx.violate("failure-clean", "connected-after-raise", inp, "connected = False", run.obs, size)
            if run.ws.sock is not None:
                ctx.violate("failure-clean", "sock-kept-after-raise", inp, "sock is None", run.obs, size)
        for s in socks:
            if not s.closed:
                ctx.violate("failure-clean", "transport-left-open", inp, "every dialled transport closed",
                            f"socket #{s.idx} not closed; {run.obs}", size)


def settle(ctx, pending, verdicts):
    for (case, run, inp, size, status, fields, key, view), v in zip(pending, verdicts):
        if v == "1":
            continue
        clause = v.split(":", 1)[1] if ":" in v else "established"
        cause = "other"
        if clause == "status-101":
            cause = "redirect-left-after-limit" if status in REDIRECTS else f"status-{status}"
        elif clause == "accept-exact":
            vals = [x for k, x in fields if k == "sec-websocket-accept"]
            right = accept_of(key or "")
            if any(x.lower() == right.lower() for x in vals):
                cause = "case-folded-accept"
            elif not vals:
                cause = "accept-missing"
            else:
                cause = "wrong-accept"
        elif clause in ("upgrade-token", "connection-token"):
            cause = "token-missing"
        elif clause == "subprotocol-offered":
            cause = "subprotocol-not-offered"
        if view == "own-reading":
            cause += "(own-reading)"
        ctx.violate(clause, cause, inp, f"raise: response is not a valid upgrade ({clause})", run.obs, size)


def classify(case, run):
    t = case.tag.split(":")[0]
    return f"{t}:{run.res if not run.res.startswith('BADSTATUS') else 'BADSTATUS'}"


def run_cases(ctx, cases):
    lines, obs, keep = [], [], []
    spec_lines, pending = [], []
    for case in cases:
        if ctx.out_of_time():
            break
        r = run_real(case)
        lines.append(model_line(case))
        obs.append(r.obs)
        keep.append(case)
        nontriv = not (r.res == "ok" and r.dials == 1 and case.tag.startswith("single:101:websocket:Upgrade:right"))
        ctx.case(key=("e2e", case.tag, r.obs if len(r.obs) < 300 else hash(r.obs)), nontrivial=nontriv,
                 cls=classify(case, r),
                 sample={"case": case.tag, "url": case.url, "limit": case.limit, "observed": r.obs[:200]}
                 if (len(ctx.samples) < 6 and nontriv and case.tag.startswith(("chain", "single"))) else None)
        judge(ctx, case, r, spec_lines, pending)
    out = common.run_driver_parallel(lines + spec_lines)
    mo, so = out[:len(lines)], out[len(lines):]
    for case, l, m, o in zip(keep, lines, mo, obs):
        if case.tag.startswith("interrupt"):
            continue                       # (oracle only: the model has no interruption event)
        if case.via == "create_connection" and not o.startswith("ok "):
            # the object is lost when create_connection raises: compare what remains observable
            m = re.sub(r" status=\S+ sub=\S+", "", m)
            o = re.sub(r" status=\S+ sub=\S+", "", o)
        if m != o:
            ctx.diverge("e2e:connect", {"case": case_json(case), "line": l[:400]}, m, o)
    ctx.traces_vs_impl += len(lines)
    settle(ctx, pending, so)


def run_units(ctx):
    """read_headers / _get_resp_headers / _validate against their models (localises divergences;
    the head-phase internal errors of DESIGN §7 F8 show up here as classes, they are C17's)."""
    rnd = ctx.rng("heads")
    streams = h2lib.head_streams(rnd, ctx.thorough())
    l1, o1, l2, o2 = [], [], [], []
    for s in streams:
        ev, tail = h2lib.head_events(rnd, s)
        from simnet_h2 import events_arg
        t = "E" if tail == "eof" else "T"
        a, sock = h2lib.real_read_headers(ev, tail)
        l1.append(f"m-read-headers {t} {events_arg(ev)}")
        o1.append(a)
        b, sock2 = h2lib.real_resp_headers(ev, tail)
        l2.append(f"m-resp-headers {t} {events_arg(ev)}")
        o2.append(b)
        kind = a.split()[1] if a.startswith("exn") else "ok"
        ctx.case(key=("head", s), nontrivial=True, cls=f"unit:read_headers:{kind}")
        ctx.case(key=("resp", s), nontrivial=True,
                 cls=f"unit:resp_headers:{b.split()[1].split('(')[0] if b.startswith('exn') else 'ok'}")
    # _validate
    from websocket._handshake import _validate
    l3, o3 = [], []
    key = key_of(bytes(range(16)))
    right = accept_of(key)
    for up in UPGRADES + [" websocket ", "websocket,", ",", "WEBSOCKET\t"]:
        for co in CONNECTIONS + ["Upgrade,keep-alive", " upgrade"]:
            for acc in [right, right.lower(), right.upper(), swapcase_digest(right), right[:-1], right + "=", "", None, " " + right]:
                for sub, offered in SUBS:
                    d = {}
                    if up is not None:
                        d["upgrade"] = up
                    if co is not None:
                        d["connection"] = co
                    if acc is not None:
                        d["sec-websocket-accept"] = acc
                    if sub is not None:
                        d["sec-websocket-protocol"] = sub
                    try:
                        ok, sp = _validate(d, key, offered)
                        o = f"1 {h2lib.hopt(sp)}" if ok else "0"
                    except Exception as e:  # noqa
                        o = common.canon_exc(e)
                    l3.append(f"m-validate {dict_arg(list(d.items()))} {hx(key)} {hlist(offered or [])}")
                    o3.append(o)
                    ctx.case(key=("val", up, co, acc, sub, tuple(offered or ())), nontrivial=True, cls=f"unit:validate:{o[:1]}")
    # the Lean SHA-1 / base64 against hashlib / base64
    import base64
    import hashlib
    l4, o4 = [], []
    for n in list(range(0, 70)) + [119, 120, 121, 127, 128, 129, 1000]:
        bs = common.gen_bytes(n, n + 7)
        l4.append("sha1 " + common.hexarg(bs)); o4.append(hashlib.sha1(bs).hexdigest())
        l4.append("b64e " + common.hexarg(bs)); o4.append(hx(base64.b64encode(bs)))
        l4.append("b64d " + hx(base64.b64encode(bs))); o4.append("ok " + common.hexarg(bs))
        l4.append("accept-of " + hx(base64.b64encode(bs))); o4.append(hx(accept_of(base64.b64encode(bs).decode())))
    out = common.run_driver_parallel(l1 + l2 + l3 + l4)
    a, b, c = len(l1), len(l1) + len(l2), len(l1) + len(l2) + len(l3)
    for op, ls, ms, os_ in (("unit:read_headers", l1, out[:a], o1), ("unit:resp_headers", l2, out[a:b], o2),
                            ("unit:validate", l3, out[b:c], o3), ("unit:sha1-base64", l4, out[c:], o4)):
        for l, m, o in zip(ls, ms, os_):
            if m == "unmodelled":
                ctx.dist["unit:unmodelled-non-ascii"] += 1
                continue
            if m != o:
                ctx.diverge(op, l[:300], m, o)
        ctx.traces_vs_impl += len(ls)


def run_corpus(ctx):
    for name, ent in h2lib.load_corpus("C09"):
        case = case_back(ent["input"])
        run_cases(ctx, [case])


def all_cases(ctx):
    rnd = ctx.rng("e2e")
    for g in (gen_chains, gen_failures, gen_options_chain, gen_single, gen_accept_for_other_text, gen_truncations, gen_interrupts, gen_soup, gen_garbled):
        yield from g(ctx, rnd)


def run(ctx):
    ctx.rule = ("e2e connect(): status x Upgrade x Connection x accept x subprotocol/offered (pairwise + random; full "
                "product in thorough), redirect chains 0..5 x limits {default,0..4}, EOF/timeout/reset at every byte of "
                "a response, the caller's own interruption (KeyboardInterrupt / SystemExit / a BaseException deadline) at bytes of a response, dial/TLS/send/proxy failures, caller socket, header soup; unit: read_headers / "
                "_get_resp_headers on grammar, corrupted, truncated and exhaustive short heads, _validate product, "
                "SHA-1/base64 vs hashlib (non-trivial = anything but the plain successful single dial)")
    run_corpus(ctx)
    run_units(ctx)
    run_cases(ctx, all_cases(ctx))


def search(ctx):
    run(ctx)


def replay(ctx, data):
    case = case_back(data["input"])
    sub = common.Ctx(ctx.prop, "quick", ctx.seed)
    run_cases(sub, [case])
    for v in sub.violations:
        if v["clause"] == data["clause"] and v["cause"] == data["cause"]:
            ctx.violations.append(v)
            return False
    return True
