"""C17 (glue) — `_socket.recv` / `_socket.send` against Model.Glue over the WHOLE product of transport behaviours:
{blocking, non-blocking} x first outcome x {select ready, select empty} x second outcome.
(C) `m-glue-recv` / `m-glue-send`; (O) the call returns, raises WebSocketTimeoutException / WebSocketConnectionClosedException,
or raises the very exception object the transport raised — nothing else; end of stream is CLOSED in every mode."""
import errno
import itertools
import socket
import ssl

import common

R_TOKENS = ["d0", "d1", "T", "T2", "W", "A", "A2", "S1", "S0", "O"]
S_TOKENS = ["a3", "a0", "T", "E", "W", "A", "A2", "N0", "N1", "O"]
# several spellings of one model outcome (T2: socket.timeout; A2: EWOULDBLOCK as a plain OSError)
MODEL_TOKEN = {"T2": "T", "A2": "A"}


def _raise_r(tok):
    if tok == "T":
        return TimeoutError("timed out")
    if tok == "T2":
        return socket.timeout("The read operation timed out")
    if tok == "W":
        return ssl.SSLWantReadError(ssl.SSL_ERROR_WANT_READ, "The operation did not complete (read)")
    if tok == "A":
        return BlockingIOError(errno.EAGAIN, "Resource temporarily unavailable")
    if tok == "A2":
        return OSError(errno.EWOULDBLOCK, "Operation would block")
    if tok == "S1":
        return ssl.SSLError("The read operation timed out")
    if tok == "S0":
        return ssl.SSLError(1, "[SSL: DECRYPTION_FAILED_OR_BAD_RECORD_MAC] decryption failed or bad record mac")
    if tok == "O":
        return ConnectionResetError(errno.ECONNRESET, "Connection reset by peer")
    raise AssertionError(tok)


def _raise_s(tok):
    if tok == "T":
        return socket.timeout("timed out")
    if tok == "E":
        return ssl.SSLEOFError(ssl.SSL_ERROR_EOF, "EOF occurred in violation of protocol")
    if tok == "W":
        return ssl.SSLWantWriteError(ssl.SSL_ERROR_WANT_WRITE, "The operation did not complete (write)")
    if tok == "A":
        return BlockingIOError(errno.EAGAIN, "Resource temporarily unavailable")
    if tok == "A2":
        return OSError(errno.EWOULDBLOCK, "Operation would block")
    if tok == "N0":
        return OSError("transport says no")
    if tok == "N1":
        return OSError("The write operation timed out")
    if tok == "O":
        return BrokenPipeError(errno.EPIPE, "Broken pipe")
    raise AssertionError(tok)


class RawSock:
    def __init__(self, nb, outs, kind):
        self.t = 0 if nb else 2.5
        self.outs, self.kind = list(outs), kind
        self.calls = 0
        self.raised = []

    def gettimeout(self):
        return self.t

    def fileno(self):
        return 7

    def _next(self):
        tok = self.outs[min(self.calls, len(self.outs) - 1)]
        self.calls += 1
        return tok

    def recv(self, n):
        tok = self._next()
        if tok == "d0":
            return b""
        if tok == "d1":
            return b"x"
        e = _raise_r(tok)
        self.raised.append((tok, e))
        raise e

    def send(self, data):
        tok = self._next()
        if tok.startswith("a"):
            return int(tok[1:])
        e = _raise_s(tok)
        self.raised.append((tok, e))
        raise e


class _Sel:
    def __init__(self, ready, log):
        self.ready, self.log = ready, log

    def register(self, sock, ev):
        self.log.append(("register", ev))

    def select(self, timeout=None):
        self.log.append(("select", timeout))
        return [("key", 1)] if self.ready else []

    def close(self):
        pass


def observe(fn, sock):
    from websocket import _exceptions as X
    try:
        r = fn()
    except X.WebSocketTimeoutException:
        return "TIMEOUT"
    except X.WebSocketConnectionClosedException:
        return "CLOSED"
    except BaseException as e:  # noqa
        for tok, obj in sock.raised:
            if obj is e:
                return "own:" + MODEL_TOKEN.get(tok, tok)
        return "other:" + common.canon_exc(e)
    return ("ret", r)


def run_glue(ctx):
    from websocket import _socket
    lines, obs, ins = [], [], []
    old = _socket.selectors.DefaultSelector
    try:
        for nb, r1, ready, r2 in itertools.product((0, 1), R_TOKENS, (0, 1), R_TOKENS):
            sel_log = []
            _socket.selectors.DefaultSelector = lambda ready=ready, sel_log=sel_log: _Sel(ready, sel_log)
            sock = RawSock(nb, [r1, r2], "r")
            o = observe(lambda: _socket.recv(sock, 16), sock)
            if isinstance(o, tuple):
                o = "ok" if o[1] == b"x" else f"ret:{o[1]!r}"
            lines.append(f"m-glue-recv {nb} {MODEL_TOKEN.get(r1, r1)} {ready} {MODEL_TOKEN.get(r2, r2)}")
            obs.append(o)
            ins.append({"op": "_socket.recv", "nonblocking": bool(nb), "first": r1, "select_ready": bool(ready), "second": r2,
                        "transport_calls": sock.calls})
        for nb, r1, ready, r2 in itertools.product((0, 1), S_TOKENS, (0, 1), S_TOKENS):
            sel_log = []
            _socket.selectors.DefaultSelector = lambda ready=ready, sel_log=sel_log: _Sel(ready, sel_log)
            sock = RawSock(nb, [r1, r2], "s")
            o = observe(lambda: _socket.send(sock, b"abc"), sock)
            if isinstance(o, tuple):
                o = "ok:none" if o[1] is None else f"ok:{o[1]}"
            lines.append(f"m-glue-send {nb} {MODEL_TOKEN.get(r1, r1)} {ready} {MODEL_TOKEN.get(r2, r2)}")
            obs.append(o)
            ins.append({"op": "_socket.send", "nonblocking": bool(nb), "first": r1, "select_ready": bool(ready), "second": r2,
                        "transport_calls": sock.calls})
    finally:
        _socket.selectors.DefaultSelector = old
    mo = common.run_driver_parallel(lines)
    for l, m, o, inp in zip(lines, mo, obs, ins):
        ctx.case(key=("glue", inp["op"], inp["nonblocking"], inp["first"], inp["select_ready"], inp["second"]), nontrivial=True,
                 cls=f"glue:{inp['op'].split('.')[1]}:nb={int(inp['nonblocking'])}:first={inp['first']}")
        ctx.traces_vs_impl += 1
        if m != o:
            ctx.diverge("unit:glue", inp, m, o)
        # (O) documented outcomes only; end of stream is the loss of the connection in every mode
        if o.startswith("other:") or o.startswith("ret:"):
            ctx.violate("only-documented-exceptions", "glue-" + o[:40], inp, "a value, TIMEOUT, CLOSED or the transport's own exception", o, size=2)
        if inp["op"] == "_socket.recv" and inp["first"] == "d0" and o != "CLOSED":
            ctx.violate("progress", "end-of-stream-handed-up-as-an-empty-read", inp, "CLOSED", o, size=1)
        if inp["op"] == "_socket.recv" and not inp["nonblocking"] and inp["first"] in ("W", "A", "A2") and inp["select_ready"] \
                and inp["second"] == "d1" and o != "ok":
            # a TLS record that has only partly arrived (want-read) / EAGAIN, then the socket turns readable: the call reads again
            ctx.violate("only-documented-exceptions", "would-block-then-readable-not-read-again", inp, "the bytes the second read returns", o, size=2)
        if inp["op"] == "_socket.recv" and inp["first"] in ("T", "T2", "S1") and o != "TIMEOUT":
            ctx.violate("only-documented-exceptions", "timeout-not-mapped", inp, "TIMEOUT", o, size=1)
