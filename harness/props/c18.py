"""C18 — the URL alone determines target, port, resource and TLS; all addresses are tried.

(C) `m-parse-url` (Model.Url.parseUrl with the bracketed-host recogniser `bracketOk`) vs
    websocket._url.parse_url; `m-bracket` vs urllib.parse._check_bracketed_host; `m-open-socket`
    vs websocket._http._open_socket and `m-connect` vs websocket._http.connect in the simulated
    network of simnet_h1; `m-dispatcher` vs WebSocketApp.create_dispatcher.
(O) the Lean Spec on the REAL outputs: `s-parse-url` (Spec.Url.classify: target / refuse /
    unconstrained), `s-dial` (Spec.Url.dialSpec: result and per-socket call log); end to end
    (real WebSocket.connect): resolver arguments, TLS, request line, no network activity when the
    URL is refused.
Trusted here: CPython's `urlsplit` outside the ASCII URL alphabet is not modelled (the driver
answers `unmodelled`; those cases are judged by the oracle only).
"""
import itertools
import json
import os
import socket as real_socket

import common
import simnet_h1 as N
from simnet_h1 import hx

CORPUS = os.path.join(common.VERIF, "corpus", "C18")

SCHEMES = ["ws", "wss"]
HOSTS = ["h", "a.b", "EX.Com", "1.2.3.4", "[::1]", "[FE80::1]", "[1:2:3:4:5:6:7:8]", "[::ffff:1.2.3.4]", "a-b_c~d", "x!$&'()*+,;=y"]
PORTS = [None, "", "0", "1", "80", "443", "8080", "65535", "65536", "x", "0080", "99999999999999999999"]
PATHS = ["", "/", "/p", "/a/b", "/a;b", "/a;b/c;d", "//x", "/%41", "/a;b;c", "/;", "/p/"]
QUERIES = [None, "", "q", "a=1&b=2", "x?y", "q;r", "/"]
USERS = ["", "u@", "u:p@", "@", ":@", "u%40:p@"]
FRAGS = ["", "#f", "#", "#f?x", "#a#b"]

MALFORMED = [
    # no scheme separator
    "h", "ws//h", "ws", "", "//h/p",
    # another scheme
    "http://h/", "https://h/", "WS://h/", "Wss://h/", "wsx://h/", "w://h/", "://h/", "ws+x://h/", "s://h", "wss2://h/",
    # missing slashes (no authority, hence no host)
    "ws:/h", "ws:h", "ws:h:80", "ws:abc://h/", "ws:http://h/", "ws:", "ws:/", "wss:h/p", "ws:/h:80/p", "ws:a.b://h:1/p?q",
    "wss:x://y", "ws:?q", "ws:#f", "ws:///h",
    # missing host
    "ws://", "ws:///p", "ws://:80", "ws://:80/p", "ws://u@", "ws://u@/p", "ws://u:p@:80/", "ws://?q", "ws://#f", "ws:///",
    "wss://:443", "ws://@", "ws://:",
    # authority not in the grammar (unconstrained: target or ValueError)
    "ws://a:b:80/", "ws://a[::1]:80/", "ws://[::1", "ws://::1]", "ws://[zz]/", "ws://[]", "ws://[]/", "ws://[::1]x:80/", "ws://h:80:/",
    "ws://%41/", "ws://h%41/", "ws://[v1.a]/", "ws://[fe80::1%25eth0]/", "ws://[::1][::2]/", "ws://[1.2.3.4]/", "ws://:[::1]/",
    "ws://u@v@h/", "ws://h:-1/", "ws://h:+1/", "ws://h:1_0/", "ws://[:::1]/", "ws://[1::2::3]/", "ws://[12345::]/", "ws://[::1]:/",
    "ws://[::1]:x/", "ws://h;a/b", "ws://a b/", "ws://h/ p", " ws://h/", "ws://h\t/", "ws://h/\n", "ws://\u00e9/", "ws://h:\u0663/",
]

SHORT_ALPHABET = ["/", "h", ":", "?", "#", "@", "[", "]", ";", "1"]


def build(s, h, port, path, q, user, frag):
    u = f"{s}://{user}{h}"
    if port is not None:
        u += ":" + port
    u += path
    if q is not None:
        u += "?" + q
    return u + frag


def url_cases(ctx):
    rnd = ctx.rng("urls")
    urls = []
    # exhaustive core product: no user-info, no fragment
    for t in itertools.product(SCHEMES, HOSTS, PORTS, PATHS, QUERIES):
        urls.append((build(*t, "", ""), "grammar"))
    full = list(itertools.product(SCHEMES, HOSTS, PORTS, PATHS, QUERIES, USERS[1:], FRAGS)) + \
        list(itertools.product(SCHEMES, HOSTS, PORTS, PATHS, QUERIES, [""], FRAGS[1:]))
    if ctx.thorough():
        for t in full:
            urls.append((build(*t), "grammar+"))
    else:
        for t in rnd.sample(full, 6000):
            urls.append((build(*t), "grammar+"))
    for u in MALFORMED:
        urls.append((u, "malformed"))
    # every short string over a small component alphabet after "ws:" and bare
    maxlen = 5 if ctx.thorough() else 4
    for k in range(0, maxlen + 1):
        for t in itertools.product(SHORT_ALPHABET, repeat=k):
            urls.append(("ws:" + "".join(t), "short"))
    for k in range(0, 4):
        for t in itertools.product(["w", "s", ":", "/", "h"], repeat=k):
            urls.append(("".join(t) + "//h/", "short-scheme"))
    # single-character corruptions of a valid URL
    base = "wss://u:p@a.b:8443/p;x/q?r=1#f"
    for i in range(len(base) + 1):
        for c in ["", ":", "/", "@", "[", "]", "#", "?", ";", "%", "W"]:
            urls.append((base[:i] + c + base[i + 1:], "corrupt"))
            urls.append((base[:i] + c + base[i:], "corrupt"))
    seen, out = set(), []
    for u, c in urls:
        if u not in seen:
            seen.add(u)
            out.append((u, c))
    return out


def impl_parse(url):
    from websocket._url import parse_url
    try:
        h, p, r, s = parse_url(url)
        return f"ok {hx(h)} {p} {hx(r)} {int(bool(s))}"
    except Exception as e:  # noqa
        return common.canon_exc(e)


def parse_cause(url, spec, impl):
    kind = spec.split(" ")[0]
    if kind == "target":
        if not impl.startswith("ok "):
            return "valid-url-refused" if impl == "VALUEERROR" else "raises-" + impl
        sh, sp, sr, ss = spec.split(" ")[1:]
        ih, ip, ir, is_ = impl.split(" ")[1:]
        if sr != ir:
            path = url.split("?")[0]
            return "path-params-dropped" if ";" in path else "resource-wrong"
        if sh != ih:
            return "host-wrong"
        if sp != ip:
            return "port-wrong"
        return "tls-flag-wrong"
    if kind == "refuse":
        if impl.startswith("ok "):
            rest = url.split(":", 1)[1] if ":" in url else ""
            if ":" not in url:
                return "no-colon-accepted"
            if url.split(":", 1)[0] not in ("ws", "wss"):
                return "foreign-scheme-accepted"
            if not rest.startswith("//"):
                return "missing-slashes-accepted"
            return "missing-host-accepted"
        return "raises-" + impl
    return "raises-" + impl


def run_parse(ctx, urls=None):
    urls = urls if urls is not None else url_cases(ctx)
    lm = ["m-parse-url " + hx(u) for u, _ in urls]
    ls = ["s-parse-url " + hx(u) for u, _ in urls]
    out = common.run_driver_parallel(lm + ls)
    n = len(urls)
    mo, so = out[:n], out[n:]
    for (u, cls), m, s in zip(urls, mo, so):
        impl = impl_parse(u)
        kind = s.split(" ")[0]
        ctx.case(key=("url", u), nontrivial=(kind == "target" or cls == "malformed"),
                 cls=f"url:{cls}:{kind}" + (":unmodelled" if m == "unmodelled" else ""),
                 sample={"op": "parse-url", "url": u, "impl": impl, "model": m, "spec": s}
                 if kind == "target" and "[" in u and "?" in u and len(ctx.samples) < 4 else None)
        inp = {"op": "parse-url", "url": u}
        if m != "unmodelled" and m != impl:
            ctx.diverge("unit:parse-url", inp, m, impl)
        bad = False
        if kind == "target":
            bad = impl != "ok " + s[len("target "):]
            exp = s
        elif kind == "refuse":
            bad = impl != "VALUEERROR"
            exp = "ValueError"
        else:
            bad = not (impl.startswith("ok ") or impl == "VALUEERROR")
            exp = "a target or ValueError"
        if bad:
            ctx.violate("url-determines-target" if kind == "target" else ("refused-with-valueerror" if kind == "refuse" else "no-internal-error"),
                        parse_cause(u, s, impl), inp, exp, impl, size=len(u))
    ctx.traces_vs_impl += n


def run_brackets(ctx):
    """the recogniser handed to the model as `v6ok` against CPython's."""
    from urllib.parse import _check_bracketed_host
    rnd = ctx.rng("v6")
    lits = ["::1", "::", "1::", "1:2:3:4:5:6:7:8", "1:2:3:4:5:6:7", "1:2:3:4:5:6:7:8:9", "::ffff:1.2.3.4", "1.2.3.4", "fe80::1%eth0",
            "fe80::1%", "fe80::1%a%b", "v1.a", "v.a", "vG.a", "v1.", "v1a", "", "zz", ":::", "1:::2", "::1::", "12345::", "1::2::3",
            "1:2:3:4:5:6:1.2.3.4", "1:2:3:4:5:6:7:1.2.3.4", "::1.2.3.256", "::01.2.3.4", ":1", "1:", "FE80::AbCd", "0:0:0:0:0:0:0:0",
            "::1.2.3", "1::1.2.3.4", "::ffff:1.2.3.4:5", "g::", "-1::", "1:2:3:4:5:6:7::", "::2:3:4:5:6:7:8", "1::3:4:5:6:7:8",
            "1:2::4:5:6:7:8:9"]
    parts = ["", "0", "1", "abcd", "12345", "g", "1.2.3.4", ":"]
    for _ in range(3000 if ctx.thorough() else 600):
        k = rnd.randint(1, 9)
        lits.append(":".join(rnd.choice(parts) for _ in range(k)))
    lits = list(dict.fromkeys(lits))
    out = common.run_driver(["m-bracket " + hx(l) for l in lits])
    for l, m in zip(lits, out):
        try:
            _check_bracketed_host(l)
            impl = "1"
        except ValueError:
            impl = "0"
        ctx.case(key=("v6", l), nontrivial=impl == "1", cls="bracket:" + impl)
        if m != impl:
            ctx.diverge("unit:bracketed-host", l, m, impl)
    ctx.traces_vs_impl += len(lits)


# ------------------------------------------------------------------------------ address loop

OUTCOMES = ["a", "r", "u", "o110", "o113"]     # accept, ECONNREFUSED, ENETUNREACH, ETIMEDOUT, EHOSTUNREACH
SETTINGS = [
    (None, []),
    (5, []),
    (0, [(real_socket.SOL_SOCKET, real_socket.SO_REUSEADDR, 1)]),
    (3, [(real_socket.SOL_SOCKET, real_socket.SO_REUSEADDR, 1), (real_socket.SOL_TCP, real_socket.TCP_NODELAY, 0)]),
]


def dial_cases(ctx):
    cases = []
    for k in range(1, 5):
        for t in itertools.product(OUTCOMES, repeat=k):
            for (to, so) in (SETTINGS if (ctx.thorough() or k <= 3) else SETTINGS[1:3]):
                cases.append((list(t), to, so))
    for t in [["o0"], ["r", "o0", "a"], ["o0", "a"], ["r"] * 6 + ["a"], ["u"] * 8, []]:
        cases.append((t, 5, []))
    return cases


def opts_arg(so):
    return ",".join(hx("|".join(str(int(x)) for x in o)) for o in so) if so else "-"


def run_dial(ctx, cases=None):
    import websocket._http as H
    cases = cases if cases is not None else dial_cases(ctx)
    lm, ls, real = [], [], []
    for ci, (outs, to, so) in enumerate(cases):
        net = N.Net(addrs=outs)
        # every third resolution answers with scoped IPv6 addresses, every third with a dual-stack list (families interleaved)
        net.v6 = True if ci % 3 == 2 else (("mixed64", "mixed46")[ci % 2] if ci % 3 == 1 else False)
        try:
            with N.patched(net, {}):
                infos = H.socket.getaddrinfo("h", 80, 0, real_socket.SOCK_STREAM, real_socket.SOL_TCP)
                net.log.clear()
                sock = H._open_socket(infos, so, to)
            res = f"ok:{sock.i}"
        except OSError as e:
            res = "raise:" + N.outcome_of_exception(e)
        except Exception as e:  # noqa
            res = common.canon_exc(e)
        real.append(res + " " + N.render_events(net.log))
        # every socket is connected to exactly the sockaddr the resolver returned for it (IPv6: flowinfo and scope id included)
        for ev in net.log:
            if ev[0] == "connect" and ev[2] != net.resolved[ev[1]]:
                ctx.violate("all-addresses-tried", "connect-address-not-the-resolved-sockaddr",
                            {"op": "open-socket", "outcomes": outs, "resolved": [list(a) for a in net.resolved]},
                            str(net.resolved[ev[1]]), str(ev[2]), size=len(outs))
                break
        # every socket is made for the family / type / protocol of ITS OWN resolver entry (dual-stack answers mix families)
        infos_ = getattr(net, "infos", None)
        if infos_:
            for sk in net.socks:
                k_ = sk.i - net.base
                if 0 <= k_ < len(infos_) and getattr(sk, "ctor", None) is not None and tuple(sk.ctor) != tuple(infos_[k_][:3]):
                    ctx.violate("all-addresses-tried", "socket-made-for-another-entry's-address-family",
                                {"op": "open-socket", "outcomes": outs, "resolver_entries(family,type,proto,sockaddr)": [[int(x[0]), int(x[1]), x[2], list(x[4])] for x in infos_]},
                                f"socket #{k_}: socket({int(infos_[k_][0])}, {int(infos_[k_][1])}, {infos_[k_][2]})", f"socket{tuple(int(x) for x in sk.ctor)}", size=len(outs))
                    break
        args = f"{N.enc_timeout(to)} {opts_arg(so)} {N.outcomes_arg(outs)}"
        lm.append("m-open-socket " + args)
        ls.append("s-dial " + args)
    out = common.run_driver_parallel(lm + ls)
    n = len(cases)
    mo, so_ = out[:n], out[n:]
    for (outs, to, so), r, m, s in zip(cases, real, mo, so_):
        inp = {"op": "open-socket", "outcomes": outs, "timeout": to, "sockopt": [list(map(int, o)) for o in so]}
        mm = m.split(" ")[0] + " " + N.canon_model_events(m.split(" ", 1)[1])
        ss = s.split(" ")[0] + " " + N.canon_model_events(s.split(" ", 1)[1])
        first_other = next((i for i, o in enumerate(outs) if o not in ("r", "u")), None)
        ctx.case(key=("dial", tuple(outs), to, len(so)), nontrivial=(len(outs) > 1 and first_other != 0),
                 cls=f"dial:len{min(len(outs), 5)}:{'accept' if r.startswith('ok') else 'fail'}",
                 sample=dict(inp, observed=r) if len(outs) == 3 and outs[:2] == ["r", "u"] and so and len(ctx.samples) < 6 else None)
        if mm != r:
            ctx.diverge("unit:open-socket", inp, mm, r)
        if not outs:
            continue            # the caller never passes an empty list (connect() raises first)
        if ss != r:
            rr, re = r.split(" ", 1)
            sr, se = ss.split(" ", 1)
            if rr != sr:
                cause = "refused-address-aborts" if (first_other is None or first_other > 0) and rr.startswith("raise") and \
                    sr.startswith("ok") else "wrong-result"
            else:
                cause = "socket-calls-differ"
            ctx.violate("all-addresses-tried", cause, inp, ss, r, size=len(outs) * 10 + len(so))
    ctx.traces_vs_impl += n


# ------------------------------------------------------------------------------ end to end

E2E_URLS = ["ws://h/", "wss://h", "ws://a.b:81/p?q=1", "wss://EX.Com:8443/a;b/c?d", "ws://[::1]:9/x", "wss://[FE80::1]/", "ws://u:p@h:80/",
            "ws://h?q", "ws://1.2.3.4:65535/%41#f", "http://h/", "ws:/h", "ws:abc://h/", "ws://:80/", "h", "ws://", "WS://h/", "ws://h:0/x"]


def e2e_cases(ctx):
    cases = []
    patterns = [["a"], ["r", "a"], ["u", "r", "a"], ["r", "u"], ["o110"], ["r", "o113", "a"], ["r", "r", "r", "a"], None]
    for u in E2E_URLS:
        for p in (patterns if ctx.thorough() else patterns[:6]):
            for (to, so) in (SETTINGS if ctx.thorough() else SETTINGS[1:3]):
                cases.append((u, p, to, so))
    # other entry points (the timeout and socket options must reach EVERY socket whichever way they were configured) and
    # the route through an HTTP proxy (TLS exactly for wss there too)
    for u in E2E_URLS[:9]:
        for p in patterns[:4]:
            for (to, so) in SETTINGS[1:4]:
                for via in ("create_connection", "default-timeout", "settimeout-then-connect"):
                    cases.append((u, p, to, so, None, via))
            cases.append((u, p, 5, [], "proxy", "connect"))
            cases.append((u, p, 3, SETTINGS[3][1], "proxy", "create_connection"))
    return cases


PROXY_HOST, PROXY_PORT = "proxy.example", 3128
PROXY_REPLY = b"HTTP/1.1 200 Connection established\r\n\r\n"


def run_e2e(ctx, cases=None):
    import websocket
    import websocket._handshake as HS
    cases = cases if cases is not None else e2e_cases(ctx)
    lines, lspec, ldial = [], [], []
    real = []
    cases = [tuple(c) + (None, "connect")[len(c) - 4:] for c in cases]
    for url, addrs, to, so, route, via in cases:
        net = N.Net(addrs=addrs, proxy_reply=PROXY_REPLY)
        HS.CookieJar.jar.clear()
        kw = {"http_proxy_host": PROXY_HOST, "http_proxy_port": PROXY_PORT} if route == "proxy" else {}
        old_default = websocket.getdefaulttimeout()
        ws = None
        try:
            with N.patched(net, {}):
                if via == "connect":
                    ws = websocket.WebSocket(sockopt=list(so))
                    ws.connect(url, timeout=to, **kw)
                elif via == "create_connection":
                    ws = websocket.create_connection(url, timeout=to, sockopt=list(so), **kw)
                elif via == "default-timeout":
                    websocket.setdefaulttimeout(to)
                    ws = websocket.create_connection(url, sockopt=list(so), **kw)
                else:
                    ws = websocket.WebSocket(sockopt=list(so))
                    ws.settimeout(to)
                    ws.connect(url, **kw)
            res = "connected" if ws.connected else "not-connected"
        except Exception as e:  # noqa
            res = common.canon_exc(e)
        finally:
            websocket.setdefaulttimeout(old_default)
        real.append((res, net))
        if route == "proxy":
            lines.append(f"m-connect {hx(url)} {N.enc_timeout(to)} {opts_arg(so)} {hx(PROXY_HOST)} {PROXY_PORT} ! - - "
                         f"{N.outcomes_arg(addrs)} {hx(PROXY_REPLY)}")
        else:
            lines.append(f"m-connect {hx(url)} {N.enc_timeout(to)} {opts_arg(so)} - 0 ! - - {N.outcomes_arg(addrs)} -")
        lspec.append("s-parse-url " + hx(url))
        ldial.append(f"s-dial {N.enc_timeout(to)} {opts_arg(so)} {N.outcomes_arg(addrs) if addrs else '-'}")
    out = common.run_driver_parallel(lines + lspec + ldial)
    n = len(cases)
    mo, so_, do = out[:n], out[n:2 * n], out[2 * n:]
    for (url, addrs, to, so, route, via), (res, net), m, s, d in zip(cases, real, mo, so_, do):
        inp = {"op": "connect", "url": url, "addrs": addrs, "timeout": to, "sockopt": [list(map(int, o)) for o in so],
               "route": route, "via": via}
        log = net.log
        pre = [e for e in log if not (e[0] == "send")] if route != "proxy" else list(log)
        evs = N.render_events(pre)
        kind = s.split(" ")[0]
        ctx.case(key=("e2e", url, str(addrs), to, len(so), route, via), nontrivial=(kind == "target" and bool(addrs) and len(addrs) > 1),
                 cls=f"e2e:{kind}:{res.split('(')[0]}",
                 sample=dict(inp, result=res, trace=N.render_events(log)[:400]) if kind == "target" and addrs == ["r", "a"]
                 and "wss" in url and len(ctx.samples) < 9 else None)
        # (C) the part of connect() up to the handshake
        if m != "unmodelled":
            mres, mev = m.split(" ", 1)
            mok = mres.startswith("ok:")
            tail = [e for e in pre if e[0] == "close"][-1:] if (not mok) else []
            want_ev = N.canon_model_events(mev)
            got_ev = evs
            if mok:
                # after a successful connect() the handshake runs; compare the prefix only
                if not got_ev.startswith(want_ev) or res not in ("connected",):
                    ctx.diverge("e2e:connect", inp, m, res + " " + evs)
            else:
                exp_res = {"VALUEERROR": "VALUEERROR", "ADDRESS": "ADDRESS", "WSGENERIC": "WSGENERIC", "TRANSPORT": "TRANSPORT"}.get(mres, mres)
                if exp_res != res or want_ev != got_ev:
                    ctx.diverge("e2e:connect", inp, m, res + " " + evs)
        # (O)
        if kind == "refuse":
            if res != "VALUEERROR" or log:
                ctx.violate("refused-with-valueerror", "network-activity-before-refusal" if log else parse_cause(url, s, "ok" if res == "connected" else res),
                            inp, "ValueError, no network activity", res + " " + N.render_events(log)[:200], size=len(url))
            continue
        if kind != "target":
            continue
        th, tp, tr, ts = s.split(" ")[1:]
        host, port, resource, secure = bytes.fromhex(th).decode(), int(tp), bytes.fromhex(tr).decode(), ts == "1"
        resolves = [e for e in log if e[0] == "resolve"]
        dial_target = (host, port) if route != "proxy" else (PROXY_HOST, PROXY_PORT)
        if not resolves or (resolves[0][1], resolves[0][2]) != dial_target:
            ctx.violate("url-determines-target", "resolver-arguments-wrong", inp, f"getaddrinfo{dial_target}", str(resolves[:1]), size=len(url))
            continue
        if addrs:
            sr, se = d.split(" ", 1)
            se = N.canon_model_events(se)
            dial = N.render_events([e for e in log if e[0] in ("create", "settimeout", "setsockopt", "connect", "close")])
            # a socket that connected may be closed later by the handshake's failure path; compare the dial prefix
            if not dial.startswith(se):
                ctx.violate("all-addresses-tried", "socket-calls-differ", inp, se, dial, size=len(url) + len(addrs))
                continue
            if sr.startswith("ok:"):
                tls = [e for e in log if e[0] == "tls"]
                if secure != bool(tls) or (tls and tls[0][2] != host):
                    ctx.violate("url-determines-target", "tls-not-exactly-for-wss", inp, f"TLS({host})" if secure else "no TLS", str(tls), size=len(url))
                if route == "proxy":
                    conn = [e for e in log if e[0] == "send"][:1]
                    want_c = f"CONNECT {'[' + host + ']' if ':' in host else host}:{port} HTTP/1.1".encode()
                    if not conn or not bytes(conn[0][2]).startswith(want_c[:8]):
                        ctx.violate("url-determines-target", "connect-line-wrong", inp, want_c.decode(), str(conn)[:120], size=len(url))
                reqline = net.requests[0].split(b"\r\n")[0].decode("latin1") if net.requests else "<no request>"
                if reqline != f"GET {resource} HTTP/1.1":
                    ctx.violate("url-determines-target", "path-params-dropped" if ";" in resource else "request-line-wrong", inp,
                                f"GET {resource} HTTP/1.1", reqline, size=len(url))
                if res != "connected":
                    ctx.violate("all-addresses-tried", "accepting-address-not-used", inp, "connected", res, size=len(url))
            else:
                if res != "TRANSPORT":
                    ctx.violate("all-addresses-tried", "wrong-result", inp, "the connect error", res, size=len(url))
    ctx.traces_vs_impl += n


def run_redirects(ctx):
    """every connection of a redirect chain is determined by ITS URL (the Location), not by the one before it: dial target,
    TLS, request line and Host header of hop k follow from URL k (Spec.Url.classify on URL k)."""
    import websocket
    import websocket._handshake as HS
    chains = [["ws://a.example/old?k=1", "ws://b.example:9000/new/feed?x=1"],
              ["ws://a.example:81/p", "wss://a.example/p"],
              ["wss://a.example/x;y?z", "ws://[::1]:8080/"],
              ["ws://a.example/", "ws://b.example/b?1", "wss://c.example:444/c/d"],
              ["ws://a.example/same", "ws://a.example/same"]]
    runs, lspec = [], []
    for chain in chains:
        for to, so in SETTINGS[1:3]:
            net = N.Net(addrs=["a"], redirects=chain[1:])
            HS.CookieJar.jar.clear()
            try:
                with N.patched(net, {}):
                    ws = websocket.WebSocket(sockopt=list(so))
                    ws.connect(chain[0], timeout=to)
                res = "connected" if ws.connected else "not-connected"
            except Exception as e:  # noqa
                res = common.canon_exc(e)
            runs.append((chain, to, so, res, net))
            lspec += ["s-parse-url " + hx(u) for u in chain]
    out = common.run_driver(lspec)
    k = 0
    for chain, to, so, res, net in runs:
        specs = out[k:k + len(chain)]
        k += len(chain)
        inp = {"op": "redirect-chain", "chain": chain, "timeout": to}
        log = net.log
        resolves = [e for e in log if e[0] == "resolve"]
        ctx.case(key=("redir", str(chain), to), nontrivial=True, cls=f"redirect-chain:hops={len(chain)}",
                 sample=dict(inp, trace=N.render_events(log)[:300]) if len(ctx.samples) < 12 else None)
        if res != "connected" or len(resolves) != len(chain) or len(net.requests) != len(chain):
            ctx.violate("url-determines-target", "redirect-chain-not-followed", inp, f"{len(chain)} connections, connected",
                        f"{res}: {len(resolves)} resolutions, {len(net.requests)} requests", size=len(str(chain)))
            continue
        # split the log per hop at the resolver calls
        starts = [i for i, e in enumerate(log) if e[0] == "resolve"] + [len(log)]
        for hop, (url, s) in enumerate(zip(chain, specs)):
            if not s.startswith("target "):
                continue
            th, tp, tr, ts = s.split(" ")[1:]
            host, port, resource, secure = bytes.fromhex(th).decode(), int(tp), bytes.fromhex(tr).decode(), ts == "1"
            seg = log[starts[hop]:starts[hop + 1]]
            req = net.requests[hop].decode("latin1").split("\r\n")
            hostport = (f"[{host}]" if ":" in host else host) + ("" if port in (80, 443) else f":{port}")
            got = {"dial": (seg[0][1], seg[0][2]), "tls": bool([e for e in seg if e[0] == "tls"]), "request-line": req[0],
                   "host-header": next((l for l in req if l.lower().startswith("host:")), "")}
            want = {"dial": (host, port), "tls": secure, "request-line": f"GET {resource} HTTP/1.1", "host-header": f"Host: {hostport}"}
            bad = [f for f in want if want[f] != got[f]]
            if bad:
                ctx.violate("url-determines-target", f"redirected-connection-uses-the-previous-url:{bad[0]}" if hop else f"first-hop:{bad[0]}", inp,
                            f"hop {hop} ({url}): {want}", str(got), size=len(str(chain)))
                break
    ctx.traces_vs_impl += len(runs)


def run_same_object(ctx):
    """the second connection of ONE WebSocket object (connect, close while connected, connect again; or a failed connect,
    then another): the configured timeout — not whatever close() or the previous attempt used — is applied to every socket
    tried, and the target is that of the new URL."""
    import websocket
    for to_kw, configured in ((10, 10), (None, None), (0.25, 0.25)):
        for first_url, second_url, second_outs in (("ws://h/", "ws://h/", ["r", "u", "a"]), ("ws://h/", "wss://g:8443/x", ["u", "a"]),
                                                   ("wss://h/", "ws://h:81/", ["a"])):
            for how in ("close", "close-timeout-1", "shutdown", "failed-first"):
                net = N.Net(addrs=["u"] if how == "failed-first" else ["r", "a"])
                obs, exc = [], None
                with N.patched(net, {}):
                    ws = websocket.WebSocket()
                    try:
                        if to_kw is None:
                            ws.connect(first_url)
                        else:
                            ws.connect(first_url, timeout=to_kw)
                    except OSError:
                        pass
                    try:
                        if how == "close":
                            ws.close()
                        elif how == "close-timeout-1":
                            ws.close(timeout=1)
                        elif how == "shutdown":
                            ws.shutdown()
                    except Exception as e:  # noqa
                        exc = e
                    n2 = len(net.log)
                    net.addrs = list(second_outs)
                    try:
                        ws.connect(second_url)
                    except Exception as e:  # noqa
                        exc = e
                    obs = [e for e in net.log[n2:] if e[0] in ("settimeout", "resolve")]
                    seen_to = ws.gettimeout()
                ctx.case(key=("same-object", to_kw, first_url, second_url, how), nontrivial=True, cls=f"same-object:{how}:timeout={to_kw}")
                inp = {"op": "connect / " + how + " / connect on one object", "timeout": to_kw, "first": first_url, "second": second_url,
                       "second_outcomes": second_outs}
                u = N.urlparts(second_url) if hasattr(N, "urlparts") else None
                want_to = [("settimeout", None, configured)] * len(second_outs)
                got_to = [("settimeout", None, e[2]) for e in obs if e[0] == "settimeout"]
                if exc is not None or got_to != want_to or seen_to != configured:
                    ctx.violate("all-addresses-tried", "timeout-of-an-earlier-call-leaks-into-the-next-connect", inp,
                                f"settimeout({configured}) on each of {len(second_outs)} sockets; gettimeout() = {configured}",
                                f"{[e[2] for e in obs if e[0] == 'settimeout']}, gettimeout() = {seen_to}, exception {exc!r}", size=6)


def run_dispatcher(ctx):
    import websocket
    urls = ["ws://h/", "wss://h/", "wss://h:80/", "ws://h:443/", "wss://[::1]/p"]
    cases = [(u, pt) for u in urls for pt in (None, 0, 7, 2.5)]
    lines = []
    real = []
    for u, pt in cases:
        app = websocket.WebSocketApp(u)
        from websocket._url import parse_url
        ssl = parse_url(u)[3]
        d = app.create_dispatcher(pt, None, ssl, None)
        real.append((type(d).__name__, d.ping_timeout, ssl))
        lines.append(f"m-dispatcher {'!' if pt is None else int(pt) if pt == int(pt) else 2} 0 {int(ssl)}")
    out = common.run_driver(lines)
    for (u, pt), (name, to, ssl), m in zip(cases, real, out):
        ctx.case(key=("disp", u, pt), nontrivial=ssl, cls="dispatcher:" + name)
        r = ("ssl" if name == "SSLDispatcher" else "plain" if name == "Dispatcher" else name) + f":{int(to) if to == int(to) else 2}"
        if pt != 2.5 and m != r:
            ctx.diverge("unit:dispatcher", {"url": u, "ping_timeout": pt}, m, r)
        if (name == "SSLDispatcher") != u.startswith("wss:"):
            ctx.violate("dispatcher-follows-tls-flag", "wrong-dispatcher", {"op": "dispatcher", "url": u, "ping_timeout": pt},
                        "SSLDispatcher iff wss", name)
    ctx.traces_vs_impl += len(cases)


# ------------------------------------------------------------------------------ entry points

def corpus_inputs():
    out = []
    if os.path.isdir(CORPUS):
        for f in sorted(os.listdir(CORPUS)):
            if f.endswith(".json"):
                with open(os.path.join(CORPUS, f)) as fh:
                    out.append(json.load(fh)["input"])
    return out


def run_inputs(ctx, inputs):
    for inp in inputs:
        op = inp.get("op")
        if op == "parse-url":
            run_parse(ctx, [(inp["url"], "corpus")])
        elif op == "open-socket":
            run_dial(ctx, [(inp["outcomes"], inp["timeout"], [tuple(o) for o in inp["sockopt"]])])
        elif op == "connect":
            run_e2e(ctx, [(inp["url"], inp["addrs"], inp["timeout"], [tuple(o) for o in inp["sockopt"]])])


def run(ctx):
    run_same_object(ctx)
    ctx.assumptions = [
        "C18: urllib.parse.urlsplit is modelled on the ASCII URL alphabet only (letters digits -._~:/?#[]@!$&'()*+,;=%); outside it the driver answers `unmodelled` and the case is judged by the oracle alone",
        "C18: urllib.parse._check_bracketed_host (ipaddress) is a parameter `v6ok` of model, Spec and theorems; the driver's instance Model.Url.bracketOk is compared with CPython on generated literals, not proved",
        "C18: Spec.Url.classify leaves authorities outside the RFC 3986 grammar, the explicit port 0 and ports > 65535 `unconstrained` (target or ValueError both accepted)",
        "C18: getaddrinfo / socket / ssl wrap are simulated (harness/simnet_h1.py); exceptions out of socket(), settimeout(), setsockopt() are not modelled",
    ]
    ctx.rule = ("parse_url: scheme x host form (names, IPv4, bracketed IPv6, sub-delims) x port {absent, '', 0, 1, 80, 443, 8080, "
                "65535, 65536, x, 0080, huge} x path x query (exhaustive), x user-info x fragment (sampled; exhaustive in thorough), "
                "malformed variants (no colon, foreign scheme, missing slashes, missing host, broken authority), every string "
                "'ws:'+w, w over {/ h : ? # @ [ ] ; 1}, |w| <= 4 (5), single-character corruptions; _open_socket: every outcome "
                "pattern of length 1..4 over {accept, ECONNREFUSED, ENETUNREACH, ETIMEDOUT, EHOSTUNREACH} x timeout/sockopt "
                "settings; real WebSocket.connect in the simulated network (non-trivial = valid URL / fall-through to a later address)")
    run_inputs(ctx, corpus_inputs())
    run_parse(ctx)
    run_brackets(ctx)
    run_dial(ctx)
    run_e2e(ctx)
    run_redirects(ctx)
    run_dispatcher(ctx)


def search(ctx):
    run(ctx)


def replay(ctx, data):
    sub = common.Ctx(ctx.prop, "quick", ctx.seed)
    run_inputs(sub, [data["input"]])
    for v in sub.violations:
        if v["clause"] == data["clause"] and v["cause"] == data["cause"]:
            ctx.violations.append(v)
            return False
    return True
