"""C16 — keepalive: argument validation, periodic pings, no false positive, silent peer detected in bounded time.

(C) the real `run_forever(ping_interval, ping_timeout, ping_payload)` with its real ping thread under the
virtual-time scheduler vs (i) `m-app` -- identical full traces -- and (ii) `m-keepalive` (Model.Keepalive) --
identical ping ticks and report tick.
(O) Spec.Keepalive on the REAL observations: `s-keepalive-args` (accepted pairs), `s-keepalive`
(periodicity, no report for a responsive peer, report within 2·timeout of the first unanswered ping).

Enumerated: (interval, timeout) on {-1, 0, 1..6, 1.5} s x {None, -1, 0, 1..5, 0.5} s for the validation;
TLS-style transport with the pong coalesced behind a data frame in one record; accepted pairs on {1..6} x {1..5} s with pong latencies per ping in {1 tick, to-1, to, to+1, never} (all
patterns over the first 2 pings, thorough 3), data frames at ticks around the ping / timeout instants,
both orders at every simultaneous wake; late unsolicited pongs; connections that end (pings stop) and
reconnect (pings restart).
"""
import itertools

import appcheck
import appsim
import common
from appsim import TPS

INF = None


def ka_scenario(iv, to, lats, data=(), extra_pongs=(), sched="", tail_responsive=True, npings=None, payload="ka",
                ssl=False, coalesce=False):
    """one connection that stays up.  lats[j] = latency of the pong answering the j-th ping (ping at (j+2)*iv)."""
    n = len(lats)
    total = (npings if npings is not None else n + 2)
    arr = []
    for j in range(total):
        T = (j + 2) * iv
        lat = lats[j] if j < n else (1 if tail_responsive and (n == 0 or lats[-1] is not INF) else INF)
        if lat is not INF:
            if coalesce:
                arr.append((T + lat, -1, "t"))      # a data frame; the pong follows it in the SAME (TLS) segment
            arr.append((T + lat, 0, "q"))
    for t in extra_pongs:
        arr.append((t, 1, "q"))
    for t in data:
        arr.append((t, 2, "t"))
    arr.sort(key=lambda x: (x[0], x[1]))
    horizon = (total + 2) * iv - 1
    evs = []
    prev = 0
    for t, _, k in arr:
        if t > horizon:
            continue
        evs.append([t - prev, 1 if (coalesce and k == "q" and _ == 0 and evs and t == prev) else 0, k, "6b" if k == "t" else ""])
        prev = t
    sc = {"cbs": appsim.ALL, "iv": iv, "to": to, "payload": payload, "runs": [[["E", evs]]], "horizon": horizon,
          "sched": sched, "kind": "ka", "tag": f"iv={iv}:to={to}:lats={['inf' if l is INF else l for l in lats]}",
          "fuel": 6000}
    if ssl:
        sc["ssl"] = True
        sc["tag"] += ":tls" + (":coalesced" if coalesce else "")
    return sc


def ka_line(sc):
    """the same scenario for `m-keepalive`."""
    evs = sc["runs"][0][0][1]
    arr = "+".join(f"{dt}.{'q' if k == 'q' else 'd'}" for dt, _, k, _ in evs) or "-"
    return f"m-keepalive {sc['iv']} {sc['to']} {sc['horizon']} {sc.get('fuel', 6000)} {arr} {sc.get('sched') or '-'}"


def observe(trace):
    """(ping ticks, payloads, report tick) from a canonical trace."""
    pings, pls, rep = [], set(), None
    for it in trace.split(";") if trace else []:
        t, _, rest = it.partition(":")
        if rest.startswith("wrote:9:"):
            pings.append(int(t))
            pls.add(rest.split(":")[2])
        elif rest == "cb:on_error:eTIMEOUT" and rep is None:
            rep = int(t)
    return pings, pls, rep


def pongs_of(sc):
    out, t = [], 0
    for dt, _, k, _ in sc["runs"][0][0][1]:
        t += dt
        if k == "q":
            out.append(t)
    return out


def stall_scenarios(ctx):
    """the ping thread is descheduled right after a ping has been written (for longer than the pong latency): a
    responsive peer must still never be reported.  Oracle only (the model has no such schedule element)."""
    scs = []
    for iv, to in ((2 * TPS, TPS), (3 * TPS, 2 * TPS), (5 * TPS, 2 * TPS)):
        for lat, stall in ((1, 8), (16, 64), (to // 2, to // 2 + 8)):
            for occ in (0, 1):
                sc = ka_scenario(iv, to, [lat] * (occ + 1), npings=occ + 1)
                sc["stall_after_send"] = [occ, stall]
                sc["horizon"] = (occ + 2) * iv + stall + 2 * to + 64
                sc["kind"] = "ka-stall"
                sc["tag"] += f":stall-after-send#{occ}={stall}"
                scs.append(sc)
    return scs


def run_stall(ctx):
    scs = stall_scenarios(ctx)
    real = appcheck.run_real_many(scs)
    for sc, r in zip(scs, real):
        pings, pls, rep = observe(r["trace"])
        ctx.case(key=sc["tag"], nontrivial=True, cls="ka-stall:" + ("reported" if rep is not None else "quiet"),
                 sample={"scenario": sc, "pings": pings, "report": rep} if rep is not None else None)
        if rep is not None:
            ctx.violate("no-false-positive", "reported-although-every-ping-was-answered@ping-thread-descheduled-after-write", sc,
                        "a peer that answers every ping within the timeout is never reported",
                        f"pings={pings} pongs={pongs_of(sc)} report={rep} (iv={sc['iv']}, to={sc['to']})", size=appcheck.size_of(sc))


def run_external(ctx):
    """the same silent / responsive peers under an external (rel-style) dispatcher: timers are re-armed only while
    their callback returns a true value.  Real runs + the bound; how the loss is HANDLED there is C15's business
    (finding F16: the exception escapes the dispatcher callback) — here only: is the silence noticed in time."""
    scs = []
    for iv, to in ((5 * TPS, 2 * TPS), (3 * TPS, TPS), (6 * TPS, 2 * TPS)):
        for lats in ([INF], [1, INF], [1, 1, INF]):
            sc = ka_scenario(iv, to, lats, tail_responsive=False)
            sc.update(ext=True, kind="ka-external", horizon=(len(lats) + 4) * iv)
            sc["tag"] += ":external"
            scs.append(sc)
        sc = ka_scenario(iv, to, [1, to - 1, 1])
        sc.update(ext=True, kind="ka-external")
        sc["tag"] += ":external:responsive"
        scs.append(sc)
    real = appcheck.run_real_many(scs)
    for sc, r in zip(scs, real):
        pings, rep = [], None
        for it in r["trace"].split(";") if r["trace"] else []:
            t, _, rest = it.partition(":")
            if rest.startswith("wrote:9:"):
                pings.append(int(t))
            elif rep is None and ("eTIMEOUT" in rest or (rest.startswith("raised:") and "TIMEOUT" in rest)):
                rep = int(t)
        pongs = pongs_of(sc)
        unanswered = [p for p in pings if not any(p < q <= p + sc["to"] for q in pongs)]
        ctx.case(key=sc["tag"], nontrivial=bool(pings), cls="ka-external:" + ("reported" if rep is not None else "quiet"),
                 sample={"scenario": sc, "pings": pings, "report": rep} if len(ctx.samples) < 14 else None)
        if unanswered and unanswered[0] + 2 * sc["to"] <= sc["horizon"] and (rep is None or rep > unanswered[0] + 2 * sc["to"]):
            ctx.violate("detect", ("never-reported" if rep is None else "reported-late") + "@iv>2to@external-dispatcher", sc,
                        f"the silence after the ping at {unanswered[0]} is noticed by {unanswered[0] + 2 * sc['to']}",
                        f"pings={pings} pongs={pongs} report={rep}", size=appcheck.size_of(sc))
        if not unanswered and rep is not None:
            ctx.violate("no-false-positive", "reported-although-every-ping-was-answered@external-dispatcher", sc, "never reported",
                        f"pings={pings} pongs={pongs} report={rep}", size=appcheck.size_of(sc))


def run_slow_handlers(ctx):
    """application handlers that take longer than the ping timeout (or straddle a ping tick): a pong is timed when it ARRIVES,
    so a peer that answers every ping at once is still never reported. Real runs + the bound (the model's callbacks take no time)."""
    scs = []
    for iv, to in ((3 * TPS, TPS), (5 * TPS, 2 * TPS), (2 * TPS, TPS)):
        # (the handler returns before the next ping goes out: a loop that is still busy when the NEXT pong arrives reads it
        #  late through no fault of the peer — that is the application's doing and outside the property)
        for delay in sorted({min(to + 50, iv - 20), iv - 20, to + 1}):
            sc = ka_scenario(iv, to, [1, 1, 1, 1])
            sc.update(plan={"on_pong": "zzzzzz"}, cb_delay=delay, kind="ka-slow-handler")
            sc["tag"] += f":slow-on_pong:{delay}"
            scs.append(sc)
    real = appcheck.run_real_many(scs)
    for sc, r in zip(scs, real):
        items = [(int(t), rest) for t, _, rest in (it.partition(":") for it in (r["trace"].split(";") if r["trace"] else []))]
        pings = [t for t, rest in items if rest.startswith("wrote:9:")]
        rep = next((t for t, rest in items if "eTIMEOUT" in rest), None)
        pongs = pongs_of(sc)
        ctx.case(key=sc["tag"], nontrivial=bool(pings), cls="ka-slow-handler:" + sc["tag"].split(":slow-")[1].split(":")[0])
        # every ping that went out was answered one tick later (arrival time): nothing may be reported
        unanswered = [p for p in pings if not any(p < q <= p + sc["to"] for q in pongs)]
        if not unanswered and rep is not None:
            ctx.violate("no-false-positive", "responsive-peer-reported@slow-handler", sc, "never reported",
                        f"pings={pings} pongs(arrival)={pongs[:6]} report={rep}; trace …{r['trace'][-240:]}", size=appcheck.size_of(sc))


def run_transient_write_failure(ctx):
    """ONE ping write fails (a momentarily full send buffer with a socket timeout set, ENOBUFS, a one-off SSL error): the
    connection survives it, so the keepalive does too — pings keep going out at the interval for as long as the connection is
    up.  No ping timeout configured (so the missed ping cannot be mistaken for a silent peer).  Real runs + oracle."""
    scs = []
    for iv in (2 * TPS, 3 * TPS, 5 * TPS):
        for kth in (0, 1, 2):
            for ssl in (False, True):
                total = kth + 5
                # the server answers every ping it gets and sends some data; the connection stays up to the horizon
                sc = ka_scenario(iv, None, [1] * total, data=(iv // 2, 3 * iv + 7), npings=total, ssl=ssl)
                sc["write_fails_once"] = [0, (kth + 2) * iv]      # the (kth+1)-th ping is due at (kth+2)*iv
                sc["kind"] = "ka-transient-write-failure"
                sc["tag"] += f":ping#{kth}-write-fails-once"
                scs.append(sc)
    real = appcheck.run_real_many(scs)
    for sc, r in zip(scs, real):
        pings, pls, rep = observe(r["trace"])
        iv = sc["iv"]
        t_fail = sc["write_fails_once"][1]
        ctx.case(key=sc["tag"], nontrivial=True, cls="ka-transient-write-failure:" + ("tls" if sc.get("ssl") else "plain"))
        later = [t for t in pings if t > t_fail]
        due = [t for t in range(t_fail + iv, sc["horizon"] - 2, iv)]
        ended = any(x in r["trace"] for x in (":sockClosed:", ":cb:on_close:", ":ret:", ":raised:"))
        if not ended and len(later) < len(due):
            ctx.violate("periodic", "ping-thread-gone-after-one-failed-write", sc,
                        f"pings at {due} (every {iv} ticks after the one failed write at {t_fail}; the connection is up to the horizon {sc['horizon']})",
                        f"pings at {pings}; trace …{r['trace'][-240:]}", size=appcheck.size_of(sc))


def run_external_reconnect(ctx):
    """external dispatcher + reconnect: EVERY connection of the run that falls silent is given up within two timeouts of its
    first unanswered ping — the second and the third as well as the first (the periodic check belongs to the run)."""
    from props import c15
    scs = []
    for seq in (("Es", "Es"), ("Es", "Es", "Es"), ("Ee", "Es"), ("Es", "R", "Es"), ("Er", "Es", "Es")):
        for iv, to in ((3 * TPS, 2 * TPS), (5 * TPS, 2 * TPS), (2 * TPS, TPS)):
            for ext in (True, False):
                sc = c15.scenario(seq, TPS, "close", ka=True)
                sc.update(iv=iv, to=to, ext=ext, kind="ka-reconnect", horizon=(len(seq) * 4 + 6) * iv,
                          tag=f"{'-'.join(seq)}|iv={iv}|to={to}|{'external' if ext else 'builtin'}")
                scs.append(sc)
    real = appcheck.run_real_many(scs)
    for sc, r in zip(scs, real):
        items = [(int(t), rest) for t, _, rest in (it.partition(":") for it in (r["trace"].split(";") if r["trace"] else []))]
        seq = sc["tag"].split("|")[0].split("-")
        # segments per dial
        segs, cur = [], None
        for t, rest in items:
            if rest.startswith("dial:"):
                cur = []
                segs.append(cur)
            if cur is not None:
                cur.append((t, rest))
        ctx.case(key=sc["tag"], nontrivial=True, cls=f"ka-reconnect:{'external' if sc['ext'] else 'builtin'}:{len(seq)}")
        for j, o in enumerate(seq):
            if o != "Es":
                continue
            if j >= len(segs):
                ctx.violate("detect", "silent-connection-never-given-up@reconnecting-run", sc, f"connection #{j} is dialled",
                            f"only {len(segs)} dials; trace …{r['trace'][-300:]}", size=appcheck.size_of(sc))
                break
            pings = [t for t, rest in segs[j] if rest.startswith("wrote:9:")]
            noticed = next((t for t, rest in segs[j] if pings and t >= pings[0] and (rest == "pingStop" or rest.startswith("sleep:")
                                                                                   or "eTIMEOUT" in rest)), None)
            if not pings:
                continue
            if pings[0] + 2 * sc["to"] <= sc["horizon"] and (noticed is None or noticed > pings[0] + 2 * sc["to"] + 8):
                ctx.violate("detect", ("never-reported" if noticed is None else "reported-late") +
                            f"@connection-{'first' if j == 0 else 'later'}@{'external' if sc['ext'] else 'builtin'}-dispatcher", sc,
                            f"connection #{j}: the silence after the ping at {pings[0]} is noticed by {pings[0] + 2 * sc['to']}",
                            f"pings={pings[:6]} noticed={noticed}; trace …{r['trace'][-240:]}", size=appcheck.size_of(sc))
                break


def run_keepalive(ctx, scs):
    if not scs:
        return
    real = appcheck.run_real_many(scs)
    lines = [appsim.model_line(sc) for sc in scs] + [ka_line(sc) for sc in scs]
    obs = []
    for sc, r in zip(scs, real):
        pings, pls, rep = observe(r["trace"])
        obs.append((pings, pls, rep))
        lines.append(f"s-keepalive {sc['iv']} {sc['to']} {sc['horizon']} {','.join(map(str, pings)) or '-'} "
                     f"{','.join(map(str, pongs_of(sc))) or '-'} {'N' if rep is None else rep}")
    out = common.run_driver_parallel(lines)
    n = len(scs)
    for i, (sc, r) in enumerate(zip(scs, real)):
        if r["abort"] == "skipped":
            continue
        m_app, m_ka, verdict = out[i], out[n + i], out[2 * n + i]
        pings, pls, rep = obs[i]
        size = appcheck.size_of(sc)
        ctx.case(key=sc["tag"] + "|" + (sc.get("sched") or "") + "|" + str(sc["runs"]), nontrivial=bool(pings),
                 cls=f"ka:iv={sc['iv'] // TPS}s:to={sc['to'] // TPS}s:{'reported' if rep is not None else 'quiet'}",
                 sample={"scenario": sc, "pings": pings, "report": rep} if len(ctx.samples) < 5 and rep else None)
        if r["abort"] in ("wall-clock", "steps") or r["outcome"][0] == "harness-error":
            ctx.violate("terminates", "stuck-" + str(r["abort"]), sc, "run finishes or is cut", str(r["outcome"]), size=size)
        if appsim.project(m_app) != appsim.project(r["trace"]):
            ctx.diverge("m-app", sc, appsim.project(m_app), r["trace"])
        real_ka = f"pings={','.join(map(str, pings))};report={'N' if rep is None else rep}"
        if m_ka != real_ka:
            ctx.diverge("m-keepalive", sc, m_ka, real_ka)
        ctx.traces_vs_impl += 2
        if pls - {(sc.get("payload", "").encode().hex() or "-")}:
            ctx.violate("periodic", "ping-payload", sc, "configured payload", str(pls), size=size)
        if verdict.startswith("bad"):
            ctx.diverge("s-keepalive", sc, verdict, real_ka)
        elif verdict != "ok":
            for v in verdict.split(" "):
                clause, cause = v.split(":", 1)
                if clause == "detect":
                    # F12 lives in to < iv <= 2*to (C16_detect_partial proves iv > 2*to); the regime is part of the signature
                    cause += "@iv<=2to" if sc["iv"] <= 2 * sc["to"] else "@iv>2to"
                    cause += "@with-data-traffic" if any(e[2] not in ("q",) for run in sc["runs"] for c_ in run if len(c_) > 1 for e in c_[1]) else "@no-data-traffic"
                ctx.violate(clause, cause, sc, "Spec.Keepalive clause holds",
                            f"{v}: pings={pings} pongs={pongs_of(sc)} report={rep} (iv={sc['iv']}, to={sc['to']})", size=size)
        # pings stop when the connection is reported dead
        if rep is not None and any(p > rep for p in pings):
            ctx.violate("periodic", "ping-after-stop", sc, "no ping after the connection ended", str(pings), size=size)


def check_lines():
    """line numbers of the statements of `check()` (nested in run_forever) inside its `if self.ping_timeout:` — read from
    the working tree's AST, so that an edit of the file moves them along."""
    import ast
    import os
    src = open(os.path.join(common.REPO, "websocket", "_app.py")).read()
    tree = ast.parse(src)
    for node in ast.walk(tree):
        if isinstance(node, ast.FunctionDef) and node.name == "run_forever":
            out = []
            for fn in ast.walk(node):
                # check(): every statement; read(): the statements that handle a pong (the other writer of the two stamps)
                if isinstance(fn, ast.FunctionDef) and fn.name == "check":
                    for st in ast.walk(fn):
                        if isinstance(st, (ast.Assign, ast.If, ast.Raise, ast.Return)):
                            out.append(st.lineno)
                if isinstance(fn, ast.FunctionDef) and fn.name == "read":
                    for st in ast.walk(fn):
                        if isinstance(st, ast.If) and "last_pong_tm" in ast.unparse(st.test):
                            out.extend(x.lineno for x in ast.walk(st) if isinstance(x, ast.stmt))
            return sorted(set(out))
    return []


def run_check_race(ctx):
    """all interleavings of the ping thread with the reading loop — INSIDE `check()`: a frame arrives at the very tick at
    which the ping thread's wait expires, the loop thread goes first, and is preempted when it reaches one of the lines of
    `check()`; the ping thread (stamp + ping) runs in between.  The peer answers every ping after 1 tick: no report allowed.
    Real runs + Spec.Keepalive only (the Lean model's threads are atomic between blocking points)."""
    lines = check_lines()
    scs = []
    pairs = [(2 * TPS, TPS), (3 * TPS, 2 * TPS), (5 * TPS, 2 * TPS), (1500, 777)]
    occs = range(0, 14) if not ctx.thorough() else range(0, 30)
    for iv, to in pairs:
        for at in (3 * iv, 4 * iv):
            for ln in lines:
                for occ in occs:
                    sc = ka_scenario(iv, to, [1, 1, 1, 1], data=[at], sched="")
                    sc["preempt_line"] = ["_app.py", ln, occ]
                    sc["kind"] = "ka-check-race"
                    sc["tag"] += f":preempt=_app.py:{ln}#{occ}:data@{at}"
                    scs.append(sc)
    real = appcheck.run_real_many(scs)
    dl = []
    obs = []
    for sc, r in zip(scs, real):
        pings, pls, rep = observe(r["trace"])
        obs.append((pings, rep))
        dl.append(f"s-keepalive {sc['iv']} {sc['to']} {sc['horizon']} {','.join(map(str, pings)) or '-'} "
                  f"{','.join(map(str, pongs_of(sc))) or '-'} {'N' if rep is None else rep}")
    out = common.run_driver_parallel(dl)
    for sc, r, (pings, rep), verdict in zip(scs, real, obs, out):
        if r["abort"] == "skipped":
            continue
        fired = r.get("fired_at") is not None
        ctx.case(key=sc["tag"], nontrivial=fired and bool(pings), cls=f"ka-check-race:{'fired' if fired else 'not-reached'}")
        size = appcheck.size_of(sc)
        if r["abort"] in ("wall-clock", "steps") or r["outcome"][0] == "harness-error":
            ctx.violate("terminates", "stuck-" + str(r["abort"]), sc, "run finishes or is cut", str(r["outcome"]), size=size)
        if verdict.startswith("bad"):
            ctx.diverge("s-keepalive", sc, verdict, str((pings, rep)))
        elif verdict != "ok":
            for v in verdict.split(" "):
                clause, cause = v.split(":", 1)
                ctx.violate(clause, cause + "@ping-thread-inside-check", sc, "Spec.Keepalive clause holds",
                            f"{v}: pings={pings} pongs={pongs_of(sc)} report={rep} (iv={sc['iv']}, to={sc['to']}); "
                            f"loop thread preempted at {r.get('fired_at')}", size=size)


def run_args(ctx):
    """the validation of (ping_interval, ping_timeout): refused pairs raise before any dial."""
    ivs = [-TPS, -1, 0, 1, TPS, 2 * TPS, 3 * TPS, 4 * TPS, 5 * TPS, 6 * TPS, TPS + TPS // 2]
    tos = [None, -TPS, -1, 0, 1, TPS, 2 * TPS, 3 * TPS, 4 * TPS, 5 * TPS, TPS // 2]
    scs = []
    for iv in ivs:
        for to in tos:
            scs.append({"cbs": appsim.ALL, "iv": iv, "to": to, "runs": [[["E", [[700, 0, "t", "6f6b"], [100, 0, "c", "03e8"]]]]],
                        "horizon": 30 * TPS, "kind": "args", "tag": f"args:iv={iv}:to={to}"})
    real = appcheck.run_real_many(scs)
    lines = [appsim.model_line(sc) for sc in scs]
    lines += [f"s-keepalive-args {sc['iv']} {'N' if sc['to'] is None else sc['to']}" for sc in scs]
    lines += [f"m-app-args {sc['iv']} {'N' if sc['to'] is None else sc['to']}" for sc in scs]
    out = common.run_driver(lines)
    n = len(scs)
    for i, (sc, r) in enumerate(zip(scs, real)):
        m, spec, margs = out[i], out[n + i], out[2 * n + i]
        tr = r["trace"]
        refused = tr.endswith("raised:WSGENERIC") and ":dial:" not in tr
        accepted = ":dial:" in tr
        ctx.case(key=sc["tag"], nontrivial=True, cls="args:" + ("accepted" if accepted else "refused"),
                 sample={"scenario": {"iv": sc["iv"], "to": sc["to"]}, "real": tr[:120]} if len(ctx.samples) < 3 else None)
        if appsim.project(m) != appsim.project(tr):
            ctx.diverge("m-app", sc, appsim.project(m), tr)
        if margs != ("1" if accepted else "0"):
            ctx.diverge("m-app-args", sc, margs, tr[:200])
        ctx.traces_vs_impl += 1
        want = spec == "1"
        if want and not accepted:
            ctx.violate("args", "consistent-pair-refused", sc, "accepted", tr[:200], size=2)
        if not want and not refused:
            ctx.violate("args", "inconsistent-pair-accepted" if accepted else "inconsistent-pair-not-refused-cleanly",
                        sc, "refused with WebSocketException before connecting", tr[:200], size=2)


def scenarios(ctx):
    rnd = ctx.rng("c16")
    scs = []
    pairs = [(iv * TPS, to * TPS) for iv in range(1, 7) for to in range(1, 6) if iv > to]
    npat = 3
    for iv, to in pairs:
        L = [1, to - 1, to, to + 1, INF]
        for lats in itertools.product(L, repeat=npat):
            scheds = ["", "1", "01", "10", "11", "101", "011"] if (ctx.thorough() or (iv, to) in ((3 * TPS, 2 * TPS), (2 * TPS, TPS))) else ["", "1", "01"]
            for sched in scheds:
                scs.append(ka_scenario(iv, to, list(lats), sched=sched))
        # data traffic at the critical instants, both tie orders
        crit = sorted({2 * iv, 2 * iv + 1, 2 * iv - 1, 2 * iv + to, 2 * iv + to + 1, 3 * iv, 3 * iv + to, iv, to, 2 * to, iv + to})
        for lats in ([1, 1], [to, to], [INF, INF], [1, INF], [to, 1]):
            for k in range(3):
                data = sorted(rnd.sample(crit, 3)) if k else crit[:4]
                for sched in ("", "1", "0101", "1010", "1111"):
                    scs.append(ka_scenario(iv, to, lats, data=data, sched=sched))
        # a responsive peer that also sends an unsolicited pong later than `to` after an answered ping
        for d in (to + 1, to + 10, iv - 1):
            if d < iv:
                scs.append(ka_scenario(iv, to, [1, 1], extra_pongs=[2 * iv + d]))
                scs.append(ka_scenario(iv, to, [to, 1, 1], extra_pongs=[3 * iv + d], sched="1"))
        # a pong in the very tick of its ping (coarse clock, fast peer: both stamps EQUAL), then silence: still detected
        for lats in ([0, INF], [0, 0, INF], [0, 1, INF], [1, 0, INF]):
            scs.append(ka_scenario(iv, to, lats, sched="1111", tail_responsive=False))
        scs.append(ka_scenario(iv, to, [0, 0, 0], sched="1111"))
        # silent from the first ping on; from the second ping on; with a data frame just before the pings
        for lats in ([INF], [1, INF], [INF, INF, INF]):
            for data in ((), (to - 200,), (2 * iv - 200,), (iv + 1, 2 * iv + 1)):
                scs.append(ka_scenario(iv, to, lats, data=[d for d in data if d > 0], tail_responsive=False))
    # TLS-style transport: the pong shares a record with a data frame that precedes it (it is left in the SSL
    # object's buffer after the data frame was read), then silence until the next ping
    for iv, to in ((2 * TPS, TPS), (3 * TPS, 2 * TPS), (5 * TPS, 2 * TPS), (6 * TPS, TPS)):
        for lats in ([1, 1, 1], [to - 1, to - 1, to - 1], [1, to - 1, 1], [to // 2, INF]):
            for co in (False, True):
                for sched in ("", "1", "01"):
                    scs.append(ka_scenario(iv, to, lats, sched=sched, ssl=True, coalesce=co,
                                           tail_responsive=lats[-1] is not INF))
    # every pong comes back LATER than the timeout but before the next ping (iv > 2*to, fractional pairs so that no
    # select wake-up falls between ping + to and the pong): the first late pong is an unanswered ping
    for iv, to in ((4813, 2048), (5325, 2048), (819, 307), (10240, 3072)):
        late = to + to * 15 // 100
        for lats in ([late, late, late], [1, late, late], [late, 1, 1]):
            for sched in ("", "1", "01"):
                scs.append(ka_scenario(iv, to, lats, sched=sched))
    # fractional settings, random mixtures
    n = 400 if ctx.thorough() else 100
    for _ in range(n):
        to = rnd.choice([300, 777, TPS, 1500, 2 * TPS])
        iv = to + rnd.choice([1, 2, 100, to // 2, to, to + 1, 2 * to])
        lats = [rnd.choice([1, 2, to // 2, to - 1, to, to + 1, INF]) for _ in range(rnd.randint(1, 4))]
        data = sorted(rnd.randrange(1, 6 * iv) for _ in range(rnd.randint(0, 5)))
        extra = [rnd.randrange(1, 5 * iv) for _ in range(rnd.randint(0, 2))] if rnd.random() < 0.3 else []
        scs.append(ka_scenario(iv, to, lats, data=data, extra_pongs=extra,
                               sched="".join(rnd.choice("01") for _ in range(8)), payload=rnd.choice(["", "ka", "ping-payload", "caf\u00e9", "ping-\u2713", "\u65e5\u672c"])))
    # a non-ASCII ping_payload: sent as its UTF-8 bytes, every interval, and answered pings are not reported
    for iv, to in ((3 * TPS, TPS), (5 * TPS, 2 * TPS)):
        for payload in ("caf\u00e9", "ping-\u2713", "\u65e5\u672c\u8a9e"):
            scs.append(ka_scenario(iv, to, [1, 1, 1], payload=payload))
            scs.append(ka_scenario(iv, to, [1, INF], payload=payload, tail_responsive=False))
    return scs


def lifecycle(ctx):
    """pings stop when the connection ends, restart relative to the new connection after a reconnect (C + Spec via C14/C15 clauses)."""
    scs = []
    for end in ("e", "c", "r", "x"):
        for iv in (100, 250):
            evs = [[90, 0, "t", "61"], [iv * 3, 0, "q", ""], [iv * 2 + 5, 0, end, "03e8" if end == "c" else ""]]
            for sched in ("", "1", "11"):
                scs.append({"cbs": appsim.ALL, "iv": iv, "to": None, "payload": "x", "runs": [[["E", evs]]], "sched": sched,
                            "horizon": 20 * TPS, "kind": "lifecycle", "tag": f"end={end}:iv={iv}"})
                scs.append({"cbs": appsim.ALL, "iv": iv, "to": None, "payload": "x", "rc": 300, "sched": sched,
                            "runs": [[["E", evs], ["R"], ["E", evs[:2] + [[40, 0, "c", "03e8"]]]]],
                            "horizon": 20 * TPS, "kind": "lifecycle", "tag": f"reconnect:end={end}:iv={iv}"})

    # the application ends the connection itself (close() in a handler) and the server takes several intervals to answer
    # the close frame, or never does: nothing is pinged once the client's close frame is out
    for iv in (100, 250):
        for reply in ([[iv * 6, 0, "c", "03e8"]], []):
            for sched in ("", "1", "01"):
                evs = [[90, 0, "t", "61"], [iv * 3, 0, "t", "62"]] + reply
                scs.append({"cbs": appsim.ALL, "iv": iv, "to": None, "payload": "x", "runs": [[["E", evs]]], "sched": sched,
                            "plan": {"on_message": "oc"}, "horizon": 20 * TPS, "kind": "lifecycle",
                            "tag": f"own-close:reply={'late' if reply else 'never'}:iv={iv}"})

    def extra(ctx, sc, r):
        # per ping thread: pings at start + k*iv (k >= 2), none after its stop, none missing while it lives
        start, alive, up = None, False, False
        seen = set()
        own_close = None
        for it in r["trace"].split(";"):
            t, _, rest = it.partition(":")
            if rest.startswith("wrote:8:") and own_close is None:
                own_close = int(t)
            elif rest.startswith("wrote:9:") and own_close is not None and int(t) > own_close:
                ctx.violate("periodic", "ping-after-the-client's-own-close-frame", sc, "pings stop when the connection ends",
                            f"close frame written at {own_close}, ping at {t}; trace …{r['trace'][-200:]}", size=appcheck.size_of(sc))
                break

        def missing(upto):
            if start is None:
                return
            k = 2
            while start + k * sc["iv"] < upto:
                if start + k * sc["iv"] not in seen:
                    ctx.violate("periodic", "ping-missing", sc, "a ping every interval for as long as the connection is up",
                                f"no ping at {start + k * sc['iv']} (thread started {start}, connection up until {upto})",
                                size=appcheck.size_of(sc))
                    return
                k += 1
        for it in r["trace"].split(";"):
            t, _, rest = it.partition(":")
            t = int(t)
            if rest == "pingStart":
                start, alive, up = t, True, True
                seen = set()
            elif rest == "pingStop":
                alive = False
            elif rest.startswith(("sockClosed:", "sockDropped:", "ret:", "cb:on_error", "cb:on_close", "raised:", "wrote:8:")) and up:
                missing(t)          # the CONNECTION ends here: every ping due before must have been sent
                up = False
            elif rest.startswith("wrote:9:"):
                if alive:
                    seen.add(t)
                ok = alive and start is not None and (t - start) % sc["iv"] == 0 and (t - start) // sc["iv"] >= 2
                if not ok:
                    ctx.violate("periodic", "ping-off-grid-or-after-stop", sc, "pings at start + k*iv (k>=2) while the thread lives",
                                f"ping at {t}, thread start {start}, alive {alive}", size=appcheck.size_of(sc))
                if rest.split(":")[2] != sc["payload"].encode().hex():
                    ctx.violate("periodic", "ping-payload", sc, "configured payload", rest, size=appcheck.size_of(sc))
        for i, al in enumerate(r["alive"]):
            if al:
                ctx.violate("periodic", "ping-thread-alive-after-end", sc, "pings stop when the connection ends",
                            f"run {i}: alive={al}", size=appcheck.size_of(sc))
    appcheck.evaluate(ctx, "C16", scs, cls_of=lambda sc: "lifecycle", extra_check=extra)


def run_rerun_settings(ctx):
    """one object, several run_forever calls with DIFFERENT keepalive settings: in a run that sends no ping (no interval) no
    ping/pong timeout can be reported, whatever an earlier run left unanswered; a later run is a first run with its settings."""
    from props import c14

    def extra(ctx_, sc, r):
        segs = c14._run_segments(r["trace"])
        for k, (iv, to) in enumerate(sc["kopts"]):
            if iv == 0 and k < len(segs) and any(e.startswith("cb:on_error") and "TIMEOUT" in e for e in segs[k]):
                ctx_.violate("no-false-positive", "never-pinged-peer-reported@rerun-with-other-settings", sc,
                             "no ping/pong timeout in a run without ping_interval", str(segs[k])[:300], size=appcheck.size_of(sc))
                return
        fresh = dict(sc, runs=[sc["runs"][-1]], kopts=[sc["kopts"][-1]])
        fsegs = c14._run_segments(appcheck.run_real_many([fresh])[0]["trace"])
        k = len(sc["runs"]) - 1
        if len(segs) <= k or not fsegs or segs[k] != fsegs[0]:
            ctx_.violate("no-false-positive", "later-run-differs-from-a-first-run-with-the-same-settings", sc,
                         str(fsegs[0] if fsegs else None)[:300], str(segs[k] if len(segs) > k else None)[:300], size=appcheck.size_of(sc))
    appcheck.evaluate(ctx, "C16/rerun-settings", c14.rerun_settings_scenarios(ctx),
                      cls_of=lambda sc: "rerun-settings:" + sc["tag"].split(":", 1)[1], extra_check=extra)


def run(ctx):
    ctx.rule = ("validation grid 11 x 11 (negative, zero, None, fractional); accepted (iv, to) in {1..6}x{1..5} s with pong "
                "latency patterns {1 tick, to-1, to, to+1, never}^2 (thorough ^3), data frames at critical instants, tie "
                "orders; late unsolicited pongs; silent-from-ping-k; random fractional settings; connection end and "
                "reconnect with keepalive on; the ping thread descheduled right after a ping was written (oracle only); one ping write failing transiently (oracle only) (non-trivial = at least one ping was sent)")
    run_args(ctx)
    for d in appcheck.corpus("C16"):
        if d["input"].get("kind") != "ka-check-race":     # (those: run_check_race below, lines re-derived from the source)
            run_keepalive(ctx, [d["input"]])
    run_keepalive(ctx, scenarios(ctx))
    run_stall(ctx)
    run_external(ctx)
    run_external_reconnect(ctx)
    run_slow_handlers(ctx)
    run_transient_write_failure(ctx)
    run_check_race(ctx)
    lifecycle(ctx)
    run_rerun_settings(ctx)


def search(ctx):
    run(ctx)


def replay(ctx, data):
    if "input" not in data:
        return appcheck.replay_nofail(ctx, data, run)
    sc = data["input"]
    sub = common.Ctx(ctx.prop, "quick", ctx.seed)
    if sc.get("kind") == "ka":
        run_keepalive(sub, [sc])
    elif sc.get("kind") == "ka-check-race":
        run_check_race(sub)
    elif sc.get("kind") == "args":
        run_args(sub)
    elif sc.get("kind") == "rerun-settings":
        run_rerun_settings(sub)
    elif sc.get("kind") == "ka-reconnect":
        run_external_reconnect(sub)
    elif sc.get("kind") == "ka-slow-handler":
        run_slow_handlers(sub)
    else:
        lifecycle(sub)
    for v in sub.violations:
        if v["clause"] == data["clause"] and v["cause"] == data["cause"]:
            ctx.violations.append(v)
            return False
    return True
