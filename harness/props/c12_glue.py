"""C12 (write loop over the transport glue) — `WebSocket.send_binary` on a scripted transport whose every `send` call is one
outcome of the model's alphabet (accepted n — zero and over-long included —, timeout, SSL EOF, want-write, EAGAIN, errno-less
OSError with/without "timed out", other OSError), with `select` ready or not per call: the WHOLE loop against
`Model.SendGlue.sendLoop` (`m-sendloop`).  Worlds: every list of up to 3 `_socket.send` calls over 19 representative
worlds, blocking and non-blocking, plain object and object with a built-in dispatcher; random longer lists.
(O) what the transport accepted is a prefix of the frame; a normal return means exactly the frame and returns its length;
what is raised is TIMEOUT, CLOSED or the transport's own exception."""
import itertools

import common
from props import c17_glue as G

WORLDS = [("a1", 0, "O"), ("a2", 0, "O"), ("a3", 0, "O"), ("a9", 0, "O"), ("a0", 0, "O"), ("T", 0, "O"), ("E", 0, "O"),
          ("N1", 0, "O"), ("N0", 0, "O"), ("O", 0, "O"), ("W", 0, "O"), ("W", 1, "a2"), ("W", 1, "T"), ("A", 0, "O"),
          ("A", 1, "a1"), ("A2", 1, "a9"), ("A", 1, "W"), ("A", 1, "O"), ("W", 1, "E")]


class Cut(BaseException):
    pass


class LoopSock:
    """one world per `_socket.send` call: first outcome, [select], second outcome."""

    def __init__(self, nb, worlds):
        self.t = 0 if nb else 2.5
        self.nb = nb
        self.worlds = list(worlds)
        self.i, self.phase = 0, 0
        self.wire = b""
        self.frame = None
        self.raised = []
        self.calls = 0          # `_socket.send` calls begun

    def gettimeout(self):
        return self.t

    def fileno(self):
        return 7

    def _do(self, tok, data):
        if tok.startswith("a"):
            n = int(tok[1:])
            self.wire += bytes(data[:n])
            return n
        e = G._raise_s(tok)
        self.raised.append((tok, e))
        raise e

    def send(self, data):
        if self.frame is None:
            self.frame = bytes(data)
        if self.phase == 0:
            if self.i >= len(self.worlds):
                raise Cut()
            self.calls += 1
            r1, _, _ = self.worlds[self.i]
            if r1 in ("W", "A", "A2") and not self.nb:
                self.phase = 1
            else:
                self.i += 1
            return self._do(r1, data)
        _, _, r2 = self.worlds[self.i]
        self.i += 1
        self.phase = 0
        return self._do(r2, data)

    def select_ready(self):
        if self.phase != 1:
            return True
        ready = bool(self.worlds[self.i][1])
        if not ready:
            self.i += 1
            self.phase = 0
        return ready


class _Sel:
    def __init__(self, holder):
        self.holder = holder

    def register(self, sock, ev):
        self.sock = sock

    def select(self, timeout=None):
        return [("key", 1)] if self.sock.select_ready() else []

    def close(self):
        pass


def one(nb, worlds, disp):
    import websocket
    from websocket import _exceptions as X
    from websocket import _dispatcher
    sock = LoopSock(nb, worlds)
    ws = websocket.WebSocket()
    ws.sock, ws.connected = sock, True
    ws.set_mask_key(lambda n: b"\x11\x22\x33\x44")
    if disp:
        ws.dispatcher = _dispatcher.Dispatcher(None, 1)
    try:
        r = ws.send_binary(b"\x05")
        o = ("done", r)
    except Cut:
        o = ("cut", None)
    except X.WebSocketTimeoutException:
        o = ("TIMEOUT", None)
    except X.WebSocketConnectionClosedException:
        o = ("CLOSED", None)
    except BaseException as e:  # noqa
        o = ("other:" + common.canon_exc(e), None)
        for tok, obj in sock.raised:
            if obj is e:
                o = ("own:" + G.MODEL_TOKEN.get(tok, tok), None)
    return sock, o


def run_sendloop(ctx):
    from websocket import _socket
    rnd = ctx.rng("sendloop")
    lists = [list(p) for n in (1, 2, 3) for p in itertools.product(WORLDS, repeat=n)]
    if ctx.tier == "quick":
        lists = [l for k, l in enumerate(lists) if len(l) < 3 or k % 3 == ctx.seed % 3]
    for _ in range(600 if ctx.tier == "quick" else 6000):
        lists.append([rnd.choice(WORLDS) for _ in range(rnd.randint(4, 10))])
    old = _socket.selectors.DefaultSelector
    lines, recs = [], []
    try:
        _socket.selectors.DefaultSelector = lambda: _Sel(None)
        for k, wl in enumerate(lists):
            for nb in (0, 1):
                disp = (k % 4 == 1)
                sock, o = one(nb, wl, disp)
                frame = sock.frame or b""
                lines.append(f"m-sendloop {nb} {frame.hex() or '-'} " +
                             " ".join(f"{G.MODEL_TOKEN.get(a, a)},{rd},{G.MODEL_TOKEN.get(b, b)}" for a, rd, b in wl))
                recs.append((nb, wl, disp, sock, o, frame))
    finally:
        _socket.selectors.DefaultSelector = old
    mo = common.run_driver_parallel(lines)
    for line, m, (nb, wl, disp, sock, o, frame) in zip(lines, mo, recs):
        obs = f"{o[0]} wire={sock.wire.hex() or '-'} calls={sock.calls}"
        inp = {"op": "send_binary(b'\\x05') on a scripted transport", "nonblocking": bool(nb), "dispatcher": disp,
               "worlds(first,select_ready,second)": [list(w) for w in wl], "frame": frame.hex()}
        ctx.case(key=("sendloop", nb, disp, tuple(wl)), nontrivial=len(wl) > 1,
                 cls=f"sendloop:nb={nb}:len={min(len(wl), 4)}:{o[0].split(':')[0]}")
        ctx.traces_vs_impl += 1
        if m != obs:
            ctx.diverge("unit:sendloop", dict(inp, op=line[:300]), m, obs)
        # (O)
        if not frame.startswith(sock.wire):
            ctx.violate("one-intact-frame-under-short-writes", "would-block-retry-damages-or-repeats-the-frame", inp,
                        "a prefix of the frame", sock.wire.hex(), size=len(wl))
        if o[0] == "done" and (sock.wire != frame or o[1] != len(frame)):
            ctx.violate("one-intact-frame-under-short-writes", "normal-return-without-the-whole-frame", inp,
                        f"{frame.hex()} / {len(frame)}", f"{sock.wire.hex()} / {o[1]}", size=len(wl))
        if o[0].startswith("other:"):
            ctx.violate("one-intact-frame-under-short-writes", "would-block-retry-raises-" + o[0][6:40], inp,
                        "TIMEOUT, CLOSED or the transport's own exception", o[0], size=len(wl))
