"""C06 — text is delivered only if the whole payload is well-formed UTF-8.

(C) unit op `m-utf8` vs websocket._utils.validate_utf8; (O) `s-utf8` (Spec.wellFormed, Table 3-7)
on the same strings, CPython's strict decoder as a third voice; end-to-end text messages and
close reasons through WebSocket.recv()/recv_data() on a SimSocket under fragmentation.
"""
import itertools

import common
from common import hexarg
import session
import simnet

BOUNDARY = [0x00, 0x7F, 0x80, 0x8F, 0x90, 0x9F, 0xA0, 0xBF, 0xC0, 0xC1, 0xC2, 0xDF, 0xE0, 0xE1,
            0xEC, 0xED, 0xEE, 0xEF, 0xF0, 0xF1, 0xF3, 0xF4, 0xF5, 0xFF]

WELL = [b"", b"a", b"\xc2\x80", b"\xdf\xbf", b"\xe0\xa0\x80", b"\xe1\x80\x80", b"\xec\xbf\xbf",
        b"\xed\x80\x80", b"\xed\x9f\xbf", b"\xee\x80\x80", b"\xef\xbf\xbf", b"\xf0\x90\x80\x80",
        b"\xf1\x80\x80\x80", b"\xf3\xbf\xbf\xbf", b"\xf4\x80\x80\x80", b"\xf4\x8f\xbf\xbf",
        "κόσμε".encode(), "😀".encode(), "a😀b".encode()]


def cpython_ok(bs):
    try:
        bytes(bs).decode("utf-8")
        return True
    except UnicodeDecodeError:
        return False


def is_proper_prefix_of_wf(bs):
    """some continuation makes it well-formed, but it is not well-formed itself."""
    if cpython_ok(bs):
        return False
    for tail in (b"\x80", b"\x80\x80", b"\x80\x80\x80", b"\xa0\x80", b"\x90\x80\x80", b"\xbf",
                 b"\xbf\xbf", b"\xbf\xbf\xbf", b"\x8f\xbf\xbf", b"\x9f\xbf"):
        if cpython_ok(bytes(bs) + tail):
            return True
    return False


def unit_cases(ctx):
    rnd = ctx.rng("unit")
    cases = []
    # all strings of length <= 2
    cases.append(b"")
    cases += [bytes([a]) for a in range(256)]
    cases += [bytes([a, b]) for a in range(256) for b in range(256)]
    # boundary products of length 3 and 4
    for t in itertools.product(BOUNDARY, repeat=3):
        cases.append(bytes(t))
    lead4 = [0xF0, 0xF1, 0xF3, 0xF4, 0xF5, 0xEF, 0xC2, 0x7F]
    for l in lead4:
        for t in itertools.product(BOUNDARY, repeat=3):
            cases.append(bytes((l,) + t))
    # every proper prefix of every well-formed sample, alone and after valid text
    for w in WELL:
        for k in range(len(w) + 1):
            cases.append(w[:k])
            cases.append(b"ok" + w[:k])
            cases.append(w + w[:k])
    # random mixes of well-formed pieces and junk
    n = 20000 if ctx.thorough() else 3000
    for _ in range(n):
        parts = []
        for _ in range(rnd.randint(1, 6)):
            r = rnd.random()
            if r < 0.6:
                parts.append(rnd.choice(WELL))
            elif r < 0.8:
                parts.append(bytes([rnd.choice(BOUNDARY)]))
            else:
                parts.append(bytes(rnd.randrange(256) for _ in range(rnd.randint(1, 3))))
        cases.append(b"".join(parts))
    if ctx.thorough():
        for t in itertools.product(range(0x80, 0x100, 1), BOUNDARY, BOUNDARY):
            cases.append(bytes(t))
    cases += long_cases(ctx)
    return cases


def long_cases(ctx):
    """"all byte strings" includes long ones: code points straddling, and sequences cut short exactly at, the offsets an
    implementation might process in blocks (powers of two from 4 KiB to 128 KiB, and 16384 = the transport read size)."""
    out = []
    for B in ((4096, 16384, 65536, 131072) if ctx.thorough() else (16384, 65536, 131072)):
        for w in ("\u00e9".encode(), "\u20ac".encode(), "\U0001f600".encode()):
            for k in range(1, len(w)):
                out.append(b"a" * (B - k) + w + b"tail")                       # well-formed, straddles offset B
                out.append(b"a" * (B - k) + w[:k] + b"plain ascii tail")       # cut short exactly at B, ASCII follows
                out.append(b"a" * (B - k) + w[:k] + w)                         # cut short at B, a well-formed one follows
    return out


def classify(bs, ok):
    if ok:
        return "wf-empty" if not bs else ("wf-ascii" if max(bs) < 0x80 else "wf-multibyte")
    return "ill-truncated" if is_proper_prefix_of_wf(bs) else "ill-formed"


def run_unit(ctx):
    from websocket._utils import validate_utf8
    cases = unit_cases(ctx)
    lines_m = ["m-utf8 " + hexarg(c) for c in cases]
    lines_s = ["s-utf8 " + hexarg(c) for c in cases]
    out = common.run_driver_parallel(lines_m + lines_s)
    mo, so = out[:len(cases)], out[len(cases):]
    for c, m, s in zip(cases, mo, so):
        try:
            impl = "1" if validate_utf8(c) else "0"
        except Exception as e:  # noqa
            impl = common.canon_exc(e)
        cp = "1" if cpython_ok(c) else "0"
        cls = classify(c, cp == "1")
        ctx.case(key=("u", c), nontrivial=(len(c) > 0 and max(c) >= 0x80), cls="unit:" + cls,
                 sample={"op": "utf8", "bytes": c.hex(), "impl": impl, "model": m, "spec": s}
                 if len(c) in (3, 4) and len(ctx.samples) < 4 else None)
        if s != cp:
            ctx.diverge("spec-vs-cpython", c.hex(), s, cp)
        if m != impl:
            ctx.diverge("unit:utf8", c.hex(), m, impl)
        if impl != s:
            if impl == "1":
                cause = "accepts-truncated-sequence" if cls == "ill-truncated" else "accepts-ill-formed"
            elif impl == "0":
                cause = "rejects-well-formed"
            else:
                cause = "raises-" + impl
            ctx.violate("validator-iff-wellformed", cause, {"op": "utf8", "bytes": c.hex()},
                        "validate_utf8 = " + s, "validate_utf8 = " + impl, size=len(c))
    ctx.traces_vs_impl += len(cases)


def fragmentations(payload, rnd, maxcuts=3, limit=12):
    """cut positions sets (<= maxcuts cuts), exhaustive when small."""
    n = len(payload)
    pos = list(range(0, n + 1))
    allc = [()]
    for k in range(1, maxcuts + 1):
        allc += list(itertools.combinations_with_replacement(pos, k))
    if len(allc) > limit:
        allc = [()] + rnd.sample(allc[1:], limit - 1)
    for cuts in allc:
        pts = [0] + list(cuts) + [n]
        yield [payload[a:b] for a, b in zip(pts, pts[1:])]


def run_e2e(ctx):
    """text messages / close reasons through the real receive API."""
    rnd = ctx.rng("e2e")
    payloads = list(WELL)
    for w in WELL:
        for k in range(1, len(w)):
            payloads.append(b"x" + w[:k])
            payloads.append(w[:k])
    payloads += [b"\xc0\x80", b"\xed\xa0\x80", b"\xf4\x90\x80\x80", b"\xff", b"a\x80b", b"\xe0\x9f\xbf",
                 b"\xf0\x8f\xbf\xbf", b"\xf5\x80\x80\x80", "é".encode() * 40]
    payloads = list(dict.fromkeys(payloads))
    lines = ["s-utf8 " + hexarg(p) for p in payloads]
    spec = dict(zip(payloads, common.run_driver(lines)))
    import websocket
    for p in payloads:
        wf = spec[p] == "1"
        for skip in (False, True):
            for frs in fragmentations(p, rnd, maxcuts=3, limit=(40 if ctx.thorough() else 8)):
                stream = b""
                for i, fr in enumerate(frs):
                    op = 1 if i == 0 else 0
                    stream += simnet.srv_frame(op, fr, fin=1 if i == len(frs) - 1 else 0)
                for api in ("recv", "recv_data", "recv_data+trace", "recv_data+factory", "iter"):
                    if api == "recv_data+trace" and len(frs) < 2:
                        continue
                    # (fourth variant: the object comes from create_connection(); validation that is not switched off is
                    #  LEFT OUT of the call — whether the text is judged must not depend on how the object was made)
                    mk = simnet.make_ws_factory if api.endswith("+factory") else simnet.make_ws
                    ws, sock = mk([("chunk", stream)], skip_utf8_validation=skip, mask_key=b"abcd")
                    try:
                        # (tracing on for the third variant: the trace lines render every FRAME, the judgement is on the MESSAGE)
                        with session.tracing(api.endswith("+trace")):
                            r = next(iter(ws)) if api == "iter" else getattr(ws, api.split("+")[0])()
                        if api in ("recv", "iter"):
                            obs = ("ret", r.encode("utf-8", "surrogatepass") if isinstance(r, str) else bytes(r))
                        else:
                            obs = ("ret", bytes(r[1]), r[0])
                    except Exception as e:  # noqa
                        obs = ("exn", common.canon_exc(e))
                    key = ("e", p, skip, len(frs), api)
                    ctx.case(key=key, nontrivial=len(frs) > 1 or not wf, cls=f"e2e:{api}:skip={int(skip)}:wf={int(wf)}:frags={min(len(frs), 4)}",
                             sample={"op": "text-message", "payload": p.hex(), "fragments": [f.hex() for f in frs],
                                     "skip_utf8_validation": skip, "api": api, "observed": [str(x) if not isinstance(x, bytes) else x.hex() for x in obs]}
                             if len(ctx.samples) < 8 and len(frs) == 3 else None)
                    inp = {"op": "text-message", "payload": p.hex(), "fragments": [f.hex() for f in frs],
                           "skip": skip, "api": api}
                    if not skip:
                        if wf:
                            if obs[0] != "ret" or obs[1] != p:
                                ctx.violate("text-delivered-iff-wellformed", "well-formed-not-delivered", inp,
                                            "returns the payload", str(obs), size=len(p) + len(frs))
                        else:
                            if obs[0] == "ret":
                                ctx.violate("text-delivered-iff-wellformed", "ill-formed-delivered", inp,
                                            "raises PAYLOAD or PROTO", str(obs), size=len(p) + len(frs))
                            elif obs[1] not in ("PAYLOAD", "PROTO"):
                                cause = "truncated-sequence-internal-error" if is_proper_prefix_of_wf(p) else "internal-error"
                                ctx.violate("text-delivered-iff-wellformed", cause, inp,
                                            "raises PAYLOAD or PROTO", str(obs), size=len(p) + len(frs))
                    else:
                        if api.startswith("recv_data") and (obs[0] != "ret" or obs[1] != p or obs[2] != 1):
                            ctx.violate("skip-passthrough", "bytes-changed", inp, "returns (1, payload)", str(obs),
                                        size=len(p) + len(frs))
                        # the str-returning call cannot pass ill-formed bytes through: it returns the text when there is one and
                        # raises the documented payload exception otherwise (C17_recv_no_internal)
                        if api in ("recv", "iter") and wf and (obs[0] != "ret" or obs[1] != p):
                            ctx.violate("skip-passthrough", "well-formed-not-delivered", inp, "returns the text", str(obs),
                                        size=len(p) + len(frs))
                        if api in ("recv", "iter") and not wf and obs != ("exn", "PAYLOAD"):
                            ctx.violate("skip-passthrough", "recv-undecodable-not-payload-exception", inp, "raises PAYLOAD", str(obs),
                                        size=len(p) + len(frs))
        # the judgement does not depend on what the object went through before: a receive that timed out, or one that raised
        # for another message, leaves validation as it was configured
        if not wf:
            for first_api in ("recv", "recv_data"):
                for later_api in ("recv_data", "recv_data_frame", "recv"):
                    ws, sock = simnet.make_ws([("timeout",), ("chunk", simnet.srv_frame(1, b"\xff")), ("timeout",),
                                               ("chunk", simnet.srv_frame(1, p))], mask_key=b"abcd")
                    sock.timeout = 0.5
                    hist = []
                    for api in (first_api, first_api, first_api, later_api):
                        try:
                            r = getattr(ws, api)()
                            hist.append("ret")
                        except Exception as e:  # noqa
                            hist.append(common.canon_exc(e))
                    ctx.case(key=("after-exceptions", p, first_api, later_api), nontrivial=True, cls=f"e2e:after-timeout-and-rejection:{first_api}:{later_api}")
                    if hist[:3] != ["TIMEOUT", "PAYLOAD", "TIMEOUT"] or hist[3] not in ("PAYLOAD", "PROTO"):
                        ctx.violate("text-delivered-iff-wellformed", "ill-formed-delivered-after-earlier-exceptions", 
                                    {"op": f"{first_api}() x3 (time-out, rejected text FF, time-out), then {later_api}() on the ill-formed text",
                                     "payload": p.hex()}, ["TIMEOUT", "PAYLOAD", "TIMEOUT", "PAYLOAD"], hist, size=len(p) + 4)
        # the judgement is on THIS connection's message: another connection of the same process receives a text message
        # (complete, or the start of one) between two fragments of this one
        if len(p) >= 2:
            for cut in sorted({1, len(p) // 2, len(p) - 1}):
                for other in (simnet.srv_frame(1, b"ok"), simnet.srv_frame(1, b"\xe2\x82", fin=0), simnet.srv_frame(1, b"x", fin=0)):
                    a, asock = simnet.make_ws([("chunk", simnet.srv_frame(1, p[:cut], fin=0)), ("timeout",),
                                               ("chunk", simnet.srv_frame(0, p[cut:]))], mask_key=b"abcd")
                    asock.timeout = 0.5
                    b, bsock = simnet.make_ws([("chunk", other)], tail="timeout", mask_key=b"abcd")
                    bsock.timeout = 0.5
                    hist = []
                    for obj in (a, b, a):
                        try:
                            r = obj.recv_data()
                            hist.append(("ret", r[0], bytes(r[1]).hex()))
                        except Exception as e:  # noqa
                            hist.append(common.canon_exc(e))
                    ctx.case(key=("two-connections", p, cut, other), nontrivial=True, cls=f"e2e:two-connections-interleaved:wf={int(wf)}")
                    want_b = ("ret", 1, b"ok".hex()) if other == simnet.srv_frame(1, b"ok") else "TIMEOUT"
                    ok_a = (hist[2] == ("ret", 1, p.hex())) if wf else (hist[2] in ("PAYLOAD", "PROTO"))
                    if hist[0] != "TIMEOUT" or hist[1] != want_b or not ok_a:
                        ctx.violate("text-delivered-iff-wellformed",
                                    ("well-formed-not-delivered" if wf else "ill-formed-delivered") + "-when-another-connection-receives-in-between",
                                    {"op": "A: first fragment, time-out; B: a text frame; A: the final fragment", "payload": p.hex(), "cut": cut,
                                     "other_connection_receives": other.hex()},
                                    ["TIMEOUT", want_b, ("ret", 1, p.hex()) if wf else "PAYLOAD"], hist, size=len(p) + 3)
        # "nothing is delivered": after a rejected message the NEXT message is judged and delivered on its own
        if not wf:
            nxt = "n\u00e4chste".encode()
            for frs in list(fragmentations(p, rnd, maxcuts=2, limit=3)):
                stream = b""
                for i, fr in enumerate(frs):
                    stream += simnet.srv_frame(1 if i == 0 else 0, fr, fin=1 if i == len(frs) - 1 else 0)
                stream += simnet.srv_frame(1, nxt[:3], fin=0) + simnet.srv_frame(0, nxt[3:]) + simnet.srv_frame(2, b"\x00\xff")
                ws, sock = simnet.make_ws([("chunk", stream)], mask_key=b"abcd")
                obs = []
                for _ in range(3):
                    try:
                        r = ws.recv_data()
                        obs.append((r[0], bytes(r[1])))
                    except Exception as e:  # noqa
                        obs.append(common.canon_exc(e))
                ctx.case(key=("after-reject", p, len(frs)), nontrivial=True, cls=f"e2e:after-rejected-message:frags={min(len(frs), 4)}")
                inp = {"op": "ill-formed text, then a text and a binary message", "payload": p.hex(), "fragments": [f.hex() for f in frs]}
                if obs[0] not in ("PAYLOAD", "PROTO") or obs[1:] != [(1, nxt), (2, b"\x00\xff")]:
                    ctx.violate("text-delivered-iff-wellformed", "rejected-message-leaks-into-the-next", inp,
                                f"PAYLOAD, then (1, {nxt!r}), (2, b'\\x00\\xff')", str(obs), size=len(p) + len(frs))
        # close reason, under every class of status code that may appear on the wire
        for skip, code in itertools.product((False, True), (1000, 1001, 1011, 3000, 3999, 4000, 4999)):
            body = code.to_bytes(2, "big") + p
            if len(body) > 125:
                continue
            # (per-fragment delivery switched on for every other status code: it says how DATA frames are handed over, not
            #  whether a close reason is judged)
            fire = code in (1001, 3000, 4000)
            ws, sock = simnet.make_ws([("chunk", simnet.srv_frame(8, body))], skip_utf8_validation=skip, fire_cont_frame=fire, mask_key=b"abcd")
            try:
                r = ws.recv_data_frame(True)
                obs = ("ret", r[0])
            except Exception as e:  # noqa
                obs = ("exn", common.canon_exc(e))
            ctx.case(key=("c", p, skip, code), nontrivial=True,
                     cls=f"e2e:close-reason:skip={int(skip)}:wf={int(wf)}:code={'1xxx' if code < 3000 else '3xxx-4xxx'}")
            inp = {"op": "close-reason", "reason": p.hex(), "skip": skip, "code": code}
            if skip and obs != ("ret", 8):
                ctx.violate("skip-passthrough", "close-reason-judged-although-validation-off", inp, "close frame accepted", str(obs), size=len(p))
            if not skip and wf and obs != ("ret", 8):
                ctx.violate("close-reason-iff-wellformed", "well-formed-rejected", inp, "close frame accepted", str(obs), size=len(p))
            if not skip and not wf and obs[0] == "ret":
                ctx.violate("close-reason-iff-wellformed",
                            "truncated-reason-accepted" if is_proper_prefix_of_wf(p) else "ill-formed-reason-accepted",
                            inp, "raises PROTO", str(obs), size=len(p))
            if not skip and not wf and obs[0] == "exn" and obs[1] not in ("PROTO", "PAYLOAD"):
                ctx.violate("close-reason-iff-wellformed", "internal-error", inp, "raises PROTO", str(obs), size=len(p))


def run_e2e_long(ctx):
    """long text messages through the receive API: one frame, two fragments of ~B/2+ bytes, a cut exactly at the block offset."""
    rnd = ctx.rng("e2e-long")
    cases = long_cases(ctx)
    if not ctx.thorough():
        cases = rnd.sample(cases, 12)
    spec = dict(zip(cases, common.run_driver_parallel(["s-utf8 " + hexarg(p) for p in cases])))
    for p in cases:
        wf = spec[p] == "1"
        n = len(p)
        B = max(b for b in (4096, 16384, 65536, 131072) if b <= n)
        for frs in ([p], [p[:n * 5 // 8], p[n * 5 // 8:]], [p[:B], p[B:]], [p[:B - 1], p[B - 1:B + 1], p[B + 1:]]):
            stream = b"".join(simnet.srv_frame(1 if i == 0 else 0, fr, fin=1 if i == len(frs) - 1 else 0) for i, fr in enumerate(frs))
            ws, sock = simnet.make_ws([("chunk", stream)], mask_key=b"abcd")
            try:
                r = ws.recv_data()
                obs = ("ret", bytes(r[1]), r[0])
            except Exception as e:  # noqa
                obs = ("exn", common.canon_exc(e))
            ctx.case(key=("L", n, p[B - 4:B + 6], len(frs)), nontrivial=True, cls=f"e2e-long:B={B}:wf={int(wf)}:frags={len(frs)}")
            inp = {"op": "long-text-message", "length": n, "around_block_offset": p[B - 4:B + 6].hex(), "block_offset": B,
                   "fragments": [len(f) for f in frs]}
            if wf and (obs[0] != "ret" or obs[1] != p):
                ctx.violate("text-delivered-iff-wellformed", "well-formed-not-delivered", inp, "returns the payload", str(obs)[:200], size=n)
            if not wf and obs[0] == "ret":
                ctx.violate("text-delivered-iff-wellformed", "ill-formed-delivered", inp, "raises PAYLOAD or PROTO", str(obs)[:200], size=n)
            if not wf and obs[0] == "exn" and obs[1] not in ("PAYLOAD", "PROTO"):
                ctx.violate("text-delivered-iff-wellformed", "internal-error", inp, "raises PAYLOAD or PROTO", str(obs)[:200], size=n)


def run(ctx):
    ctx.rule = ("unit: every byte string of length <= 2, boundary-byte products of length 3-4, every prefix of "
                "well-formed samples, random mixes (non-trivial = contains a byte >= 0x80); e2e: text payloads x "
                "fragmentations (<= 3 cuts) x validation on/off x recv/recv_data, close reasons "
                "(non-trivial = fragmented or ill-formed); long strings (4 KiB..128 KiB) with a code point straddling / cut short at "
                "block offsets, unit and through recv_data in 1-3 fragments")
    run_unit(ctx)
    run_e2e(ctx)
    run_e2e_long(ctx)


def search(ctx):
    run(ctx)


def replay(ctx, data):
    """re-run one recorded failing input on the real code; True = no longer violates."""
    inp = data["input"]
    from websocket._utils import validate_utf8
    if inp["op"] == "utf8":
        c = bytes.fromhex(inp["bytes"])
        s = common.run_driver(["s-utf8 " + hexarg(c)])[0]
        impl = "1" if validate_utf8(c) else "0"
        if impl != s:
            ctx.violate(data["clause"], data["cause"], inp, s, impl)
            return False
        return True
    sub = common.Ctx(ctx.prop, "quick", ctx.seed)
    run_e2e(sub)
    for v in sub.violations:
        if v["clause"] == data["clause"] and v["cause"] == data["cause"]:
            ctx.violations.append(v)
            return False
    return True
