"""C02 — received frames decode exactly as RFC 6455 prescribes; exactly the frame's bytes are consumed.

(C) `m-session` with `rf` (recv_frame) ops over streams of back-to-back frames vs the real
frame_buffer; (O) the Spec decoder (`s-decode-all`) on the same bytes: the k-th recv_frame result is
the k-th decoded frame (FIN, RSV, opcode, unmasked payload) or a protocol error for it (judged by C05),
and the call after the last frame sees end of stream — so every frame was parsed from its true start.
"""
import itertools

import common
from common import summarize
import rx
from rx import F


def streams(ctx):
    rnd = ctx.rng("streams")
    out = []
    lens7 = [0, 1, 125]
    # all 256 first bytes x length classes x mask
    for b0 in range(256):
        fin, rsv, op = b0 >> 7, (b0 >> 4) & 7, b0 & 15
        variants = [(0, None, None), (1, None, b"\x01\x02\x03\x04"), (125, None, None), (5, 16, None), (126, None, b"\xff\x00\xaa\x55"),
                    (3, 64, None), (0, None, b"\x81\x02hi"), (0, 16, b"\x00\x00\x00\x00")]      # masked frames WITHOUT payload still carry their key
        if ctx.thorough() or b0 % 16 in (0, 1, 2, 8, 9, 10):
            variants += [(65535, None, None), (65536, None, b"abcd")] if (ctx.thorough() or b0 in (0x82, 0x02, 0x80, 0x81)) else []
        for n, form, mask in variants:
            fr = F(op, common.gen_bytes(n, b0), fin=fin, rsv=rsv, mask=mask, form=form)
            tail = F(2, b"next", fin=1)
            out.append([fr, tail])
    # multi-frame streams with random encodings
    n = 4000 if ctx.thorough() else 500
    for _ in range(n):
        k = rnd.randint(1, 6)
        frames = []
        for _ in range(k):
            op = rnd.choice([0, 1, 2, 8, 9, 10, rnd.randrange(16)])
            ln = rnd.choice([0, 1, 2, 124, 125, 126, 127, 200, rnd.randint(0, 300)])
            if rnd.random() < 0.03:
                ln = rnd.choice([65535, 65536, 65537])
            data = rx.payload(rnd, ln, "bin")
            if op == 8 and rnd.random() < 0.6:
                # a close frame a server may send: legal status code + a UTF-8 reason drawn from every lead-byte class
                data = rnd.choice([1000, 1001, 1011, 3000, 4999]).to_bytes(2, "big") + rx.payload(rnd, min(ln, 123), "utf8")
            elif op == 1 and rnd.random() < 0.5:
                data = rx.payload(rnd, ln, "utf8")
            frames.append(F(op, data, fin=rnd.randint(0, 1), rsv=rnd.choice([0, 0, 0, rnd.randrange(8)])))
        rx.randomize_encoding(rnd, frames, 0.4, 0.3)
        out.append(frames)
    return out


def run(ctx):
    ctx.rule = ("streams of 1-6 back-to-back server frames read with recv_frame: all 256 first bytes x length classes "
                "{0,1,125 (7-bit), 5 via 16-bit, 126, 3 via 64-bit, 65535, 65536} x masked/unmasked, then random "
                "multi-frame streams with random mask keys and non-minimal forms; non-trivial = payload > 0 or masked")
    sts = streams(ctx)
    sessions = []
    for frames in sts:
        stream = b"".join(f.enc() for f in frames)
        # two deliveries: one chunk, and a split in the middle (C03 does the full segmentation job)
        ops = ["rf"] * (len(frames) + 1)
        sessions.append(({}, [("chunk", stream)], ops))
    res = rx.run_sessions(ctx, "session:recv_frame", sessions)
    specs = rx.spec_decode_all([b"".join(f.enc() for f in frames) for frames in sts])
    legal_q = []
    for frames, (impl, model, ws, sock, line), (dec, rest) in zip(sts, res, specs):
        outs = rx.results(impl)
        nontriv = any(len(f.data) > 0 or f.mask for f in frames)
        ctx.case(key=line, nontrivial=nontriv,
                 cls="first=" + ("legal" if (frames[0].rsv == 0 and frames[0].op in (0, 1, 2, 8, 9, 10)) else "illegal") +
                     f":n={len(frames)}:len={'0' if not frames[0].data else '<=125' if len(frames[0].data) <= 125 else '<=65535' if len(frames[0].data) <= 65535 else '>65535'}"
                     f":mask={int(bool(frames[0].mask))}:form={frames[0].form or 'min'}",
                 sample={"stream": [f.desc() for f in frames], "impl": impl[:200]} if len(ctx.samples) < 5 and len(frames) > 2 else None)
        inp = {"op": line if len(line) < 400 else line[:400] + "...", "frames": [f.desc() for f in frames]}
        if len(dec) != len(frames) or rest != 0:
            ctx.diverge("generator-vs-spec-decoder", inp, f"{len(dec)} frames rest={rest}", f"{len(frames)} frames")
            continue
        for k, d in enumerate(dec):
            fin, rsv, op, masked, key, form, summ = d.split(":", 6)
            o = outs[k]
            if o.startswith("F:"):
                _, oop, ofin, orsv, osum = o.split(":", 4)
                if (oop, ofin, orsv, osum) != (op, fin, rsv, summ):
                    field = "opcode" if oop != op else "fin" if ofin != fin else "rsv" if orsv != rsv else "payload"
                    ctx.violate("frame-equals-rfc-decoding", f"wrong-{field}", inp, d, o, size=len(frames[k].data) + 10 * len(frames))
                    break
            elif o == "X:PROTO":
                # WHICH frames are illegal is C05's business; but a frame the RFC allows in some context must be yielded
                f = frames[k]
                legal_q.append((inp, d, f, len(frames)))
                continue      # consumption is checked by the frames that follow
            else:
                ctx.violate("frame-equals-rfc-decoding", "unexpected-" + o[:20], inp, d, o, size=len(frames[k].data) + 10 * len(frames))
                break
        else:
            if outs[len(frames)] != "X:CLOSED":
                ctx.violate("exact-consumption", "bytes-left-or-overread", inp, "X:CLOSED after the last frame", outs[len(frames)],
                            size=10 * len(frames))


    # the message-level calls over a long stream of back-to-back frames: 1300 frames the call consumes on the way (pongs, answered
    # pings), then two data frames; each is yielded as the independent decoder reads it, from its true start
    long_sessions, long_meta = [], []
    for c in (10, 9):
        frames = [F(c, b"%d" % i, mask=(b"k%03d" % (i % 1000) if i % 7 == 0 else None)) for i in range(1300)] + \
                 [F(2, b"\x00first\xff", form=16), F(1, b"second", mask=b"abcd")]
        for api in ("rdf:0", "recvdata:0", "recv"):
            long_sessions.append(({}, [("chunk", b"".join(f.enc() for f in frames))], [api] * 3))
            long_meta.append((frames, api))
    for (frames, api), (impl, model, ws, sock, line) in zip(long_meta, rx.run_sessions(ctx, "session:long-stream", long_sessions)):
        outs = rx.results(impl)
        ctx.case(key=line[:80] + api, nontrivial=True, cls=f"long-stream:ctl={frames[0].op}:api={api}")
        want = {"rdf:0": ["R:2:1:", "R:1:1:"], "recvdata:0": ["D:2:", "D:1:"], "recv": ["B:", "T:"]}[api]
        if not (outs[0].startswith(want[0]) and outs[1].startswith(want[1]) and outs[2] == "X:CLOSED"):
            ctx.violate("frame-equals-rfc-decoding", "long-stream-frame-not-yielded", {"op": line[:200] + "...", "frames": f"1300 x op {frames[0].op}, binary, text", "api": api},
                        want + ["X:CLOSED"], outs[:3], size=13000)

    # the message-level calls over fragmented messages (every cut of short payloads into <= 3 fragments, empty fragments
    # included, text with a code point split by a cut): FIN, opcode and payload of what is yielded equal what the independent
    # decoder extracts and reassembles
    frag_sessions, frag_meta = [], []
    for data, op in ((b"", 1), (b"ab", 1), (b"abc", 2), ("h\u00e9\u20ac".encode(), 1), ("\U0001f600".encode(), 1),
                     ("\ufeff".encode(), 1), ("\ufeffok".encode(), 1), ("\ufeffok".encode(), 2)):
        n = len(data)
        for k in (2, 3):
            for cuts in itertools.combinations_with_replacement(range(0, n + 1), k - 1):
                pts = [0] + list(cuts) + [n]
                frames = [F(op if i == 0 else 0, data[pts[i]:pts[i + 1]], fin=1 if i == k - 1 else 0,
                            mask=(b"m%03d" % (i + n) if (i + k) % 2 else None)) for i in range(k)]
                for api in ("rdf:0", "recvdata:0"):
                    frag_sessions.append(({}, [("chunk", b"".join(f.enc() for f in frames))], [api] * 2))
                    frag_meta.append((frames, api, op, data))
                # recv() and its other spellings (next(ws), iteration — every other session): the message, then the NEXT one
                # (an empty message is a message: what follows it is still read)
                frag_sessions.append(({}, [("chunk", b"".join(f.enc() for f in frames) + F(1, b"z").enc())], ["recv"] * 3))
                frag_meta.append((frames, "recv", op, data))
    for (frames, api, op, data), (impl, model, ws, sock, line) in zip(frag_meta, rx.run_sessions(ctx, "session:fragmented", frag_sessions)):
        outs = rx.results(impl)
        ctx.case(key=line, nontrivial=True, cls=f"fragmented:api={api}:op={op}:frags={len(frames)}:empty-first={int(not frames[0].data)}")
        want = (f"R:{op}:1:" if api == "rdf:0" else f"D:{op}:") + common.summarize(data)
        if api == "recv":
            want = ("T:" if op == 1 else "B:") + common.summarize(data)
            if outs[:3] != [want, "T:" + common.summarize(b"z"), "X:CLOSED"]:
                ctx.violate("frame-equals-rfc-decoding", "message-or-its-successor-not-yielded-by-recv-or-iteration",
                            {"op": line[:300], "frames": [f.desc() for f in frames], "api": "recv / next(ws) / iteration"},
                            [want, "T:" + common.summarize(b"z"), "X:CLOSED"], outs[:3], size=10 * len(frames) + len(data))
            continue
        if outs[0] != want or outs[1] != "X:CLOSED":
            ctx.violate("frame-equals-rfc-decoding", "fragmented-message-wrong-opcode-or-payload" if not outs[0].startswith("X:") else
                        "fragmented-message-" + outs[0][2:], {"op": line[:300], "frames": [f.desc() for f in frames], "api": api},
                        [want, "X:CLOSED"], outs[:2], size=10 * len(frames) + len(data))

    # frames answered with PROTO: acceptable only if Spec.frameLegal rejects them both inside and outside a message
    lines = []
    for inp, d, f, n in legal_q:
        r1, r2, r3 = (f.rsv >> 2) & 1, (f.rsv >> 1) & 1, f.rsv & 1
        for inmsg in (0, 1):
            lines.append(f"s-frame-legal {inmsg} {f.fin} {r1} {r2} {r3} {f.op} {common.hexarg(f.data)}")
    out = common.run_driver_parallel(lines) if lines else []
    for i, (inp, d, f, n) in enumerate(legal_q):
        if "1" in (out[2 * i], out[2 * i + 1]):
            ctx.violate("frame-equals-rfc-decoding", "legal-frame-rejected", inp, d, "X:PROTO", size=len(f.data) + 10 * n)


def search(ctx):
    run(ctx)


def replay(ctx, data):
    sub = common.Ctx(ctx.prop, "quick", ctx.seed)
    run(sub)
    for v in sub.violations:
        if v["clause"] == data["clause"] and v["cause"] == data["cause"]:
            ctx.violations.append(v)
            return False
    return True
