"""C19 — proxying is decided by options, environment and no_proxy exactly as documented.

(C) model vs the real code: `m-no-proxy` vs websocket._url._is_no_proxy_host, `m-proxy-info`
vs proxy_info(**options) + get_proxy_info, `m-env-proxy`, `m-tunnel-req`/`m-tunnel` vs
websocket._http._tunnel on a scripted socket, `m-connect` vs websocket._http.connect in the
simulated world of simnet_h1.
(O) the Lean Spec applied to the REAL outputs: `s-no-proxy` (Spec.NoProxy.exempt),
`s-decision`, `s-parse-connect` (+ base64 decoded), `s-reply-status` for the gate; the
end-to-end order (address dialled, CONNECT first, TLS addressed to the origin).
"""
import itertools
import os

import common
import simnet
import simnet_h1 as N
from simnet_h1 import hx, hx_list, env_arg, auth_arg

CORPUS = os.path.join(common.VERIF, "corpus", "C19")

LABELS = ["a", "b", "ab", "ba"]


def hostnames(maxlabels=3):
    out = []
    for k in range(1, maxlabels + 1):
        for t in itertools.product(LABELS, repeat=k):
            out.append(".".join(t))
    return out


def ip(n):
    return ".".join(str((n >> s) & 255) for s in (24, 16, 8, 0))


def canon_bool_call(f, *a):
    try:
        r = f(*a)
        return "1" if r is True else ("0" if r is False else repr(r))
    except Exception as e:  # noqa
        return common.canon_exc(e)


# ------------------------------------------------------------------------------ exemption

def noproxy_cases(ctx):
    """(host, option list or None, env dict, class)"""
    rnd = ctx.rng("noproxy")
    cases = []
    hosts = hostnames(3)
    # --- names: every host against every single leading-dot / plain entry of <= 2 labels
    short = hostnames(2)
    for h in hosts:
        for d in short:
            cases.append((h, ["." + d], {}, "name:dot-entry"))
            cases.append((h, [d], {}, "name:plain-entry"))
    odd = ["*", ".", "..a", "..a.b", "", "a.", ".a.", "A.B", ".A", ".a.b", "a.b", "*.a", "a/8", ".10.0.0.1"]
    for h in hosts[:40] + ["a.b.", ".a", "A.b", "10.0.0.1"]:
        for e in odd:
            cases.append((h, [e], {}, "name:odd-entry"))
    # lists of 2 (quick) / 3 (thorough) entries over a pool
    pool = ["*", "a", ".a", "b.a", ".b.a", "ab", ".ab", "ba.b", ".ba.b", "10.0.0.0/8", "10.0.0.1", "."]
    hs = ["a", "b.a", "ab", "bab", "b.ab", "a.ba.b", "aba.b", "10.0.0.1", "10.1.2.3", "11.0.0.1"]
    for h in hs:
        for t in itertools.product(pool, repeat=2):
            cases.append((h, list(t), {}, "list:2"))
    if ctx.thorough():
        for h in hs:
            for t in itertools.product(pool, repeat=3):
                cases.append((h, list(t), {}, "list:3"))
        for h in hosts:
            for d in hostnames(3):
                cases.append((h, ["." + d], {}, "name:dot-entry3"))
    # --- addresses: every prefix length x aligned/unaligned network x inside/outside/edge
    bases = [0x0A141E28, 0xC0A80101, 0xFFFFFFFF, 0x00000000, 0x7F000001]
    for p in range(0, 33):
        size = 1 << (32 - p)
        for b in bases if ctx.thorough() else bases[:3]:
            net = b & ~(size - 1) & 0xFFFFFFFF
            nets = [("aligned", net)]
            if p < 32 and (net | 1) != net:
                nets.append(("unaligned", net | 1))
            if p < 32 and size > 2:
                nets.append(("unaligned", net | (size >> 1)))
            for kind, n in nets:
                pts = {net, (net + size - 1) & 0xFFFFFFFF, (net + size) & 0xFFFFFFFF,
                       (net - 1) & 0xFFFFFFFF, (net + size // 2) & 0xFFFFFFFF, b, n}
                for h in sorted(pts):
                    cases.append((ip(h), [f"{ip(n)}/{p}"], {}, f"cidr:{kind}"))
    for h in ["10.0.0.1", "10.0.0.2", "a.b"]:
        for e in ["10.0.0.1/32", "10.0.0.1/33", "10.0.0.0/08", "10.0.0.1/", "10.0.0.0/8/9", "/8", "10.0.0.1/x",
                  "999.0.0.1/8", "10.0.0/8", "10.0.0.0.0/8", "010.0.0.0/8", "10.0.0.1", "10.0.0.256/8", "0.0.0.0/0",
                  "10.0.0.1/32 ", "a.b/8", "10.0.0.0/1e1"]:
            cases.append((h, [e], {}, "cidr:malformed"))
    # --- IPv6 on either side: an IPv6-literal target is no IPv4 address (no CIDR entry applies to it: it is matched by name
    #     only), and an IPv6 block in the list is no IPv4 subnet (it exempts no dotted quad and breaks nothing)
    for h in ["::1", "fe80::1", "2001:db8::5", "fc00::1"]:
        for e in [["10.0.0.0/8"], ["0.0.0.0/0"], ["::1"], ["fe80::1"], ["a.b", "10.0.0.1/32"], [".b"], ["*"], ["fc00::/7"], ["2001:db8::/32"]]:
            cases.append((h, e, {}, "ipv6:target"))
    for h in ["10.1.2.3", "127.0.0.1", "a.b"]:
        for e in [["fc00::/7"], ["fe80::/10"], ["2001:db8::/32"], ["localhost", "127.0.0.0/8", "fc00::/7"], ["fc00::/7", "10.0.0.0/8"],
                  ["::/0"], ["::1"], ["fc00::/129"]]:
            cases.append((h, e, {}, "ipv6:entry"))
            cases.append((h, None, {"NO_PROXY": ",".join(e)}, "ipv6:entry"))
    # --- where the list comes from
    for h in ["a.b", "b", "10.0.0.1"]:
        for opt in [None, [], ["a.b"], ["x"]]:
            for lo in [None, "", "a.b", "x , a.b", " * ", ".b,10.0.0.0/8", ",", "a.b,,x"]:
                for up in [None, "", "a.b", "*"]:
                    env = {}
                    if lo is not None:
                        env["no_proxy"] = lo
                    if up is not None:
                        env["NO_PROXY"] = up
                    cases.append((h, opt, env, "source"))
    # --- random mixes
    n = 6000 if ctx.thorough() else 1500
    ents = pool + ["." + x for x in hostnames(2)] + hostnames(2) + ["10.0.0.1/32", "10.0.0.0/31", "0.0.0.0/0"]
    for _ in range(n):
        h = rnd.choice(hosts + ["10.0.0.1", "10.0.0.2", "10.255.0.9"])
        l = [rnd.choice(ents) for _ in range(rnd.randint(0, 4))]
        if rnd.random() < 0.3:
            cases.append((h, None, {"no_proxy": ", ".join(l)}, "random:env"))
        else:
            cases.append((h, l, {}, "random:opt"))
    return cases


def lookalike(host, entries):
    """some leading-dot entry's name is a suffix of host but not on a label boundary."""
    for e in entries:
        if e.startswith("."):
            name = e.lstrip(".")
            if name and host.endswith(name) and host != name and not host.endswith("." + name):
                return True
            if not name:
                return True
    return False


def judge_noproxy(ctx, host, opt, env, impl, spec, cls):
    if impl == spec:
        return
    eff = opt if opt else [x for x in (env.get("no_proxy", env.get("NO_PROXY", "")).replace(" ", "").split(",")) if True]
    if impl == "1" and spec == "0":
        cause = "lookalike-suffix-exempted" if lookalike(host, eff) else "exempt-but-not-listed"
    elif impl == "0" and spec == "1":
        cause = "slash32-not-recognised" if any(e.endswith("/32") for e in eff) else "listed-but-not-exempt"
    else:
        cause = "raises-" + impl
    ctx.violate("exempt-iff-listed", cause, {"op": "no-proxy", "host": host, "no_proxy": opt, "env": env},
                "exempt = " + spec, "_is_no_proxy_host = " + impl, size=len(host) + sum(len(x) for x in eff))


def run_noproxy(ctx, cases=None):
    from websocket._url import _is_no_proxy_host
    cases = cases if cases is not None else noproxy_cases(ctx)
    lm, ls = [], []
    for host, opt, env, cls in cases:
        args = f"{hx(host)} {hx_list(opt)} {env_arg(env)}"
        lm.append("m-no-proxy " + args)
        ls.append("s-no-proxy " + args)
    out = common.run_driver_parallel(lm + ls)
    mo, so = out[:len(cases)], out[len(cases):]
    for (host, opt, env, cls), m, s in zip(cases, mo, so):
        with N.patched_env(env):
            impl = canon_bool_call(_is_no_proxy_host, host, None if opt is None else list(opt))
        ctx.case(key=("np", host, tuple(opt) if opt is not None else None, tuple(sorted(env.items()))),
                 nontrivial=(impl == "1" or bool(opt) or bool(env)), cls="noproxy:" + cls + (":unmodelled" if m == "unmodelled" else ""),
                 sample={"op": "no-proxy", "host": host, "no_proxy": opt, "env": env, "impl": impl, "model": m, "spec": s}
                 if cls in ("cidr:aligned", "name:dot-entry") and len(ctx.samples) < 3 else None)
        if m != "unmodelled" and m != impl:
            ctx.diverge("unit:no-proxy", {"host": host, "no_proxy": opt, "env": env}, m, impl)
        if m != "unmodelled" or cls.startswith(("name", "list", "source", "random")):
            judge_noproxy(ctx, host, opt, env, impl, s, cls)
    ctx.traces_vs_impl += len(cases)


# ------------------------------------------------------------------------------ decision

ENV_URLS = [None, "", "http://e1:3128", "http://u:p@e2:8080/", " http://e3 ", "http://e4:0"]


def decision_cases(ctx):
    rnd = ctx.rng("decision")
    cases = []
    hosts = ["a.b", "10.0.0.1"]
    opt_hosts = [None, "", "px"]
    opt_ports = [0, 8080]
    opt_auths = [None, ("u", "p"), ("u", None)]
    opt_nps = [None, [], ["a.b"], ["10.0.0.0/8"], ["x.y"]]
    np_envs = [None, "a.b", "*", "x"]

    def envs_full():
        for hp, HP, sp, SP in itertools.product(ENV_URLS[:3] + ENV_URLS[3:4], repeat=4):
            yield hp, HP, sp, SP

    def envs_quick():
        vals = [None, "", "http://e1:3128"]
        seen = set()
        for hp, HP, sp, SP in itertools.product(vals, repeat=4):
            seen.add((hp, HP, sp, SP))
        for t in sorted(seen, key=str):
            yield t

    allc = []
    for host, sec, oh, op, oa, onp, npe in itertools.product(hosts, [False, True], opt_hosts, opt_ports, opt_auths,
                                                             opt_nps, np_envs):
        for (hp, HP, sp, SP) in (envs_full() if ctx.thorough() else envs_quick()):
            env = {}
            for k, v in (("http_proxy", hp), ("HTTP_PROXY", HP), ("https_proxy", sp), ("HTTPS_PROXY", SP),
                         ("no_proxy", npe)):
                if v is not None:
                    env[k] = v
            allc.append((host, sec, oh, op, oa, onp, env))
    if not ctx.thorough():
        # quick: every combination of (option presence, env presence per variable, exemption source),
        # thinned on the inert axes
        keep = [c for c in allc if (c[3] == 8080 or c[2] == "px") and (c[4] != ("u", "p") or c[2] == "px")]
        rnd.shuffle(keep)
        allc = keep[:9000]
    cases += allc
    # environment URL forms
    for v in ["http://px", "http://px:3128", "http://px:0", "http://u:p@px:1", "http://u@px:1", "http://u:@px:1",
              "http://:p@px:1", "http://PX:1/", "http://[::1]:8", "//px:1", "px:3128", "http://px:x", " http://px : 1 ",
              "http://px:65535", "http://px:65536", "https://px:1/path?q", "http://u:p:q@px:1", "http://a@b@px:1",
              # percent-encoded reserved characters in the credentials (RFC 3986 3.2.1): decoded AFTER the URL is split
              "http://svc%2Fws:p%23ss%3Fx@px:3128/", "http://u%40corp:p%3Aq@px:1", "http://a%2fb:c@px:8080", "http://user:%2F%2Fx@px:1",
              "http://u%25:p%25@px:1", "http://%41b:%63d@px:2"]:
        for sec in (False, True):
            cases.append(("a.b", sec, None, 0, None, None, {("https_proxy" if sec else "http_proxy"): v}))
    return cases


def canon_choice(r):
    h, p, a = r
    hs = "!" if h is None else hx(h)
    ps = "!" if p is None else str(int(p))
    if a is None:
        as_ = "!"
    else:
        as_ = f"{hx(a[0] or '')}:{hx(a[1] or '')}"
    return f"{hs} {ps} {as_}"


def run_decision(ctx, cases=None):
    from websocket._http import proxy_info
    from websocket._url import get_proxy_info
    cases = cases if cases is not None else decision_cases(ctx)
    lm, ls = [], []
    for host, sec, oh, op, oa, onp, env in cases:
        args = f"{hx(host)} {int(sec)} {hx(oh or '')} {op} {auth_arg(oa)} {hx_list(onp)} {env_arg(env)}"
        lm.append("m-proxy-info " + args)
        ls.append("s-decision " + args)
    out = common.run_driver_parallel(lm + ls)
    mo, so = out[:len(cases)], out[len(cases):]
    for (host, sec, oh, op, oa, onp, env), m, s in zip(cases, mo, so):
        opts = {}
        if oh is not None:
            opts["http_proxy_host"] = oh
        opts["http_proxy_port"] = op
        if oa is not None:
            opts["http_proxy_auth"] = oa
        if onp is not None:
            opts["http_no_proxy"] = list(onp)
        try:
            with N.patched_env(env):
                p = proxy_info(**opts)
                r = get_proxy_info(host, sec, p.proxy_host, p.proxy_port, p.auth, p.no_proxy)
            impl = canon_choice(r)
        except Exception as e:  # noqa
            impl = common.canon_exc(e)
        inp = {"op": "decision", "host": host, "secure": sec, "options": {k: (list(v) if isinstance(v, (list, tuple)) else v)
                                                                          for k, v in opts.items()}, "env": env}
        ctx.case(key=("dec", host, sec, oh, op, oa, tuple(onp) if onp is not None else None, tuple(sorted(env.items()))),
                 nontrivial=(s != "direct"), cls="decision:" + s.split(" ")[0] + (":unmodelled" if m == "unmodelled" else ""),
                 sample=dict(inp, impl=impl, model=m, spec=s) if s.startswith("env") and len(ctx.samples) < 6 else None)
        if m != "unmodelled" and m != impl:
            ctx.diverge("unit:proxy-info", inp, m, impl)
        # oracle
        kind = s.split(" ")[0]
        bad = None
        if kind == "direct":
            if impl != "! 0 !":
                bad = ("no-proxy-option-ignored-without-proxy-host-option"
                       if (onp and not oh and not impl.startswith(("INTERNAL", "VALUE", "PROXY"))) else "proxied-though-direct-expected")
                exp = "(None, 0, None)"
        elif kind == "option":
            exp = s[len("option "):]
            if impl != exp:
                bad = "option-proxy-not-used"
        elif kind == "configerror":
            exp = "PROXY"
            if impl != "PROXY":
                bad = "port-0-not-refused"
        elif kind == "env":
            exp = "proxy named by " + bytes.fromhex(s.split(" ")[1]).decode()
            if impl.startswith("INTERNAL"):
                bad = "env-proxy-url-internal-error"
            elif impl.startswith("! ") and well_formed_proxy_url(bytes.fromhex(s.split(" ")[1]).decode()):
                bad = "env-proxy-not-used"
            elif not impl.startswith(("! ", "VALUEERROR", "INTERNAL")) and well_formed_proxy_url(
                    bytes.fromhex(s.split(" ")[1]).decode()):
                want = expected_env_choice(bytes.fromhex(s.split(" ")[1]).decode())
                if want is not None and impl != want:
                    bad = "env-proxy-misread"
                    exp = want
        if bad:
            ctx.violate("proxy-iff-given-and-not-exempt", bad, inp, exp, impl, size=len(str(inp)))
    ctx.traces_vs_impl += len(cases)


_UI = r"(?:[A-Za-z0-9._~-]|%[0-9A-Fa-f]{2})"


def well_formed_proxy_url(v):
    import re
    return re.fullmatch(r"https?://(" + _UI + r"+(:" + _UI + r"*)?@)?[A-Za-z0-9.-]+(:[0-9]{1,5})?/?", v) is not None


def _pct_decode(t):
    """RFC 3986 percent-decoding of one userinfo field (ASCII results only: otherwise None)."""
    out, i = [], 0
    while i < len(t):
        if t[i] == "%":
            b = int(t[i + 1:i + 3], 16)
            if b >= 0x80:
                return None
            out.append(chr(b))
            i += 3
        else:
            out.append(t[i])
            i += 1
    return "".join(out)


def expected_env_choice(v):
    """independent reading of scheme://[user[:pass]@]host[:port][/] — the URL is split first, the userinfo fields are
    percent-decoded afterwards"""
    import re
    m = re.fullmatch(r"https?://(?:(" + _UI + r"+)(?::(" + _UI + r"*))?@)?([A-Za-z0-9.-]+)(?::([0-9]{1,5}))?/?", v)
    if not m:
        return None
    u, p, h, port = m.groups()
    if port is not None and int(port) > 65535:
        return None
    if u is not None:
        u, p = _pct_decode(u), _pct_decode(p or "")
        if u is None or p is None:
            return None
    a = "!" if u is None else f"{hx(u)}:{hx(p or '')}"
    return f"{hx(h.lower())} {'!' if port is None else int(port)} {a}"


# ------------------------------------------------------------------------------ tunnel

REPLIES = [
    (b"HTTP/1.1 200 Connection established\r\n\r\n", "200"),
    (b"HTTP/1.0 200 OK\r\nProxy-Agent: x\r\n\r\n", "200"),
    (b"HTTP/1.1 201 Created\r\n\r\n", "2xx"),
    (b"HTTP/1.1 301 Moved\r\nLocation: http://x/\r\n\r\n", "3xx"),
    (b"HTTP/1.1 403 Forbidden\r\n\r\n", "4xx"),
    (b"HTTP/1.1 407 Proxy Authentication Required\r\nProxy-Authenticate: Basic\r\n\r\n", "4xx"),
    (b"HTTP/1.1 500 Internal\r\n\r\n", "5xx"),
    (b"HTTP/1.1 100 Continue\r\n\r\n", "1xx"),
    (b"HTTP/1.1 2000 OK\r\n\r\n", "malformed"),
    (b"HTTP/1.1 20 OK\r\n\r\n", "malformed"),
    (b"HTTP/1.1\r\n\r\n", "malformed"),
    (b"HTTP/1.1 abc OK\r\n\r\n", "malformed"),
    (b"HTTP/1.1 200 OK\r\nfoo\r\n\r\n", "malformed"),
    (b"HTTP/1.1 0 OK\r\nHTTP/1.1 200 OK\r\n\r\n", "malformed"),
    (b"HTTP/1.1 200 OK\r\n", "eof"),
    (b"HTTP/1.1 200 OK", "eof"),
    (b"", "eof"),
    (b"\r\n", "malformed"),
    (b"HTTP/1.1 200\r\n\r\n", "200-noreason"),
    (b"HTTP/1.1  200 OK\r\n\r\n", "malformed"),
]

AUTHS = [None, ("u", "p"), ("user", ""), ("user", None), ("", "p"), ("a" * 40, "b" * 40), ("u:v", "p"), ("U", "P:Q")]


def tunnel_cases(ctx):
    cases = []
    for (reply, rc) in REPLIES:
        for a in AUTHS if ctx.thorough() else AUTHS[:6]:
            for host, port in (("a.b", 80), ("h", 8443), ("10.0.0.1", 443)):
                cases.append((host, port, a, reply, rc))
    if ctx.thorough():
        for code in range(100, 600):
            cases.append(("a.b", 80, None, b"HTTP/1.1 %d X\r\n\r\n" % code, "sweep"))
    else:
        for code in (199, 200, 201, 299, 300, 400, 404, 502, 599):
            cases.append(("a.b", 80, None, b"HTTP/1.1 %d X\r\n\r\n" % code, "sweep"))
    return cases


def expected_cred(a):
    if not a or not a[0]:
        return "!"
    s = a[0] + (":" + a[1] if a[1] else "")
    return hx(s)


def run_tunnel(ctx, cases=None):
    from websocket._http import _tunnel
    cases = cases if cases is not None else tunnel_cases(ctx)
    l1, l2, l3 = [], [], []
    real = []
    for host, port, a, reply, rc in cases:
        sock = simnet.SimSocket([("chunk", reply)] if reply else [])
        try:
            _tunnel(sock, host, port, a)
            res = "ok"
        except Exception as e:  # noqa
            res = common.canon_exc(e)
        real.append((bytes(sock.sent), res))
        l1.append(f"m-tunnel-req {hx(host)} {port} {auth_arg(a)}")
        l2.append(f"m-tunnel {hx(reply)}")
        l3.append(f"s-reply-status {hx(reply)}")
    l4 = [f"s-parse-connect {hx(sent)}" for sent, _ in real]
    out = common.run_driver_parallel(l1 + l2 + l3 + l4)
    n = len(cases)
    o1, o2, o3, o4 = out[:n], out[n:2 * n], out[2 * n:3 * n], out[3 * n:]
    for (host, port, a, reply, rc), (sent, res), mreq, mres, sstat, spc in zip(cases, real, o1, o2, o3, o4):
        inp = {"op": "tunnel", "host": host, "port": port, "auth": a, "reply": reply.hex()}
        ctx.case(key=("tun", host, port, a, reply), nontrivial=(a is not None or rc != "200"), cls="tunnel:" + rc,
                 sample=dict(inp, sent=sent.decode("latin1"), result=res, spec_status=sstat)
                 if a == ("u", "p") and rc in ("200", "4xx") and len(ctx.samples) < 8 else None)
        if mreq != "unmodelled" and mreq != hx(sent):
            ctx.diverge("unit:tunnel-request", inp, mreq, hx(sent))
        if mres != "unmodelled" and mres != res:
            ctx.diverge("unit:tunnel-gate", inp, mres, res)
        # oracle: the bytes
        want = f"{hx(f'{host}:{port}')} {hx(f'{host}:{port}')} {expected_cred(a)}"
        if spc != want:
            ctx.violate("connect-request-bytes", "connect-request-malformed" if spc == "none" else "connect-request-wrong-fields",
                        inp, want, spc + " <- " + sent.decode("latin1"), size=len(sent))
        # oracle: the gate
        if sstat == "200":
            if res != "ok":
                ctx.violate("proceed-only-on-200", "200-refused", inp, "tunnel established", res, size=len(reply))
        elif sstat != "!":
            if res != "PROXY":
                ctx.violate("proceed-only-on-200", "non-200-accepted" if res == "ok" else "non-200-wrong-exception",
                            inp, "PROXY", res, size=len(reply))
        else:
            if res not in ("ok", "PROXY"):
                ctx.violate("proceed-only-on-200", "malformed-reply-wrong-exception", inp, "ok or PROXY", res, size=len(reply))
            if res == "ok" and b" 200" not in reply.split(b"\n")[0] and b" 200" not in reply:
                ctx.violate("proceed-only-on-200", "malformed-non-200-accepted", inp, "PROXY", res, size=len(reply))
    ctx.traces_vs_impl += n


# ------------------------------------------------------------------------------ end to end

def e2e_cases(ctx):
    rnd = ctx.rng("e2e")
    cases = []
    urls = ["ws://a.b/p?q", "wss://a.b:8443/", "ws://10.0.0.1:81/x", "wss://b.a"]
    optsets = [
        {},
        {"http_proxy_host": "px", "http_proxy_port": 3128},
        {"http_proxy_host": "px", "http_proxy_port": 3128, "http_proxy_auth": ("u", "p")},
        {"http_proxy_host": "px", "http_proxy_port": 3128, "http_no_proxy": ["a.b"]},
        {"http_no_proxy": ["a.b", "10.0.0.0/8"]},
        {"http_proxy_host": "px", "http_proxy_port": 0},
        {"http_proxy_host": "px", "http_proxy_port": 3128, "http_no_proxy": [".b"]},
    ]
    envs = [{}, {"http_proxy": "http://e1:3128"}, {"https_proxy": "http://u:p@e2"}, {"HTTP_PROXY": "http://e3:8080", "no_proxy": "a.b"},
            {"http_proxy": "http://e1:3128", "https_proxy": "http://e2:3129", "NO_PROXY": ".a, 10.0.0.1/32"},
            {"http_proxy": "http://user@e5:1"}]
    replies = [r for r, _ in REPLIES[:7]] + [REPLIES[10][0], REPLIES[14][0], b""]
    addrsets = [["a"], ["r", "a"], ["r", "u"], None]
    for url, opts, env in itertools.product(urls, optsets, envs):
        for reply in (replies if ctx.thorough() else [replies[0], replies[4], replies[8]]):
            for addrs in (addrsets if ctx.thorough() else addrsets[:2]):
                cases.append((url, opts, env, reply, addrs))
    if not ctx.thorough():
        rnd.shuffle(cases)
        cases = cases[:700]
    return cases


def run_e2e(ctx, cases=None):
    import websocket._http as H
    from websocket._socket import sock_opt
    cases = cases if cases is not None else e2e_cases(ctx)
    lines, ldec = [], []
    real = []
    for url, opts, env, reply, addrs in cases:
        net = N.Net(addrs=addrs, proxy_reply=reply)
        so = sock_opt(None, None)
        so.timeout = 5
        try:
            with N.patched(net, env):
                sock, tup = H.connect(url, so, H.proxy_info(**opts), None)
            res = f"ok:{sock.i}:{hx(tup[0])}:{tup[1]}:{hx(tup[2])}"
        except Exception as e:  # noqa
            res = common.canon_exc(e)
        real.append((res, N.render_events(net.log), net))
        lines.append(f"m-connect {hx(url)} 5 - {hx(opts.get('http_proxy_host') or '')} {opts.get('http_proxy_port', 0)} "
                     f"{auth_arg(opts.get('http_proxy_auth'))} {hx_list(opts.get('http_no_proxy'))} {env_arg(env)} "
                     f"{N.outcomes_arg(addrs)} {hx(reply)}")
        # the spec's decision needs host/secure: the URLs here are all plain valid ones
        from urllib.parse import urlsplit
        u = urlsplit(url)
        host, sec = u.hostname, u.scheme == "wss"
        ldec.append(f"s-decision {hx(host)} {int(sec)} {hx(opts.get('http_proxy_host') or '')} {opts.get('http_proxy_port', 0)} "
                    f"{auth_arg(opts.get('http_proxy_auth'))} {hx_list(opts.get('http_no_proxy'))} {env_arg(env)}")
    lstat = [f"s-reply-status {hx(c[3])}" for c in cases]
    out = common.run_driver_parallel(lines + ldec + lstat)
    n = len(cases)
    mo, do, st = out[:n], out[n:2 * n], out[2 * n:]
    for (url, opts, env, reply, addrs), (res, evs, net), m, d, sstat in zip(cases, real, mo, do, st):
        from urllib.parse import urlsplit
        u = urlsplit(url)
        host, sec = u.hostname, u.scheme == "wss"
        port = u.port or (443 if sec else 80)
        inp = {"op": "connect", "url": url, "options": {k: (list(v) if isinstance(v, (list, tuple)) else v) for k, v in opts.items()},
               "env": env, "proxy_reply": reply.hex(), "addrs": addrs}
        kind = d.split(" ")[0]
        ctx.case(key=("e2e", url, str(sorted(opts.items())), str(sorted(env.items())), reply, str(addrs)),
                 nontrivial=(kind != "direct"), cls=f"e2e:{kind}:{'wss' if sec else 'ws'}",
                 sample=dict(inp, result=res, trace=evs) if kind == "env" and sec and len(ctx.samples) < 11 else None)
        if m != "unmodelled":
            mres, mev = m.split(" ", 1)
            if mres != res or N.canon_model_events(mev) != evs:
                ctx.diverge("e2e:connect", inp, m, res + " " + evs)
        # oracle on the real trace
        log = net.log
        resolves = [e for e in log if e[0] == "resolve"]
        sends = [e for e in log if e[0] == "send"]
        tls = [e for e in log if e[0] == "tls"]
        if res.startswith("INTERNAL"):
            ctx.violate("proxy-iff-given-and-not-exempt", "env-proxy-url-internal-error" if "user@" in str(env) else "internal-error",
                        inp, "a connection or a documented exception", res, size=len(str(inp)))
            continue
        if kind == "configerror":
            if res != "PROXY" or log:
                ctx.violate("proxy-iff-given-and-not-exempt", "port-0-not-refused", inp, "PROXY, no network activity", res + " " + evs)
            continue
        if not resolves:
            ctx.violate("address-dialled", "nothing-resolved", inp, "a resolver call", res + " " + evs)
            continue
        if kind == "direct":
            want = (host, port)
            if (resolves[0][1], resolves[0][2]) != want or sends:
                cause = ("no-proxy-option-ignored-without-proxy-host-option"
                         if opts.get("http_no_proxy") and not opts.get("http_proxy_host") else "proxied-though-direct-expected")
                ctx.violate("proxy-iff-given-and-not-exempt", cause, inp, f"direct to {want}, nothing written before the handshake",
                            evs, size=len(str(inp)))
                continue
        else:
            if kind == "option":
                want = (opts["http_proxy_host"], opts["http_proxy_port"])
            else:
                pu = urlsplit(bytes.fromhex(d.split(" ")[1]).decode())
                want = (pu.hostname, pu.port or 80)
            if (resolves[0][1], resolves[0][2]) != want:
                ctx.violate("address-dialled", "proxy-not-dialled", inp, f"dial {want}", evs, size=len(str(inp)))
                continue
            if addrs and "a" in addrs and all(x in ("r", "u") for x in addrs[:addrs.index("a")]):
                if not sends or not sends[0][2].startswith(b"CONNECT %s:%d HTTP/1.1\r\n" % (host.encode(), port)):
                    ctx.violate("connect-request-bytes", "connect-not-first", inp, f"CONNECT {host}:{port} first", evs)
                    continue
                ok = res.startswith("ok:")
                if sstat == "200" and not ok:
                    ctx.violate("proceed-only-on-200", "200-refused", inp, "proceeds", res)
                if sstat not in ("200", "!") and (ok or res != "PROXY"):
                    ctx.violate("proceed-only-on-200", "non-200-accepted" if ok else "non-200-wrong-exception", inp, "PROXY", res)
                if not ok:
                    i = [k for k, e in enumerate(log) if e[0] == "send"][0]
                    after = [e for e in log[i + 1:] if e[0] in ("send", "tls")]
                    closed = any(e[0] == "close" and e[1] == sends[0][1] for e in log[i + 1:])
                    if after or not closed:
                        ctx.violate("proceed-only-on-200", "activity-after-refused-tunnel", inp, "socket closed, nothing written", evs)
        if res.startswith("ok:"):
            # TLS exactly for wss, after the CONNECT, addressed to the origin; handshake addressed to the origin
            if sec != bool(tls) or (tls and tls[0][2] != host):
                ctx.violate("tls-to-origin", "tls-misaddressed" if tls else "tls-missing", inp, f"TLS to {host}" if sec else "no TLS", evs)
            if tls and sends and log.index(tls[0]) < log.index(sends[0]):
                ctx.violate("tls-to-origin", "tls-before-connect", inp, "CONNECT before TLS", evs)
            tup = res.split(":")
            if (bytes.fromhex(tup[2]).decode(), int(tup[3])) != (host, port):
                ctx.violate("tls-to-origin", "handshake-not-addressed-to-origin", inp, f"({host}, {port})", res)
    ctx.traces_vs_impl += n


def run_redirects(ctx):
    """the proxy decision is taken afresh for EVERY connection of a redirect chain (real WebSocket.connect):
    (O) each hop's dial target = what Spec's decision says for that hop's host and scheme under the caller's options and
    environment — not what an earlier hop resolved."""
    import websocket
    import websocket._handshake as HS
    from urllib.parse import urlsplit
    chains = [["ws://a.example/", "wss://b.example/x"], ["wss://a.example/", "ws://b.example/"], ["ws://a.example/", "ws://b.example/"],
              ["ws://a.example/", "wss://b.example/", "ws://c.example/y"]]
    settings = [({}, {"http_proxy": "http://envp.example:3128"}),
                ({}, {"http_proxy": "http://u:pw@envp.example:3128", "https_proxy": "http://secp.example:8443"}),
                ({}, {"https_proxy": "http://secp.example:8443"}),
                ({"http_proxy_host": "optp.example", "http_proxy_port": 8080, "http_no_proxy": ["a.example"]}, {}),
                ({"http_proxy_host": "optp.example", "http_proxy_port": 8080, "http_no_proxy": ["b.example"]}, {}),
                ({"http_proxy_host": "optp.example", "http_proxy_port": 8080, "http_proxy_auth": ("u", "p")}, {"no_proxy": "c.example"}),
                ({"http_no_proxy": ["b.example"]}, {"http_proxy": "http://envp.example:3128", "https_proxy": "http://envp.example:3128"})]
    runs, lines = [], []
    for chain in chains:
        for opts, env in settings:
            net = N.Net(addrs=["a"], redirects=chain[1:])
            HS.CookieJar.jar.clear()
            try:
                with N.patched(net, env):
                    ws = websocket.WebSocket()
                    ws.connect(chain[0], **opts)
                res = "connected" if ws.connected else "not-connected"
            except Exception as e:  # noqa
                res = common.canon_exc(e)
            runs.append((chain, opts, env, res, net))
            for url in chain:
                u = urlsplit(url)
                lines.append(f"s-decision {hx(u.hostname)} {int(u.scheme == 'wss')} {hx(opts.get('http_proxy_host') or '')} "
                             f"{opts.get('http_proxy_port', 0)} {auth_arg(opts.get('http_proxy_auth'))} "
                             f"{hx_list(opts.get('http_no_proxy'))} {env_arg(env)}")
    out = common.run_driver(lines)
    k = 0
    for chain, opts, env, res, net in runs:
        inp = {"op": "redirect-chain", "chain": chain, "options": {a: (list(b) if isinstance(b, (list, tuple)) else b) for a, b in opts.items()},
               "env": env}
        resolves = [e for e in net.log if e[0] == "resolve"]
        ctx.case(key=("redir", str(chain), str(sorted(opts.items())), str(sorted(env.items()))), nontrivial=True,
                 cls=f"redirect-chain:hops={len(chain)}", sample=dict(inp, trace=N.render_events(net.log)[:300]) if len(ctx.samples) < 13 else None)
        decisions = out[k:k + len(chain)]
        k += len(chain)
        if res != "connected" or len(resolves) != len(chain):
            ctx.violate("proxy-iff-given-and-not-exempt", "redirect-chain-not-followed", inp, f"{len(chain)} connections, connected",
                        f"{res}, {len(resolves)} connections", size=len(str(inp)))
            continue
        for hop, url in enumerate(chain):
            d = decisions[hop]
            u = urlsplit(url)
            sec = u.scheme == "wss"
            kind = d.split(" ")[0]
            if kind == "direct":
                want = (u.hostname, u.port or (443 if sec else 80))
            elif kind == "option":
                want = (opts["http_proxy_host"], opts["http_proxy_port"])
            elif kind == "env":
                pu = urlsplit(bytes.fromhex(d.split(" ")[1]).decode())
                want = (pu.hostname, pu.port or 80)
            else:
                continue
            got = (resolves[hop][1], resolves[hop][2])
            if got != want:
                ctx.violate("proxy-iff-given-and-not-exempt", "stale-decision-on-redirected-connection" if hop else "wrong-first-hop", inp,
                            f"hop {hop} ({url}): dial {want} [{kind}]", f"dialled {got}; trace {N.render_events(net.log)[:300]}",
                            size=len(str(inp)))
                break
    ctx.traces_vs_impl += len(runs)


# ------------------------------------------------------------------------------ corpus / entry points

def corpus_cases():
    import json
    out = []
    if os.path.isdir(CORPUS):
        for f in sorted(os.listdir(CORPUS)):
            if f.endswith(".json"):
                with open(os.path.join(CORPUS, f)) as fh:
                    out.append(json.load(fh))
    return out


def run_inputs(ctx, inputs):
    """re-run recorded inputs (corpus / replay) through the same judges."""
    for inp in inputs:
        op = inp.get("op")
        if op == "no-proxy":
            run_noproxy(ctx, [(inp["host"], inp.get("no_proxy"), inp.get("env") or {}, "corpus")])
        elif op == "decision":
            o = inp.get("options", {})
            a = o.get("http_proxy_auth")
            run_decision(ctx, [(inp["host"], bool(inp["secure"]), o.get("http_proxy_host"), o.get("http_proxy_port", 0),
                                tuple(a) if a else None, o.get("http_no_proxy"), inp.get("env") or {})])
        elif op == "tunnel":
            a = inp.get("auth")
            run_tunnel(ctx, [(inp["host"], inp["port"], tuple(a) if a else None, bytes.fromhex(inp["reply"]), "corpus")])
        elif op == "connect":
            o = dict(inp.get("options", {}))
            if o.get("http_proxy_auth"):
                o["http_proxy_auth"] = tuple(o["http_proxy_auth"])
            run_e2e(ctx, [(inp["url"], o, inp.get("env") or {}, bytes.fromhex(inp["proxy_reply"]), inp.get("addrs"))])


def run(ctx):
    ctx.assumptions = [
        "C19: socket.inet_aton is modelled on canonical dotted quads and on strings glibc certainly refuses (Py.inetModelled); legacy forms (1.2.3, hex, octal) are neither generated nor judged",
        "C19: int() on ASCII digit strings only; urlparse of the environment value = Model.Url.urlsplit on the URL alphabet; unquote = Model.Proxy.unquote (escapes in the credentials that decode to ASCII; others are answered `unmodelled` and judged by the independent reading only)",
        "C19: Spec readings: CIDR blocks are strict (no host bits set); an address literal belongs to no domain; comparisons are case-sensitive; IPv6 origins in CONNECT are outside the property's quantifier",
        "C19: the proxy's reply is read from a scripted socket; TLS is one opaque event carrying server_hostname",
    ]
    ctx.rule = ("no-proxy: host names over labels {a,b,ab,ba} (<= 3 labels) x leading-dot / plain entries (<= 2 labels; 3 in "
                "thorough), lists of 2 (3) entries over a 12-entry pool, every prefix length 0..32 x aligned/unaligned "
                "network x inside/edge/outside addresses, malformed CIDRs, option/no_proxy/NO_PROXY sources; decision: "
                "option host x port x auth x no_proxy option x the four proxy variables x no_proxy env x ws/wss; tunnel: "
                "replies of every status class, malformed heads, eof x credentials; e2e connect in the simulated network; redirect chains of 2-3 hops changing scheme/host under 7 option/environment settings (decision per hop) "
                "(non-trivial = exempt / proxied / credentialed / non-200)")
    run_inputs(ctx, [c["input"] for c in corpus_cases() if "input" in c])
    run_noproxy(ctx)
    run_decision(ctx)
    run_tunnel(ctx)
    run_e2e(ctx)
    run_redirects(ctx)


def search(ctx):
    run(ctx)


def replay(ctx, data):
    sub = common.Ctx(ctx.prop, "quick", ctx.seed)
    run_inputs(sub, [data["input"]])
    for v in sub.violations:
        if v["clause"] == data["clause"] and v["cause"] == data["cause"]:
            ctx.violations.append(v)
            return False
    return True
