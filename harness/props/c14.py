"""C14 — run_forever terminates; on_close fires once, last, with the close reason; return value; re-run.

(C) real `run_forever` vs `m-app` (identical traces) on: every way of ending a run x every traffic prefix up
to length 3; close() and KeyboardInterrupt from each callback at each invocation x four server reactions;
a second (and third) run on the same object after each ending.
(O) Spec.AppTrace.c14Run on the REAL trace: exactly one on_close and nothing after it, its arguments, the
return value, no transport / ping thread left -- plus, real runs only, close() from a second thread at
scripted ticks (both orders at ties) and preempting the main loop at every executed line of websocket/*.py
(thorough: every line; quick: a sample), and the liveness of threads / reachability of transports at return.
"""
import itertools

import appcheck
import appsim
from appsim import TPS, CBS
from props import c13

CLOSE_BODY = (b"\x03\xe9" + b"bye").hex()

ENDINGS = {
    "close-body": dict(evs=[[50, 0, "c", CLOSE_BODY]]),
    "close-code": dict(evs=[[50, 0, "c", "03e8"]]),
    "close-empty": dict(evs=[[50, 0, "c", ""]]),
    "close-longest": dict(evs=[[50, 0, "c", (b"\x03\xe8" + b"r" * 123).hex()]]),      # the longest legal close frame: 125 bytes
    "close-utf8": dict(evs=[[0, 0, "c", (b"\x0f\xa0" + "κλείσιμο".encode()).hex()]]),
    "eof": dict(evs=[[50, 0, "e", ""]]),
    "reset": dict(evs=[[50, 0, "r", ""]]),
    "proto": dict(evs=[[50, 0, "x", ""]]),
    "payload": dict(evs=[[50, 0, "y", ""]]),
    "partial-eof": dict(evs=[[20, 0, "h", ""], [30, 0, "e", ""]]),
    "ping-timeout": dict(evs=[], iv=3 * TPS, to=2 * TPS),
    "refused": dict(dial=["R"]),
    "rejected": dict(dial=["J", 403]),
    "silence": dict(evs=[]),
}


def run_of(word, end, rnd=None):
    e = ENDINGS[end]
    if "dial" in e:
        return [e["dial"]]
    return [["E", c13.history(word, rnd) + e["evs"]]]


def scenario(words_ends, plan=None, cbs=appsim.ALL, ssl=False, sched=None, **kw):
    sc = {"cbs": cbs, "ssl": ssl, "runs": [run_of(w, e) for w, e in words_ends], "horizon": 80 * TPS,
          "tag": "+".join(e for _, e in words_ends)}
    for _, e in words_ends:
        for k in ("iv", "to"):
            if k in ENDINGS[e]:
                sc[k] = ENDINGS[e][k]
    if plan:
        sc["plan"] = plan
    if sched:
        sc["sched"] = sched
    sc.update(kw)
    return sc


def cls_of(sc):
    return f"{sc.get('kind', 'end')}:{sc.get('tag', '')[:40]}"


def extra(ctx, sc, r):
    n = appcheck.size_of(sc)
    for i, al in enumerate(r["alive"]):
        if al:
            ctx.violate("clean", appcheck.qualify("ping-thread-alive-at-return", sc), sc, "no simulated thread alive when run_forever returns",
                        f"run {i}: alive={al}", size=n)
    if r["leaked"]:
        ctx.violate("clean", appcheck.qualify("transport-open-and-reachable-after-return", sc), sc, "every transport closed or unreachable",
                    f"open transports still referenced: {r['leaked']}", size=n)
    if r["outcome"][0] == "exc":
        ctx.violate("terminates", appcheck.qualify("harness-main-raised", sc), sc, "main returns", str(r["outcome"]), size=n)
    # a ping timeout is configured (iv > 2*to is the regime C16_detect_partial proves; the scenarios here also use
    # iv = 1.5*to where the unchanged tree still reports, only later): a run whose server falls silent must end by
    # that timeout, it may not sit blocked until the horizon
    if sc.get("to") and sc.get("iv") and r["trace"].endswith(":blocked") and sc.get("kind") in ("rerun", "end", None, "keepalive"):
        ctx.violate("terminates", appcheck.qualify("blocked-although-ping-timeout-configured", sc), sc,
                    "the run ends by the ping/pong timeout", r["trace"][-300:], size=n)


    # once the client has written a close frame (its own close() or the reply to the server's) the run ends: the wait for the
    # peer's close frame is bounded, whatever the peer goes on sending — it may not sit blocked until the horizon
    if sc.get("kind") == "act" and not sc.get("rc") and r["trace"].endswith(":blocked") and ":wrote:8:" in r["trace"]:
        ctx.violate("terminates", appcheck.qualify("blocked-after-own-close-frame", sc), sc,
                    "run_forever returns within the closing handshake's timeout", r["trace"][-300:], size=n)

    # the return value in runs the one-connection Spec does not judge (reconnecting, per-run settings): True exactly when an
    # error of the run was reported to on_error during THIS run
    if sc.get("rc") and sc.get("cbs", appsim.ALL) == appsim.ALL and not sc.get("plan"):
        for seg in _run_segments(r["trace"]):
            ret = next((e for e in seg if e.startswith("ret:")), None)
            if ret is None:
                continue
            reported = any(e.startswith("cb:on_error:e") and not e.startswith("cb:on_error:eUSER") for e in seg)
            if (ret == "ret:1") != reported:
                ctx.violate("return-value", ("false-despite-error-report" if reported else "true-without-error-report") + "@reconnecting-run", sc,
                            f"run_forever returns {reported}", f"{ret}; trace …{r['trace'][-260:]}", size=n)
                break
    if sc.get("kind") == "global-default" and (r["trace"].count(":dial:") > 1 or ":sleep:" in r["trace"] or r["trace"].endswith(":blocked")):
        ctx.violate("terminates", "reconnects-although-reconnect-0-was-passed", sc, "an explicit reconnect=0 ends the run at the first loss",
                    r["trace"][-300:], size=n)


def closer_extra(ctx, sc, r):
    """real-only runs (second thread): the run must end (returned), verdicts come from the Spec."""
    extra(ctx, sc, r)
    n = appcheck.size_of(sc)
    tr = r["trace"]
    if ":ret:" not in tr and ":raised:" not in tr:
        ctx.violate("terminates", appcheck.qualify("second-thread-close-no-return", sc), sc, "run_forever returns", tr[-300:], size=n)
    if ":raised:" in tr:
        ctx.violate("terminates", appcheck.qualify("second-thread-close-raises", sc), sc, "run_forever returns", tr[-300:], size=n)


SITES = [("on_open", 0), ("on_message", 0), ("on_message", 1), ("on_message", 2), ("on_data", 0), ("on_data", 2),
         ("on_ping", 0), ("on_pong", 0), ("on_close", 0)]
TAILS = {
    "reply": [[50, 0, "c", "03e8"]],
    "no-reply": [],
    "data-eof": [[10, 0, "t", "6d"], [10, 0, "p", ""], [2000, 0, "e", ""]],
    "data-reply": [[10, 0, "b", "01"], [2990, 0, "q", ""], [500, 0, "c", "03e8"]],
    "data-late": [[3071, 0, "t", "6d"], [3072, 0, "t", "6e"], [1, 0, "c", ""]],
    # a peer that keeps talking (a frame every second, beyond the horizon of the run) and never answers the close frame: the
    # closing handshake is given up after its 3 s all the same
    "chatter": [[1000, 0, "t", "6d"]] * 90,
}


def scenarios(ctx):
    rnd = ctx.rng("c14")
    scs = []
    alpha = ["t", "T", "p", "q", "b"]
    # (1) every ending x every prefix
    maxlen = 4 if ctx.thorough() else 3
    for end in ENDINGS:
        if "dial" in ENDINGS[end]:
            scs.append(scenario([((), end)]))
            continue
        for n in range(0, maxlen + 1):
            for word in itertools.product(alpha, repeat=n):
                if not ctx.thorough() and n == 3 and end in ("close-code", "close-utf8", "partial-eof", "payload"):
                    continue
                scs.append(scenario([(word, end)], ssl=(n % 2 == 1)))
    for end in ENDINGS:
        if "dial" not in ENDINGS[end]:
            scs.append(scenario([(("t", "p"), end)], cbs=appsim.ALL & ~(1 << CBS.index("on_close"))))
            scs.append(scenario([(("t", "p"), end)], cbs=appsim.ALL & ~(1 << CBS.index("on_error"))))
    # (2) close() / KeyboardInterrupt from each callback at each invocation x server reactions
    word = ["t", "p", "T", "q", "b"]
    for act in ("c", "k"):
        for cb, k in SITES:
            for tname, tail in TAILS.items():
                evs = c13.history(word) + tail
                sc = {"cbs": appsim.ALL, "runs": [[["E", evs]]], "plan": {cb: "o" * k + act}, "horizon": 80 * TPS,
                      "tag": f"{act}@{cb}#{k}|{tname}", "kind": "act"}
                scs.append(sc)
        # from on_error (a callback raised first) and a raising on_error / on_close
        for tname, tail in TAILS.items():
            evs = c13.history(word) + tail
            scs.append({"cbs": appsim.ALL, "runs": [[["E", evs]]], "plan": {"on_message": "or", "on_error": act},
                        "horizon": 80 * TPS, "tag": f"{act}@on_error|{tname}", "kind": "act"})
    for end in ("eof", "close-body", "proto"):
        for pl in ({"on_close": "r"}, {"on_error": "r"}, {"on_error": "rr"}, {"on_close": "r", "on_error": "r"},
                   {"on_close": "k"}, {"on_error": "k"}, {"on_message": "r", "on_error": "r"},
                   {"on_message": "r", "on_error": "rr"}, {"on_message": "r", "on_error": "rrr"}):
            sc = scenario([(("t", "p"), end)], plan=pl)
            sc["kind"] = "raise-in-teardown"
            scs.append(sc)
    # keepalive running while the run ends in various ways (ping thread must be gone), both tie orders
    for end in ("close-body", "eof", "reset", "proto", "silence"):
        for sched in ("", "1", "01", "11"):
            sc = scenario([(("t", "q"), end)], sched=sched)
            sc.update(iv=100, to=None if end != "silence" else 60, kind="keepalive")
            scs.append(sc)
    for cb, k in SITES:
        evs = c13.history(word) + TAILS["data-reply"]
        scs.append({"cbs": appsim.ALL, "runs": [[["E", evs]]], "plan": {cb: "o" * k + "c"}, "iv": 700, "to": 300,
                    "horizon": 80 * TPS, "tag": f"c@{cb}#{k}|keepalive", "kind": "keepalive"})
    # keepalive + reconnection: every connection's ping thread must be gone when run_forever returns (not only the last one's)
    # (these runs are judged by `extra` only — see `reconnect_scenarios`: the Spec's C14 clauses are written for one connection)
    # the process-wide reconnect default (websocket.setReconnect) is set, the caller says `reconnect=0` explicitly: the
    # run must end like any run without reconnection; and with the argument left out the default does apply (ends only
    # by the server's close)
    for end in ("eof", "reset", "proto", "refused", "rejected", "close-body", "close-empty"):
        if end not in ENDINGS:
            continue
        word = () if "dial" in ENDINGS[end] else ("t", "p")
        sc = scenario([(word, end)])
        sc.update(rc_global=5 * TPS, rc_arg=0, kind="global-default", tag=sc["tag"] + "|setReconnect(5)+reconnect=0")
        scs.append(sc)
    # (3) a second run after each ending (and a third), same object
    ends2 = [e for e in ENDINGS if e not in ("silence", "close-utf8", "close-code", "partial-eof")]
    for e1 in ends2:
        for e2 in ends2:
            sc = scenario([(("t",), e1), (("p", "t"), e2)])
            sc["kind"] = "rerun"
            scs.append(sc)
    for e1 in ends2:
        # run 2 ended by the application's own close() from on_message
        n1 = 0 if "dial" in ENDINGS[e1] else 1
        sc = scenario([(("t",), e1), (("t", "t"), "eof")], plan={"on_message": "o" * n1 + "c"})
        sc["kind"] = "rerun-app-close"
        scs.append(sc)
        sc = scenario([(("t",), e1), (("t",), "close-body"), (("t",), "close-empty")])
        sc["kind"] = "rerun3"
        scs.append(sc)
    # random mixtures
    n = 3000 if ctx.thorough() else 120
    for _ in range(n):
        runs = []
        for _ in range(rnd.randint(1, 2)):
            w = [rnd.choice(alpha + ["U", "H"]) for _ in range(rnd.randint(0, 6))]
            runs.append((w, rnd.choice([e for e in ENDINGS if e not in ("silence", "ping-timeout")])))
        plan = {}
        for cb in CBS:
            if rnd.random() < 0.25:
                plan[cb] = "".join(rnd.choice("ooorck") for _ in range(5))
        sc = scenario(runs, plan=plan or None, ssl=rnd.random() < 0.5,
                      cbs=appsim.ALL if rnd.random() < 0.7 else rnd.randrange(256))
        sc["kind"] = "random"
        scs.append(sc)
    return scs


def reconnect_scenarios(ctx):
    from props import c15
    scs = []
    for seq in (("Ee",), ("Er", "Ee"), ("Ee", "R", "Ee")):
        for sched in ("", "1", "01"):
            sc = c15.scenario(seq, 300, "close", ka=True, sched=sched)
            sc.update(iv=4 * TPS, to=TPS, kind="keepalive", tag="reconnect+keepalive:" + "-".join(seq))
            scs.append(sc)
    return scs


def nested_scenarios(ctx):
    """run_forever() called again on the same object from INSIDE on_close (restart-on-close, a common idiom): the inner run works
    and returns, on_close fires for it too, then the outer call returns. Real runs + oracle."""
    scs = []
    inner = [["E", [[80, 0, "t", "696e"], [40, 0, "c", "03e9736563"]]]]
    for end in ([[50, 0, "c", "03e8"]], [[50, 0, "e", ""]], [[50, 0, "t", "6869"], [30, 0, "c", ""]]):
        for kw in ({}, {"iv": 300, "to": 200}):
            sc = {"cbs": appsim.ALL, "runs": [[["E", end]]], "nested_run": inner, "plan": {"on_close": "n"}, "horizon": 40 * TPS,
                  "tag": "nested-run-from-on_close", "kind": "nested"}
            sc.update(kw)
            scs.append(sc)
    return scs


def nested_extra(ctx, sc, r):
    n = appcheck.size_of(sc)
    tr = r["trace"]
    rets = tr.count(":ret:")
    closes = tr.count(":cb:on_close:")
    if rets != 2 or closes != 2 or ":cb:on_close:i1001" not in tr:
        ctx.violate("rerun", "run-restarted-from-on_close-does-not-complete", sc,
                    "inner run: on_open, message, on_close(1001, 'sec'), returns; then the outer call returns",
                    f"{rets} returns, {closes} on_close calls; outcome={r['outcome']} abort={r['abort']}; trace …{tr[-300:]}", size=n)


def skip_scenarios(ctx):
    """`run_forever(skip_utf8_validation=True)`: a close frame whose reason is not UTF-8 is a legal ending then; on_close
    must still be called once, last, with the code.  Real runs + the oracle of `skip_extra` (the model's arguments are
    byte strings; how an undecodable reason is rendered as str is not modelled)."""
    scs = []
    for body in ("03e8fffe", "03e8c3", "0fa0e282", "03e8" + "6f6b", "03e9"):
        for word in ((), ("t",), ("t", "p")):
            sc = {"cbs": appsim.ALL, "skip": True, "runs": [[["E", c13.history(word) + [[50, 0, "c", body]]]]], "horizon": 40 * TPS,
                  "tag": f"skip-utf8|close:{body}", "kind": "skip-utf8"}
            scs.append(sc)
            scs.append(dict(sc, runs=[sc["runs"][0], [["E", [[60, 0, "c", "03e8"]]]]], tag=sc["tag"] + "|rerun"))
    return scs


def skip_extra(ctx, sc, r):
    extra(ctx, sc, r)
    n = appcheck.size_of(sc)
    runs = r["trace"].split(";ret:") if False else None
    items = r["trace"].split(";") if r["trace"] else []
    cbs = [it.partition(":")[2] for it in items if it.partition(":")[2].startswith("cb:")]
    nruns = len(sc["runs"])
    closes = [c for c in cbs if c.startswith("cb:on_close")]
    if len(closes) != nruns:
        ctx.violate("on-close-once", "not-called@skip-utf8-validation" if len(closes) < nruns else "repeated@skip-utf8-validation", sc,
                    f"on_close once per run ({nruns})", f"{len(closes)} calls; trace …{r['trace'][-300:]}", size=n)
        return
    body = bytes.fromhex(sc["runs"][0][0][1][-1][3])
    code = int.from_bytes(body[:2], "big")
    if not closes[0].startswith(f"cb:on_close:i{code},"):
        ctx.violate("close-args", "wrong-code@skip-utf8-validation", sc, f"on_close({code}, <reason>)", closes[0], size=n)
    if any(c.startswith("cb:on_error") for c in cbs):
        ctx.violate("return-value", "error-reported-for-a-close-frame-ending@skip-utf8-validation", sc, "no error report", str(cbs)[-200:], size=n)


def rerun_settings_scenarios(ctx):
    """the same object run again with OTHER keepalive settings (ping_interval / ping_timeout are arguments of each run_forever
    call): the later run behaves like a first run with those settings, whatever the earlier run left unanswered."""
    rnd = ctx.rng("c14-rerun-settings")
    scs = []
    first_runs = {
        # pings at 2·iv, 3·iv, …: the last one is still unanswered when the run ends
        "unanswered-close": [[2300, 0, "t", "6869"], [900, 0, "c", "03e8"]],
        "unanswered-eof": [[3100, 0, "e", ""]],
        "answered-close": [[2050, 0, "q", ""], [1100, 0, "c", "03e8"]],
        "late-pong-eof": [[3500, 0, "q", "6c"], [100, 0, "e", ""]],
    }
    second_runs = {
        "data-close": [[700, 0, "t", "6f6b"], [300, 0, "c", "03e974776f"]],
        "pong-data-close": [[400, 0, "q", ""], [400, 0, "b", "00ff"], [300, 0, "c", "03e8"]],
        "eof": [[900, 0, "p", "70"], [200, 0, "e", ""]],
    }
    kopts = [([1000, None], [0, 500]), ([1000, 400], [0, 300]), ([1000, None], [2000, 700]), ([1000, 400], [0, None]),
             ([0, 300], [1000, 400]), ([1000, None], [1000, None])]
    for fn, fr in first_runs.items():
        for sn, sr in second_runs.items():
            for k1, k2 in kopts:
                for ssl in (False, True):
                    if ssl and not ctx.thorough() and rnd.random() < 0.6:
                        continue
                    scs.append({"cbs": appsim.ALL, "ssl": ssl, "runs": [[["E", fr]], [["E", sr]]], "kopts": [k1, k2],
                                "horizon": 60 * TPS, "tag": f"rerun-settings:{fn}|{sn}", "kind": "rerun-settings"})
    return scs


def _run_segments(trace):
    """callback/outcome events per run (ticks dropped): split after each ret:/raised: item."""
    segs, cur = [], []
    for it in (trace.split(";") if trace else []):
        ev = it.partition(":")[2]
        if ev.startswith(("cb:", "ret:", "raised:")):
            cur.append(ev)
        if ev.startswith(("ret:", "raised:")):
            segs.append(cur)
            cur = []
    if cur:
        segs.append(cur)
    return segs


def rerun_settings_extra(ctx, sc, r):
    """a later run = a first run: the callbacks and the outcome of run k on the re-used object are those of the same run, with
    the same settings, on a fresh object."""
    extra(ctx, sc, r)
    segs = _run_segments(r["trace"])
    k = len(sc["runs"]) - 1
    fresh = dict(sc, runs=[sc["runs"][k]], kopts=[sc["kopts"][k]])
    fr = appcheck.run_real_many([fresh])[0]
    fsegs = _run_segments(fr["trace"])
    if len(segs) <= k or not fsegs or segs[k] != fsegs[0]:
        ctx.violate("rerun-like-first", "later-run-differs-from-a-first-run-with-the-same-settings", sc,
                    f"run {k + 1}: {fsegs[0] if fsegs else None}", f"{segs[k] if len(segs) > k else None}", size=appcheck.size_of(sc))


def closer_scenarios(ctx):
    """second-thread close(): at scripted ticks with both tie orders, and at executed lines of the main loop."""
    scs = []
    base_evs = [[100, 0, "t", "6869"], [100, 0, "p", "70"], [100, 0, "T", "61626364"]]
    tails = {"reply": [[30, 0, "c", "03e8"]], "no-reply": [], "eof": [[500, 0, "e", ""]]}
    for tname, tail in tails.items():
        for t in (0, 1, 99, 100, 101, 200, 250, 300, 330, 331, 5000):
            for sched in ("", "1", "01", "10", "11"):
                for kw in ({}, {"iv": 100, "to": None}, {"iv": 250, "to": 120}):
                    sc = {"cbs": appsim.ALL, "runs": [[["E", base_evs + tail]]], "closer": [t], "sched": sched,
                          "horizon": 30 * TPS, "tag": f"closer@{t}|{tname}", "kind": "closer-tick"}
                    sc.update(kw)
                    scs.append(sc)
    return scs


def line_scenarios(ctx, lines_of):
    rnd = ctx.rng("c14-lines")
    scs = []
    bases = [
        {"runs": [[["E", [[100, 0, "t", "6869"], [100, 0, "p", "70"], [100, 0, "c", "03e8"]]]]]},
        {"runs": [[["E", [[100, 0, "T", "61626364"], [100, 0, "e", ""]]]]], "iv": 150, "to": 70},
        {"runs": [[["E", [[5, 0, "q", ""], [20000, 0, "t", "78"]]]]], "iv": 4 * TPS, "to": 3 * TPS},
    ]
    for bi, b in enumerate(bases):
        total = lines_of(b)
        if ctx.thorough():
            ks = range(total)
        else:
            # the handshake is ~2000 lines; sample it thinly and the loop densely
            tail = list(range(max(0, total - 700), total))
            # … and the END of the run (the last event's read, teardown, the closing handshake, the return) completely: one
            # particular line of teardown is where a second thread's close() hurts
            ending = list(range(max(0, total - 260), total))
            ks = sorted(set(rnd.sample(range(total), min(total, 150)) + rnd.sample(tail, min(len(tail), 350 if bi == 0 else 150)) + ending))
        for k in ks:
            sc = dict(b)
            sc.update(cbs=appsim.ALL, closer_line=k, horizon=40 * TPS, tag=f"line@{k}|base{bi}", kind="closer-line")
            scs.append(sc)
    return scs


def run(ctx):
    ctx.rule = ("every ending (close frame with/without body, eof, reset, protocol/payload error, ping timeout, refused, "
                "rejected, silence) x every prefix over {t,T,p,q,b} to length 3; close()/KeyboardInterrupt from each "
                "callback at each invocation x 5 server reactions; exceptions inside teardown; keepalive on; second and "
                "third runs after each ending; second-thread close() at ticks x tie orders and at executed lines "
                "(non-trivial = any event, plan or second run)")
    corp = [d["input"] for d in appcheck.corpus("C14")]
    if corp:
        second = [sc for sc in corp if sc.get("closer") or sc.get("closer_line") is not None]
        first = [sc for sc in corp if sc not in second]
        appcheck.evaluate(ctx, "C14", first, cls_of=lambda sc: "corpus", extra_check=extra)
        appcheck.evaluate(ctx, "C14", second, cls_of=lambda sc: "corpus", extra_check=closer_extra, model=False)
    appcheck.evaluate(ctx, "C14", scenarios(ctx), cls_of=cls_of, extra_check=extra)
    # reconnecting runs: model correspondence + the resource oracles of `extra` ("C14/resources" matches no Spec tag)
    appcheck.evaluate(ctx, "C14/resources", reconnect_scenarios(ctx), cls_of=cls_of, extra_check=extra)
    appcheck.evaluate(ctx, "C14/rerun-settings", rerun_settings_scenarios(ctx), cls_of=cls_of, extra_check=rerun_settings_extra)
    appcheck.evaluate(ctx, "C14/nested", nested_scenarios(ctx), cls_of=cls_of, extra_check=nested_extra, model=False)
    appcheck.evaluate(ctx, "C14/skip", skip_scenarios(ctx), cls_of=cls_of, extra_check=skip_extra, model=False)
    appcheck.evaluate(ctx, "C14", closer_scenarios(ctx), cls_of=cls_of, extra_check=closer_extra, model=False)

    def lines_of(b):
        sc = dict(b)
        sc.update(cbs=appsim.ALL, closer_line=10 ** 9, horizon=40 * TPS)
        return appcheck.run_real_many([sc])[0]["lines"]
    appcheck.evaluate(ctx, "C14", line_scenarios(ctx, lines_of), cls_of=cls_of, extra_check=closer_extra, model=False)


def search(ctx):
    run(ctx)


def replay(ctx, data):
    if "input" not in data:
        return appcheck.replay_nofail(ctx, data, run)
    sc = data["input"]
    second = bool(sc.get("closer") or sc.get("closer_line") is not None)
    return appcheck.replay_scenario(ctx, "C14", data, extra_check=closer_extra if second else extra)
