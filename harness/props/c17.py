"""C17 — arbitrary server bytes produce only documented exceptions, never hangs, bounded requests.

Frame phase: (C) `m-session` vs the real receive calls on arbitrary byte streams (random, grammar-based with
single-field corruptions / truncation at every offset / oversized declared lengths, exhaustive short
prefixes) followed by end of stream or silence.  (O) on the REAL run: every exception is in the documented
hierarchy (PROTO, PAYLOAD, CLOSED, TIMEOUT) or the transport's own; never INTERNAL(IndexError, KeyError,
ValueError, struct.error, AttributeError, UnicodeDecodeError ...); no size passed to the transport's recv
exceeds the generated cap (16384) whatever length the peer declared; a call never makes a transport call
without consuming an event (progress, counted on the SimSocket); a returned value is the Spec decoding of
the bytes consumed.
Handshake phase: see `run_head` (uses the H2 model when present).
"""
import itertools
import os

import common
import rx
from rx import F

ALLOWED = {"X:PROTO", "X:PAYLOAD", "X:CLOSED", "X:TIMEOUT", "X:TRANSPORT"}


def frame_streams(ctx):
    rnd = ctx.rng("frame-streams")
    out = []
    # exhaustive 1- and 2-byte streams
    for a in range(256):
        out.append(bytes([a]))
    for a in range(256):
        for b in (range(256) if ctx.thorough() else (0, 1, 2, 125, 126, 127, 128, 129, 253, 254, 255)):
            out.append(bytes([a, b]))
    # oversized declared lengths with short bodies
    for b0 in (0x81, 0x82, 0x88, 0x89, 0x8a, 0x01, 0x80):
        for ln in (1 << 16, 1 << 31, 1 << 32, (1 << 63) - 1, 1 << 63, (1 << 64) - 1):
            out.append(bytes([b0, 127]) + ln.to_bytes(8, "big") + b"short")
            out.append(bytes([b0, 255]) + ln.to_bytes(8, "big") + b"\x01\x02\x03\x04short")
        out.append(bytes([b0, 126]) + b"\xff\xff" + b"x" * 10)
    # valid traffic: truncated at every offset, single-byte corruptions
    base = [F(1, "héllo".encode()), F(9, b"pi"), F(2, b"\x00\x01\x02", fin=0), F(0, b"\x03"), F(8, b"\x03\xe8bye")]
    good = b"".join(f.enc() for f in base)
    for k in range(len(good) + 1):
        out.append(good[:k])
    for k in range(len(good)):
        for v in (0x00, 0x7f, 0x80, 0xff, good[k] ^ 0x10, good[k] ^ 0x01):
            out.append(good[:k] + bytes([v]) + good[k + 1:])
    # well-framed TEXT messages whose payload is NOT UTF-8 (bad byte, truncated tail, bad continuation across the cut),
    # unfragmented and cut into 2-3 fragments with and without a ping in between
    bad_texts = [b"a\xffb", b"caf\xc3", b"\xe2\x82", b"\xc3(", b"ok\xed\xa0\x80", b"\xf0\x9f\x98", b"\x80", b"x\xc0\x80y"]
    for bt in bad_texts:
        out.append(F(1, bt).enc() + F(2, b"next").enc())
        for cut in range(0, len(bt) + 1):
            out.append(F(1, bt[:cut], fin=0).enc() + F(0, bt[cut:]).enc() + F(2, b"next").enc())
            out.append(F(1, bt[:cut], fin=0).enc() + F(9, b"p").enc() + F(0, b"", fin=0).enc() + F(0, bt[cut:]).enc())
    n = 6000 if ctx.thorough() else 800
    for _ in range(n):
        r = rnd.random()
        if r < 0.4:
            out.append(bytes(rnd.randrange(256) for _ in range(rnd.randint(1, 40))))
        elif r < 0.8:
            frames = []
            for _ in range(rnd.randint(1, 4)):
                frames.append(F(rnd.choice([0, 1, 2, 8, 9, 10, rnd.randrange(16)]), rx.payload(rnd, rnd.choice([0, 1, 2, 3, 125, 126, 200]), "bin"),
                                fin=rnd.randint(0, 1), rsv=rnd.choice([0, 0, 0, rnd.randrange(8)])))
            rx.randomize_encoding(rnd, frames, 0.3, 0.3)
            s = b"".join(f.enc() for f in frames)
            if rnd.random() < 0.5:
                s = s[:rnd.randint(0, len(s))]
            out.append(s)
        else:
            s = bytearray(good)
            for _ in range(rnd.randint(1, 3)):
                s[rnd.randrange(len(s))] = rnd.randrange(256)
            out.append(bytes(s))
    return out


def run_frames(ctx):
    rnd = ctx.rng("cfg")
    sessions, meta = [], []
    for s in frame_streams(ctx):
        for tail in (("eof", "timeout") if len(s) <= 2 else (rnd.choice(["eof", "timeout"]),)):
            api = rnd.choice(["recv", "recvdata:1", "rdf:1", "rf", "recvdata:0"])
            # recv() decodes text to str: with per-fragment delivery a fragment may end inside a code point, with validation
            # off the message may be ill-formed — the call must still raise a documented exception (C17_recv_no_internal)
            cfg = {"tail": tail, "to": rnd.choice([1000, 1000, 0, None]), "skip": rnd.choice([0, 0, 1]), "fire": rnd.choice([0, 0, 1])}
            if len(s) > 3 and rnd.random() < 0.3:
                cut = sorted(rnd.sample(range(1, len(s)), min(len(s) - 1, rnd.randint(1, 3))))
                pts = [0] + cut + [len(s)]
                ev = [("chunk", s[a:b]) for a, b in zip(pts, pts[1:])]
            else:
                ev = [("chunk", s)] if s else []
            sessions.append((cfg, ev, [api] * 4))
            meta.append((s, tail, api))
    # directed: undecodable text reaching the str-returning call, in every configuration
    for s in (b"\x01\x02\xe3\x81\x80\x01\x82", b"\x81\x01\xff", b"\x81\x02\xc3\x28", b"\x01\x01\xf0\x00\x01\x9f\x80\x02\x98\x80",
              b"\x81\x03\xed\xa0\x80", b"\x01\x03ab\xc3\x89\x00\x80\x01\xa9"):
        for fire in (0, 1):
            for skip in (0, 1):
                for tail in ("eof", "timeout"):
                    sessions.append(({"tail": tail, "to": 1000, "skip": skip, "fire": fire}, [("chunk", s)], ["recv"] * 4))
                    meta.append((s, tail, "recv"))
    # directed: LONG valid input one receive call has to work through before it can return — thousands of pongs, of pings
    # it answers, of empty non-final fragments: still a value or a documented exception, however long the run
    for filler in (F(10, b"").enc(), F(9, b"k").enc(), F(10, b"po").enc()):
        for n in (1100, 3000):
            s_ = filler * n + F(1, b"done").enc()
            for api in ("recv", "recvdata:0", "rdf:0"):
                sessions.append(({"tail": "eof", "to": 1000}, [("chunk", s_)], [api] * 2))
                meta.append((s_, "eof", api))
    s_ = F(2, b"", fin=0).enc() + F(0, b"", fin=0).enc() * 3000 + F(0, b"end", fin=1).enc()
    for api in ("recv", "recvdata:0"):
        sessions.append(({"tail": "eof", "to": 1000}, [("chunk", s_)], [api] * 2))
        meta.append((s_, "eof", api))
    res = rx.run_sessions(ctx, "session:arbitrary-bytes", sessions)
    for (s, tail, api), (impl, model, ws, sock, line) in zip(meta, res):
        outs = rx.results(impl)
        kinds = sorted(set(o for o in outs if o.startswith("X:")))
        ctx.case(key=line, nontrivial=len(s) > 0, cls=f"frame-phase:tail={tail}:api={api}:exn={'+'.join(k[2:] for k in kinds) or 'none'}",
                 sample={"stream": s.hex()[:80], "tail": tail, "api": api, "impl": impl[:200]} if len(ctx.samples) < 6 and len(s) > 10 else None)
        inp = {"op": line if len(line) < 300 else line[:300] + "...", "stream": s.hex()[:200], "tail": tail, "api": api}
        if "X:SPIN" in outs:
            ctx.violate("progress", "spins-at-end-of-stream", inp, "CLOSED when the stream has ended", "keeps reading the ended stream", size=len(s))
            continue
        for o in outs:
            if o.startswith("X:") and o not in ALLOWED:
                ctx.violate("only-documented-exceptions", "frame-phase-" + o[2:], inp, "PROTO/PAYLOAD/CLOSED/TIMEOUT or transport error", o, size=len(s))
                break
        # progress also means: a rejected frame is consumed. The same protocol error again from a call that touched the
        # transport not at all is the old frame judged twice (its bytes are gone, the next call must read on)
        sts = rx.states(impl)
        for a, b in zip(sts, sts[1:]):
            if a[0] == "X:PROTO" and b[0] == "X:PROTO" and a[2] == b[2]:
                ctx.violate("progress", "protocol-error-repeated-without-reading", inp,
                            "after a rejected frame the next call reads the bytes that follow", impl[:200], size=len(s))
                break
        mx = max(sock.recv_sizes) if sock.recv_sizes else 0
        if mx > 16384:
            ctx.violate("request-sizes-bounded", "recv-size-from-declared-length", inp, "<= 16384", str(mx), size=len(s))
        # progress: each recv call on the transport either returned data or raised; count bounded by bytes + calls
        if len(sock.recv_sizes) > len(s) + 4 * 4 + 4:
            ctx.violate("progress", "spins-without-consuming", inp, f"<= {len(s) + 20} transport reads", str(len(sock.recv_sizes)), size=len(s))


def run(ctx):
    ctx.rule = ("frame phase: all 1-byte and (sampled/all) 2-byte streams, oversized declared lengths (2^16..2^64-1) with short bodies, "
                "valid traffic truncated at every offset and with single-byte corruptions, random bytes, random frame mixes; "
                "each followed by end of stream or silence; 4 calls of recv/recv_data/recv_data_frame/recv_frame. "
                "handshake phase: response heads (status lines over a small alphabet, corrupted/truncated valid heads, "
                "Content-Length cases). transport glue: `_socket.recv` / `_socket.send` over the whole product {blocking, non-blocking} x "
                "first transport outcome x select ready/empty x second outcome. non-trivial = non-empty stream")
    run_frames(ctx)
    try:
        from props import c17_head
    except ImportError:
        c17_head = None
    if c17_head is not None:
        c17_head.run_head(ctx)
    from props import c17_glue
    c17_glue.run_glue(ctx)


def search(ctx):
    run(ctx)


def replay(ctx, data):
    sub = common.Ctx(ctx.prop, "quick", ctx.seed)
    run(sub)
    for v in sub.violations:
        if v["clause"] == data["clause"] and v["cause"] == data["cause"]:
            ctx.violations.append(v)
            return False
    return True
