"""C11 — TLS peers are authenticated by default; only explicit options relax it (decision logic and
ordering; certificate / host-name verification itself is OpenSSL's and is trusted).

(C) unit `m-tls-policy` vs the real `_ssl_socket` with a recording subclass of the *real*
    `ssl.SSLContext` (CPython's own attribute semantics for check_hostname / verify_mode) over every
    combination of cert_reqs x check_hostname x ca_certs x ca_cert_path x env bundle x
    server_hostname x context; e2e `m-connect` timelines for {ws, wss} x {direct, tunnel}.
(O) the context the real code built is compared with the Lean Spec `s-tls-policy` (written from the
    documentation); in the e2e timelines no handshake byte is written on a wss transport unless a
    successful wrap with the Spec's policy precedes it, the proxy CONNECT is the only plaintext,
    and a ws transport is never wrapped.
thorough: loopback TLS servers with certificates minted by the `openssl` CLI (trusted / untrusted CA
    x matching / non-matching name): defaults must reject the three bad combinations before any
    request byte reaches the server; each relaxing option flips exactly its own case.
"""
import itertools
import re
import json
import os
import ssl
import subprocess
import tempfile
import threading

import common
import h2lib
from h2lib import Case, DialSpec, response, good_headers, key_of, run_real, model_line, sslopt_arg, tlsenv_arg, case_json, case_back
from simnet_h2 import hx, hopt, Net, H2Socket, RecContext

CERTS = [None, ssl.CERT_NONE, ssl.CERT_OPTIONAL, ssl.CERT_REQUIRED]
CHECKS = [None, True, False]
CAFILES = [None, "/etc/ca.pem", ""]
CAPATHS = [None, "/etc/capath"]
ENVS = [None, ("file", "/env/bundle.pem"), ("dir", "/env/certs"), ("missing", "/env/nothing"), ("empty", "")]
SNIS = [None, "sni.example", ""]
CTXS = [False, True]


def mk(cert, chk, caf, cap, env, sni, ctx_):
    so = {}
    if cert is not None:
        so["cert_reqs"] = cert
    if chk is not None:
        so["check_hostname"] = chk
    if caf is not None:
        so["ca_certs"] = caf
    if cap is not None:
        so["ca_cert_path"] = cap
    if sni is not None:
        so["server_hostname"] = sni
    if ctx_:
        so["context"] = h2lib.user_context(7)
    e, isfile, isdir = {}, (), ()
    if env is not None:
        e = {"WEBSOCKET_CLIENT_CA_BUNDLE": env[1]}
        if env[0] == "file":
            isfile = (env[1],)
        if env[0] == "dir":
            isdir = (env[1],)
    return so, e, isfile, isdir


def real_policy(so, env, isfile, isdir, host):
    from websocket import _http
    net = Net([DialSpec()], env=env, isfile=isfile, isdir=isdir)
    with net:
        net.call_index = 0
        s = H2Socket(net, 0, DialSpec())
        try:
            _http._ssl_socket(s, so, host)
            return net.wraps[-1]["policy"], net
        except Exception as e:  # noqa
            return "exn " + common.canon_exc(e), net


def component_diff(spec, real):
    if spec == "refused" or real.startswith("exn"):
        return "refusal-differs"
    a, b = spec.split("/"), real.split("/")
    if a[0] != b[0]:
        return "context-kind"
    if a[0] == "user":
        return "sni" if a[2] != b[2] else "user-context"
    names = ["kind", "verify-mode", "check-hostname", "ca-source", "sni"]
    for n, x, y in zip(names, a, b):
        if x != y:
            return n
    return "other"


def run_units(ctx):
    lines_m, lines_s, obs, ins = [], [], [], []
    for t in itertools.product(CERTS, CHECKS, CAFILES, CAPATHS, ENVS, SNIS, CTXS):
        so, env, isfile, isdir = mk(*t)
        host = "url-host.example"
        real, net = real_policy(so, env, isfile, isdir, host)
        arg = f"{sslopt_arg(so)} {tlsenv_arg(env, isfile, isdir)} {hx(host)}"
        lines_m.append("m-tls-policy " + arg)
        lines_s.append("s-tls-policy " + arg)
        obs.append(real)
        ins.append({"sslopt": sslopt_arg(so), "env": env, "isfile": list(isfile), "isdir": list(isdir), "host": host,
                    "tuple": [str(x) for x in t]})
        ctx.case(key=("unit", arg), nontrivial=any(x not in (None, False) for x in t),
                 cls=f"unit:cert={h2lib.CERT[t[0]]}:chk={t[1]}:ctx={int(t[6])}:{real.split('/')[0][:8]}",
                 sample={"sslopt": sslopt_arg(so), "env": env, "real": real} if len(ctx.samples) < 4 and t[0] is not None and t[4] else None)
    # keys that are PRESENT with the value None (the pass-through idiom sslopt={"ca_certs": cfg.get("cafile"), ...}): the policy
    # is the one of the absent key — in particular the environment's CA bundle still applies
    for t in itertools.product(CERTS, CHECKS, CAFILES[:2], CAPATHS, ENVS[:4], SNIS[:2], CTXS):
        so, env, isfile, isdir = mk(*t)
        added = [k for k in ("ca_certs", "ca_cert_path", "server_hostname", "context") if k not in so]
        if not added:
            continue
        arg = f"{sslopt_arg(so)} {tlsenv_arg(env, isfile, isdir)} {hx('url-host.example')}"
        so = dict(so, **{k: None for k in added})
        real, net = real_policy(so, env, isfile, isdir, "url-host.example")
        lines_m.append("m-tls-policy " + arg)
        lines_s.append("s-tls-policy " + arg)
        obs.append(real)
        ins.append({"sslopt": sslopt_arg(so), "keys_present_with_None": added, "env": env, "isfile": list(isfile), "isdir": list(isdir),
                    "host": "url-host.example", "tuple": [str(x) for x in t]})
        ctx.case(key=("unit-none", arg), nontrivial=True, cls=f"unit:none-valued-keys:cert={h2lib.CERT[t[0]]}:env={t[4][0] if t[4] else None}")
    # address-literal hosts (IPv4, IPv6): the same policy, the literal is the name that is checked
    for host in ("127.0.0.1", "10.1.2.3", "::1", "fe80::1", "1.2.3.4.example"):
        for t in itertools.product(CERTS, CHECKS, [None], [None], [None], SNIS[:2], [False]):
            so, env, isfile, isdir = mk(*t)
            real, net = real_policy(so, env, isfile, isdir, host)
            arg = f"{sslopt_arg(so)} {tlsenv_arg(env, isfile, isdir)} {hx(host)}"
            lines_m.append("m-tls-policy " + arg)
            lines_s.append("s-tls-policy " + arg)
            obs.append(real)
            ins.append({"sslopt": sslopt_arg(so), "env": env, "isfile": list(isfile), "isdir": list(isdir), "host": host,
                        "tuple": [str(x) for x in t]})
            ctx.case(key=("unit-ip", arg), nontrivial=True, cls=f"unit:address-literal-host:cert={h2lib.CERT[t[0]]}:chk={t[1]}")
    # the same products with `ssl_version` naming a legacy protocol constant (such a context STARTS unverified):
    # the policy must be what it is without the option
    import warnings
    for ver in (ssl.PROTOCOL_TLS, ssl.PROTOCOL_TLSv1_2, ssl.PROTOCOL_TLS_CLIENT):
        for t in itertools.product(CERTS, CHECKS, CAFILES[:2], [None], ENVS[:2], SNIS[:2], [False]):
            so, env, isfile, isdir = mk(*t)
            so = dict(so or {}, ssl_version=ver)
            host = "url-host.example"
            with warnings.catch_warnings():
                warnings.simplefilter("ignore")
                real, net = real_policy(so, env, isfile, isdir, host)
            arg = f"{sslopt_arg(so)} {tlsenv_arg(env, isfile, isdir)} {hx(host)}"
            lines_m.append("m-tls-policy " + arg)
            lines_s.append("s-tls-policy " + arg)
            obs.append(real)
            ins.append({"sslopt": sslopt_arg(so), "ssl_version": str(ver), "env": env, "isfile": list(isfile), "isdir": list(isdir),
                        "host": host, "tuple": [str(x) for x in t]})
            ctx.case(key=("unit-ver", arg), nontrivial=True, cls=f"unit:ssl_version={'client' if ver == ssl.PROTOCOL_TLS_CLIENT else 'legacy'}:cert={h2lib.CERT[t[0]]}:chk={t[1]}")
    out = common.run_driver_parallel(lines_m + lines_s)
    mo, so_ = out[:len(lines_m)], out[len(lines_m):]
    for inp, m, s, r in zip(ins, mo, so_, obs):
        mm = m if not m.startswith("exn") else m
        if mm != r:
            ctx.diverge("unit:tls-policy", inp, m, r)
        real_n = "refused" if r.startswith("exn VALUEERROR") else r
        if s != real_n:
            # a path that is both file and directory cannot exist; the Spec states it as a hypothesis
            ctx.violate("policy-as-documented", component_diff(s, r), inp, s, r, size=len(json.dumps(inp)))
    ctx.traces_vs_impl += len(lines_m)


def run_reuse(ctx):
    """successive connects that reuse ONE caller-owned sslopt dict while the CA-bundle environment changes: the
    policy of every connect is the Spec's for (the caller's options as given, the environment at that moment),
    and the caller's dict is left as it was."""
    import copy
    seqs = []
    envs = [None, ("file", "/env/a.pem"), ("file", "/env/b.pem"), ("dir", "/env/capath")]
    for t0 in itertools.product([None, ssl.CERT_REQUIRED], [None, False], [None, "/opt/ca.pem"]):
        for e1 in envs:
            for e2 in envs:
                if e1 != e2:
                    seqs.append((t0, [e1, e2, e1]))
    lines_s, obs, ins = [], [], []
    for (cert, chk, caf), es in seqs:
        so, _, _, _ = mk(cert, chk, caf, None, None, None, False)
        given = copy.deepcopy(so)
        for step, envk in enumerate(es):
            _, env, isfile, isdir = mk(None, None, None, None, envk, None, False)
            host = "url-host.example"
            real, net = real_policy(so, env, isfile, isdir, host)          # the SAME dict object every time
            arg = f"{sslopt_arg(given)} {tlsenv_arg(env, isfile, isdir)} {hx(host)}"
            lines_s.append("s-tls-policy " + arg)
            obs.append(real)
            ins.append({"op": "successive _ssl_socket calls sharing one sslopt dict", "sslopt_given": sslopt_arg(given),
                        "env_sequence": [str(e) for e in es], "step": step, "dict_after": sslopt_arg(so)})
            ctx.case(key=("reuse", sslopt_arg(given), tuple(map(str, es)), step), nontrivial=step > 0, cls=f"reuse:step={step}")
        if so != given:
            ctx.violate("options-affect-only-their-own-connect", "caller-sslopt-dict-modified", ins[-1], sslopt_arg(given), sslopt_arg(so),
                        size=len(es))
    out = common.run_driver_parallel(lines_s)
    for inp, s_, r in zip(ins, out, obs):
        real_n = "refused" if r.startswith("exn VALUEERROR") else r
        if s_ != real_n:
            ctx.violate("policy-as-documented", "stale-" + component_diff(s_, r) + "-after-earlier-connect", inp, s_, r, size=10 + inp["step"])


def run_app_runs(ctx):
    """the application object: `sslopt` is an argument of each run_forever() call.  Several runs on ONE WebSocketApp, each
    with its own sslopt (relaxed, absent, None, {}), reconnecting runs included: the options that reach the TLS wrap of a
    connection are the ones of THE RUN it belongs to — judged by the Spec policy of (received options) vs (that run's
    options).  Real runs under the virtual-time scheduler; oracle only."""
    import appsim
    rnd = ctx.rng("app-runs")
    relaxed = [{"cert_reqs": ssl.CERT_NONE, "check_hostname": False}, {"cert_reqs": ssl.CERT_NONE}, {"check_hostname": False},
               {"ca_certs": "/etc/other.pem"}]
    plain = [None, {}, "absent"]
    scs = []
    for it in range(60 if ctx.thorough() else 18):
        nruns = rnd.randint(2, 3)
        opts = []
        for ri in range(nruns):
            opts.append(rnd.choice(relaxed) if (ri + it) % 2 == 0 else rnd.choice(plain))
        rc = rnd.choice([0, 0, 2])
        runs = []
        for ri in range(nruns):
            conn = ["E", [[10, 0, "t", "6f6b"], [10, 0, "e", ""]]]
            runs.append([conn, ["E", [[10, 0, "c", "03e8"]]]] if rc else [conn])
        scs.append({"cbs": appsim.ALL, "ssl": 1, "runs": runs, "rc": rc, "iv": 0, "to": None, "payload": "", "plan": {}, "sched": "",
                    "sslopts": [None if o == "absent" else o for o in opts], "_absent": [o == "absent" for o in opts]})
    lines, meta = [], []
    for sc in scs:
        sc2 = {k: v for k, v in sc.items() if not k.startswith("_")}
        # "absent": the keyword is not passed at all in that run
        if any(sc["_absent"]):
            sc2["sslopts"] = [("__absent__" if a else o) for a, o in zip(sc["_absent"], sc["sslopts"])]
        try:
            r = appsim.run_real(dict(sc2, sslopts=[None if o == "__absent__" else o for o in sc2["sslopts"]]))
        except Exception as e:  # noqa
            ctx.diverge("app-runs:harness", sc2, "a run", "harness error " + repr(e)[:200])
            continue
        ctx.case(key=("app-runs", json.dumps(sc2, sort_keys=True, default=str)), nontrivial=True,
                 cls=f"app-runs:runs={len(sc['runs'])}:rc={int(bool(sc['rc']))}:wraps={min(len(r.wraps), 4)}")
        for ri, got, host in r.wraps:
            want = sc["sslopts"][ri] or {}
            lines.append(f"s-tls-policy {sslopt_arg(got)} {tlsenv_arg(None, (), ())} {hx(host)}")
            lines.append(f"s-tls-policy {sslopt_arg(want)} {tlsenv_arg(None, (), ())} {hx(host)}")
            meta.append((sc2, ri, got, want))
        if not r.wraps:
            ctx.diverge("app-runs:harness", sc2, "at least one TLS wrap", "none recorded: " + r.trace[:200])
    out = common.run_driver_parallel(lines)
    for k, (sc2, ri, got, want) in enumerate(meta):
        pg, pw = out[2 * k], out[2 * k + 1]
        if pg != pw:
            ctx.violate("options-affect-only-their-own-connect", "run-" + component_diff(pw, pg) + "-from-another-run-of-the-same-app",
                        {"op": "several run_forever(sslopt=...) calls on one WebSocketApp", "sslopt_per_run": [sslopt_arg(o) if o != "__absent__" else "absent" for o in sc2["sslopts"]],
                         "reconnect": sc2["rc"], "run": ri, "options_that_reached_the_wrap": sslopt_arg(got)}, pw, pg, size=len(sc2["runs"]) + 2)


def gen_e2e(ctx):
    rnd = ctx.rng("e2e")
    sslopts = [None, {"cert_reqs": ssl.CERT_NONE}, {"check_hostname": False}, {"ca_certs": "/etc/ca.pem"},
               {"server_hostname": "sni.example"}, {"cert_reqs": ssl.CERT_NONE, "check_hostname": True},
               {"cert_reqs": ssl.CERT_OPTIONAL, "ca_cert_path": "/p"}, {"context": "user"}]
    for scheme in ("ws", "wss"):
        for tunnel in (False, True):
            for so in sslopts:
                for wrap in ("ok", "TRANSPORT"):
                    for envk in (None, ("file", "/env/bundle.pem")):
                        for chain in (False, True, "same-endpoint"):
                            rand = bytes(rnd.randrange(256) for _ in range(32))
                            k0, k1 = key_of(rand[:16]), key_of(rand[16:])
                            pre = [("chunk", b"HTTP/1.1 200 Connection established\r\n\r\n")] if tunnel else []
                            s2 = dict(so) if so else None
                            if s2 and s2.get("context") == "user":
                                s2["context"] = h2lib.user_context(3)
                            _, env, isfile, isdir = mk(None, None, None, None, envk, None, False)
                            url = f"{scheme}://first.example/y"
                            if chain == "same-endpoint":
                                # the redirect changes the SCHEME but not host and port: the target's scheme decides about TLS
                                url = "ws://first.example:443/y" if scheme == "ws" else "wss://first.example:80/y"
                                loc = "wss://first.example/z" if scheme == "ws" else "ws://first.example/z"
                            elif chain:
                                loc = "wss://second.example:8443/z" if scheme == "ws" else "ws://second.example/z"
                            if chain:
                                dials = [DialSpec(pre + [("chunk", response("302", [("Location", loc)], reason="Found"))],
                                                  rand=rand[:16], wrap="ok"),
                                         DialSpec(pre + [("chunk", response("101", good_headers(k1)))], rand=rand[16:], wrap=wrap)]
                                locs = [loc]
                            else:
                                dials = [DialSpec(pre + [("chunk", response("101", good_headers(k0)))], rand=rand[:16], wrap=wrap)]
                                locs = []
                            yield Case(url, dials, sslopt=s2, env=env, isfile=isfile, isdir=isdir,
                                       proxy=("proxy.local", 3128, None) if tunnel else None, locations=locs,
                                       tag=f"e2e:{scheme}:{'tunnel' if tunnel else 'direct'}:{wrap}:{chain if chain == 'same-endpoint' else 'chain' if chain else 'one'}")
                            if scheme == "wss" and envk is None and chain is not True:
                                # a custom Host header (`host=` option: virtual hosting behind one address) names what the REQUEST
                                # asks for; the peer that TLS authenticates is still the URL's host
                                for hv in ("vhost.other.example", "vhost.other.example:8443"):
                                    import copy
                                    d2 = [DialSpec(list(d.events), tail=d.tail, addr=d.addr, wrap=d.wrap, rand=d.rand, sends_left=d.sends_left) for d in dials]
                                    yield Case(url, d2, sslopt=s2, env=env, isfile=isfile, isdir=isdir, options={"host": hv},
                                               proxy=("proxy.local", 3128, None) if tunnel else None, locations=locs,
                                               tag=f"e2e:{scheme}:{'tunnel' if tunnel else 'direct'}:{wrap}:{'same-endpoint' if chain else 'one'}:host-option")


def judge_order(ctx, case, run, spec_pol):
    """ordering clauses on the real timeline"""
    inp = case_json(case)
    size = len(json.dumps(inp))
    from websocket._url import parse_url
    urls = [case.url] + case.locations
    wrapped_ok = {}
    plain_seen = {}
    for e in run.net.timeline:
        kind, rest = e[0], e[1:]
        if kind == "W":
            idx = int(rest.split(":")[0])
            pol, ok = rest.split(":")[1], rest.split(":")[2]
            secure = parse_url(urls[idx])[3] if idx < len(urls) else None
            if ok == "1":
                wrapped_ok[idx] = pol
            exp = spec_pol.get(idx)
            if exp is not None and pol != exp:
                ctx.violate("policy-as-documented", h2_component(exp, pol), inp, exp, pol, size)
        elif kind == "P" and "w:" in rest:
            idx = int(rest.split("w:")[0])
            w = [x for x in run.net.writes if x[0] == idx and x[1] == "P"]
            if not w or not w[0][2].startswith(b"CONNECT "):
                ctx.violate("tls-before-data", "plaintext-other-than-connect", inp, "CONNECT is the only plaintext", e, size)
            if idx in wrapped_ok:
                ctx.violate("tls-before-data", "connect-after-wrap", inp, "CONNECT precedes the wrap", e, size)


def judge_requests(ctx, case, run):
    """every upgrade request goes out on a transport that fits ITS URL's scheme: a wss target's request only through a
    wrapped transport, whatever connection an earlier hop of a redirect chain left behind."""
    from websocket._url import parse_url
    inp = case_json(case)
    urls = [case.url] + case.locations
    wrapped = set()
    for e in run.net.timeline:
        if e[0] == "W" and e[1:].split(":")[2] == "1":
            wrapped.add(int(e[1:].split(":")[0]))
    for idx, kind, data in [(x[0], x[1], x[2]) for x in run.net.writes]:
        if kind != "I" or not bytes(data).startswith(b"GET "):
            continue
        target = bytes(data).split(b" ", 2)[1].decode("latin-1")
        for u in urls:
            try:
                h, p_, res, sec = parse_url(u)
            except Exception:  # noqa
                continue
            if res == target and sec and idx not in wrapped:
                ctx.violate("tls-before-data", "wss-request-on-a-transport-that-was-never-wrapped", inp,
                            f"the request for {u} goes through TLS", f"GET {target} written on plain transport #{idx}",
                            len(json.dumps(inp)))
                return
            if res == target and not sec and idx in wrapped and not any(
                    parse_url(v)[2] == target and parse_url(v)[3] for v in urls):
                ctx.violate("tls-before-data", "ws-request-inside-the-tls-session-of-another-url", inp,
                            f"the request for {u} goes out on its own plain connection", f"GET {target} written on wrapped transport #{idx}",
                            len(json.dumps(inp)))
                return


def timeline_tokens(case, run):
    """the real timeline in the vocabulary of the ordering Spec (`s-order-ok`)"""
    from websocket._url import parse_url
    urls = [case.url] + case.locations
    out = []
    for e in run.net.timeline:
        k = e[0]
        if k == "D":
            i = int(e[1:])
            h, p, r, sec = parse_url(urls[i]) if i < len(urls) else ("?", 0, "", False)
            out.append(f"D:{i}:{int(bool(sec))}:{hx(h)}")
        elif k == "A":
            out.append(f"A:{int(e[1:])}")
        elif k == "C":
            out.append(f"C:{int(e[1:])}")
        elif k == "W":
            i, pol, ok = e[1:].split(":")
            out.append(f"W:{i}:{pol}:{ok}")
        elif k in "IP":
            m = re.match(r"[IP](\d+)([wr])", e)
            out.append(f"{k}{m.group(2)}:{m.group(1)}")
    return ";".join(out) if out else "_"


def h2_component(exp, pol):
    return component_diff(exp, pol)


def run_e2e(ctx):
    cases = list(gen_e2e(ctx))
    lines, obs, spec_lines, spec_idx = [], [], [], []
    runs = []
    from websocket._url import parse_url
    for case in cases:
        r = run_real(case)
        runs.append(r)
        lines.append(model_line(case))
        obs.append(r.obs)
        urls = [case.url] + case.locations
        for i, u in enumerate(urls):
            h, p, res, sec = parse_url(u)
            if sec:
                spec_lines.append(f"s-tls-policy {sslopt_arg(case.sslopt)} {tlsenv_arg(case.env, case.isfile, case.isdir)} {hx(h)}")
                spec_idx.append((len(runs) - 1, i))
        ctx.case(key=("e2e", case.tag, sslopt_arg(case.sslopt), json.dumps(case.env)), nontrivial=True, cls=case.tag + ":" + r.res.split("(")[0])
    order_lines = [f"s-order-ok {sslopt_arg(c.sslopt)} {tlsenv_arg(c.env, c.isfile, c.isdir)} {timeline_tokens(c, r)}"
                   for c, r in zip(cases, runs)]
    out = common.run_driver_parallel(lines + spec_lines + order_lines)
    mo, so, oo = out[:len(lines)], out[len(lines):len(lines) + len(spec_lines)], out[len(lines) + len(spec_lines):]
    for case, l, m, o in zip(cases, lines, mo, obs):
        if m != o:
            ctx.diverge("e2e:connect-tls", {"case": case_json(case)}, m, o)
    for case, r, v in zip(cases, runs, oo):
        if v != "1":
            clause = v.split(":", 1)[1] if ":" in v else "tls-before-data"
            cause = "request-written-before-wrap" if clause == "tls-before-data" else "ws-transport-wrapped"
            inp = case_json(case)
            ctx.violate(clause, cause, inp, "Spec.Tls.orderedB / wsNeverWrapped accept the timeline", r.net.trace()[:300],
                        len(json.dumps(inp)))
    pols = {}
    for (ri, i), s in zip(spec_idx, so):
        pols.setdefault(ri, {})[i] = s
    for ri, (case, r) in enumerate(zip(cases, runs)):
        judge_order(ctx, case, r, pols.get(ri, {}))
        judge_requests(ctx, case, r)
    ctx.traces_vs_impl += len(lines)


# ---- support run: real TLS on loopback (thorough) --------------------------------------------------

def mint(d):
    """two CAs, server certs for localhost signed by each; returns paths"""
    def sh(*a):
        subprocess.run(a, cwd=d, check=True, stdout=subprocess.DEVNULL, stderr=subprocess.DEVNULL)
    for ca in ("good", "evil"):
        sh("openssl", "req", "-x509", "-newkey", "rsa:2048", "-nodes", "-keyout", f"{ca}-ca.key", "-out", f"{ca}-ca.pem",
           "-subj", f"/CN={ca} test CA", "-days", "2")
        for name in ("localhost", "other.example"):
            sh("openssl", "req", "-newkey", "rsa:2048", "-nodes", "-keyout", f"{ca}-{name}.key", "-out", f"{ca}-{name}.csr",
               "-subj", f"/CN={name}")
            with open(os.path.join(d, f"{ca}-{name}.ext"), "w") as f:
                f.write(f"subjectAltName=DNS:{name}\n")
            sh("openssl", "x509", "-req", "-in", f"{ca}-{name}.csr", "-CA", f"{ca}-ca.pem", "-CAkey", f"{ca}-ca.key",
               "-CAcreateserial", "-out", f"{ca}-{name}.pem", "-days", "2", "-extfile", f"{ca}-{name}.ext")


class TlsServer(threading.Thread):
    """accepts one TLS connection, records the plaintext it receives after the handshake"""

    def __init__(self, cert, key):
        super().__init__(daemon=True)
        import socket
        self.ctx = ssl.SSLContext(ssl.PROTOCOL_TLS_SERVER)
        self.ctx.load_cert_chain(cert, key)
        self.lsock = socket.socket()
        self.lsock.bind(("127.0.0.1", 0))
        self.lsock.listen(1)
        self.lsock.settimeout(5)
        self.port = self.lsock.getsockname()[1]
        self.received = b""
        self.raw_first = b""
        self.handshake_ok = False

    def run(self):
        import socket
        try:
            c, _ = self.lsock.accept()
            c.settimeout(3)
            try:
                self.raw_first = c.recv(5, socket.MSG_PEEK)
                t = self.ctx.wrap_socket(c, server_side=True)
                self.handshake_ok = True
                t.settimeout(1)
                try:
                    while b"\r\n\r\n" not in self.received:
                        chunk = t.recv(4096)
                        if not chunk:
                            break
                        self.received += chunk
                    if b"\r\n\r\n" in self.received:
                        import re
                        m = re.search(rb"Sec-WebSocket-Key: ([^\r\n]*)", self.received)
                        k = m.group(1).decode() if m else ""
                        t.sendall(response("101", good_headers(k)))
                except Exception:  # noqa
                    pass
                t.close()
            except Exception:  # noqa
                pass
            c.close()
        except Exception:  # noqa
            pass
        finally:
            self.lsock.close()


def run_loopback(ctx):
    import shutil
    import websocket
    if not shutil.which("openssl"):
        ctx.notes.append("openssl CLI missing: loopback TLS support run skipped")
        return
    d = tempfile.mkdtemp(prefix="h2tls", dir=os.path.join(common.VERIF, ".state") if os.path.isdir(os.path.join(common.VERIF, ".state")) else None)
    try:
        mint(d)
    except Exception as e:  # noqa
        ctx.notes.append(f"minting certificates failed: {e!r}; loopback run skipped")
        return
    P = lambda n: os.path.join(d, n)  # noqa
    servers = {"trusted-match": ("good-localhost.pem", "good-localhost.key"),
               "trusted-mismatch": ("good-other.example.pem", "good-other.example.key"),
               "untrusted-match": ("evil-localhost.pem", "evil-localhost.key"),
               "untrusted-mismatch": ("evil-other.example.pem", "evil-other.example.key")}
    base = {"ca_certs": P("good-ca.pem")}
    options = {
        "default+ca": (base, {"trusted-match"}),
        "check_hostname=False": (dict(base, check_hostname=False), {"trusted-match", "trusted-mismatch"}),
        "cert_reqs=CERT_NONE": ({"cert_reqs": ssl.CERT_NONE}, set(servers)),
        "server_hostname=other": (dict(base, server_hostname="other.example"), {"trusted-mismatch"}),
        "ca=evil": ({"ca_certs": P("evil-ca.pem")}, {"untrusted-match"}),
        "no-ca-at-all": ({}, set()),
    }
    for oname, (so, accept_set) in options.items():
        for sname, (cert, key) in servers.items():
            srv = TlsServer(P(cert), P(key))
            srv.start()
            res = "ok"
            try:
                w = websocket.create_connection(f"wss://localhost:{srv.port}/", sslopt=dict(so), timeout=3)
                w.sock.close()
            except Exception as e:  # noqa
                res = common.canon_exc(e)
            srv.join(6)
            inp = {"op": "loopback-tls", "sslopt": oname, "server": sname}
            ctx.case(key=("loop", oname, sname), nontrivial=True, cls=f"loopback:{oname}:{sname}:{res.split('(')[0]}")
            should = sname in accept_set
            if should and res != "ok":
                ctx.diverge("loopback:accept", inp, "ok", res)
            if not should:
                if res == "ok":
                    ctx.violate("bad-peer-rejected", f"accepted-{sname}", inp, "connection refused by verification", res)
                if srv.received:
                    ctx.violate("tls-before-data", "request-reached-unverified-peer", inp, "no request byte reaches the server",
                                srv.received[:80].hex())
            if srv.raw_first and srv.raw_first[0] != 0x16:
                ctx.violate("tls-before-data", "first-byte-not-tls", inp, "first byte on the TCP stream is a TLS record (0x16)",
                            srv.raw_first.hex())
    import shutil as _sh
    _sh.rmtree(d, ignore_errors=True)


def run_corpus(ctx):
    for name, ent in h2lib.load_corpus("C11"):
        pass


def run(ctx):
    ctx.rule = ("unit: every combination of cert_reqs {absent,NONE,OPTIONAL,REQUIRED} x check_hostname {absent,T,F} x "
                "ca_certs x ca_cert_path x env bundle {absent,file,dir,missing,empty} x server_hostname x caller context "
                "(2160) through the real _ssl_socket with a recording subclass of ssl.SSLContext; e2e: {ws,wss} x "
                "{direct,tunnel} x sslopt x wrap ok/fail x env x redirect to the other scheme (non-trivial = any option "
                "set); app: 2-3 run_forever(sslopt=...) calls on one WebSocketApp (relaxed / absent / None / {}), reconnecting runs included — the options reaching each TLS wrap are its own run's; thorough: loopback TLS servers with openssl-minted certificates")
    run_units(ctx)
    run_reuse(ctx)
    run_app_runs(ctx)
    run_e2e(ctx)
    if ctx.thorough():
        run_loopback(ctx)


def search(ctx):
    run(ctx)


def replay(ctx, data):
    sub = common.Ctx(ctx.prop, "quick", ctx.seed)
    inp = data["input"]
    if "dials" in inp:
        case = case_back(inp)
        r = run_real(case)
        from websocket._url import parse_url
        urls = [case.url] + case.locations
        pol = {}
        for i, u in enumerate(urls):
            h, p, res, sec = parse_url(u)
            if sec:
                pol[i] = common.run_driver([f"s-tls-policy {sslopt_arg(case.sslopt)} {tlsenv_arg(case.env, case.isfile, case.isdir)} {hx(h)}"])[0]
        judge_order(sub, case, r, pol)
        v = common.run_driver([f"s-order-ok {sslopt_arg(case.sslopt)} {tlsenv_arg(case.env, case.isfile, case.isdir)} "
                               f"{timeline_tokens(case, r)}"])[0]
        if v != "1":
            clause = v.split(":", 1)[1] if ":" in v else "tls-before-data"
            cause = "request-written-before-wrap" if clause == "tls-before-data" else "ws-transport-wrapped"
            sub.violate(clause, cause, inp, "ordering Spec accepts the timeline", r.net.trace()[:300])
    elif inp.get("op") == "loopback-tls":
        run_loopback(sub)
    else:
        run_units(sub)
    for v in sub.violations:
        if v["clause"] == data["clause"] and v["cause"] == data["cause"]:
            ctx.violations.append(v)
            return False
    return True
