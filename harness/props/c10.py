"""C10 — the opening handshake request is well-formed and reflects URL and options.

(C) unit `m-build-request` vs the real `_get_handshake_headers` (urandom and cookie jar substituted);
    e2e: the bytes `WebSocket.connect` hands to the transport for URL x option combinations.
(O) on the bytes actually written: the Lean Spec ops `s-parse-request` (RFC 7230 grammar, nothing
    after the empty line) must equal `s-expected-request` (from the property text, computed from
    the URL *components the harness assembled the URL from* — not from parse_url);
    `s-key-ok` (key = base64 of the 16 bytes os.urandom returned for this handshake, one draw per
    handshake, fresh across successive connections); exactly one transport write before the
    first read; `websockets.server.ServerProtocol` (independent implementation) accepts the bytes.
"""
import itertools
import json
import re

import common
import h2lib
from h2lib import Case, DialSpec, response, good_headers, key_of, run_real, opts_args, case_json, case_back
from simnet_h2 import hx, hopt, Net

SCHEMES = ["ws", "wss"]
HOSTS = ["example.com", "192.0.2.7", "[2001:db8::1]", "chat.example.com."]      # (the last: fully qualified, with the root label)
PORTS = [None, 80, 443, 8080, 1, 65535]
PATHS = ["", "/", "/a/b", "/a;p=1/b;q=2", "/app;jsessionid=X"]
QUERIES = [None, "x=1&y"]
O_HOST = [None, "override.example:99", ""]
O_ORIGIN = ["<absent>", None, "https://o.example", ""]
O_SUPPRESS = [False, True]
O_SUBS = [None, [], ["chat"], ["chat", "superchat"], ["SOAP", "Chat.V2"], ["x-Trace", "X-TRACE"]]
# (the last: a caller pair whose TEXT occurs inside the pair the jar contributes, `sid=s3cr3t` — it is another cookie)
O_COOKIE = [None, "a=1; b=2", "", "id=s3cr3t; theme=dark"]
O_HEADER = [None, [], ["X-A: 1", "X-B: two words"], {"X-A": "1"}, {"X-A": "1", "X-N": None, "X-C": "c d"}, {}, {"X-E": "", "X-B": "2"}, ["X-E: "]]
O_CONN = [None, "Upgrade", "keep-alive, Upgrade", ""]
O_JAR = [False, True]
AXES = [SCHEMES, HOSTS, PORTS, PATHS, QUERIES, O_HOST, O_ORIGIN, O_SUPPRESS, O_SUBS, O_COOKIE, O_HEADER, O_CONN, O_JAR]
DEFAULT = ("ws", "example.com", None, "/a/b", None, None, "<absent>", False, None, None, None, None, False)


def build(t, rand):
    scheme, host, port, path, query, o_host, o_origin, o_sup, o_subs, o_cookie, o_header, o_conn, o_jar = t
    url = f"{scheme}://{host}" + (f":{port}" if port is not None else "") + path + (f"?{query}" if query else "")
    bare = host[1:-1] if host.startswith("[") else host
    eff_port = port if port is not None else (443 if scheme == "wss" else 80)
    resource = (path or "/") + (f"?{query}" if query else "")
    opts = {}
    if o_host is not None:
        opts["host"] = o_host
    if o_origin != "<absent>":
        opts["origin"] = o_origin
    if o_sup:
        opts["suppress_origin"] = True
    if o_subs is not None:
        opts["subprotocols"] = list(o_subs)
    if o_cookie is not None:
        opts["cookie"] = o_cookie
    if o_header is not None:
        opts["header"] = dict(o_header) if isinstance(o_header, dict) else list(o_header)
    if o_conn is not None:
        opts["connection"] = o_conn
    seed = (f"sid=s3cr3t; Domain={bare}",) if (o_jar and ":" not in bare) else ()
    parts = (bare, eff_port, resource, scheme == "wss")
    return url, opts, seed, parts


def tuples(ctx):
    rnd = ctx.rng("tuples")
    seen = set()

    def key(t):
        return json.dumps(t, sort_keys=True, default=str)

    def emit(t):
        k = key(t)
        if k in seen:
            return False
        seen.add(k)
        return True
    for i, j in itertools.combinations(range(len(AXES)), 2):
        for vi in AXES[i]:
            for vj in AXES[j]:
                t = list(DEFAULT)
                t[i], t[j] = vi, vj
                if emit(t):
                    yield tuple(t)
    n = 20000 if ctx.thorough() else 1500
    for _ in range(n):
        t = tuple(rnd.choice(a) for a in AXES)
        if emit(t):
            yield t
    if ctx.thorough():
        for u in itertools.product(*AXES[:5]):
            for o in (DEFAULT[5:], tuple(rnd.choice(a) for a in AXES[5:])):
                t = tuple(u) + tuple(o)
                if emit(t):
                    yield t


_ws_server = None


def server_accepts(data):
    """independent voice: websockets' sans-I/O server"""
    global _ws_server
    if _ws_server is None:
        try:
            from websockets.server import ServerProtocol
            _ws_server = ServerProtocol
        except Exception:  # noqa
            _ws_server = False
    if not _ws_server:
        return None
    p = _ws_server()
    p.receive_data(data)
    ev = p.events_received()
    if len(ev) != 1 or getattr(ev[0], "_exception", None) is not None:
        return False
    try:
        r = p.accept(ev[0])
    except Exception:  # noqa
        return False
    return r.status_code == 101


def first_writes(net, idx=0):
    """(writes before the first read, all handshake writes) on transport idx"""
    before, seen_read = [], False
    allw = []
    for e in net.timeline:
        if e.startswith(f"I{idx}w:"):
            allw.append(e)
            if not seen_read:
                before.append(e)
        elif e.startswith(f"I{idx}r"):
            seen_read = True
    return before, allw


def run_e2e(ctx):
    rnd = ctx.rng("e2e")
    spec_lines, pend = [], []
    unit_lines, unit_obs, unit_in = [], [], []
    from websocket import _handshake
    for t in tuples(ctx):
        if ctx.out_of_time():
            break
        rand = bytes(rnd.randrange(256) for _ in range(16))
        url, opts, seed, parts = build(t, rand)
        k = key_of(rand)
        sub = (opts.get("subprotocols") or [None])[0]
        # every third wss case with an SNI override: the name presented to the TLS peer is not the request's host
        sslopt = {"server_hostname": "edge-7.cdn.example.net"} if (t[0] == "wss" and rand[0] % 3 == 0) else None
        case = Case(url, [DialSpec([("chunk", response("101", good_headers(k, sub=sub)))], rand=rand)],
                    options=opts, seed_cookies=seed, tag="c10", sslopt=sslopt)
        r = run_real(case)
        inp = {"url": url, "options": opts, "seed_cookies": list(seed), "rand": rand.hex(), "parts": list(parts)}
        if sslopt:
            inp["sslopt"] = sslopt
        size = len(json.dumps(inp, default=str))
        nontriv = t != DEFAULT
        hdr_kind = "none" if "header" not in opts else type(opts["header"]).__name__ + str(len(opts["header"]))
        ctx.case(key=("e2e", json.dumps(t, default=str)), nontrivial=nontriv,
                 cls=f"e2e:{t[0]}:{'v6' if t[1].startswith('[') else ('v4' if t[1][0].isdigit() else 'name')}:"
                     f"port={t[2]}:hdr={hdr_kind}",
                 sample={"url": url, "options": {k_: str(v) for k_, v in opts.items()}, "result": r.res,
                         "request": bytes(r.net.writes[0][2]).decode("latin-1")[:300] if r.net.writes else None}
                 if len(ctx.samples) < 5 and nontriv and rnd.random() < 0.01 else None)
        writes = [w for w in r.net.writes if w[0] == 0 and w[1] == "I"]
        before, allw = first_writes(r.net)
        if len(before) != 1 or len(allw) != 1 or len(writes) != 1:
            ctx.violate("one-write", "request-not-one-write", inp, "exactly one write before the first read",
                        f"{len(before)} before first read, {len(allw)} in all; {r.obs[:200]}", size)
            if not writes:
                continue
        data = writes[0][2]
        jar = r.net.jar_gets[0][2] if r.net.jar_gets else ""
        host, port, resource, secure = parts
        spec_lines.append("s-parse-request " + common.hexarg(data))
        spec_lines.append(" ".join(["s-expected-request", hx(host), str(port), hx(resource), str(int(secure))]
                                   + opts_args(opts) + [common.hexarg(rand), hx(jar)]))
        m = re.search(rb"\r\nSec-WebSocket-Key: ([^\r\n]*)\r\n", data)
        keyw = m.group(1).decode("latin-1") if m else ""
        draws = [c for c in r.net.urandom_calls if c[0] == 0]
        spec_lines.append(f"s-key-ok {hx(keyw)} {common.hexarg(draws[0][2]) if draws else '-'}")
        pend.append((inp, size, data, r, draws, t))
        if r.res != "ok":
            ctx.diverge("e2e:c10-responder", inp, "ok", r.res)
        # the same through the unit op (model vs `_get_handshake_headers`)
        unit_lines.append(" ".join(["m-build-request", hx(resource), hx(url), hx(host), str(port)] + opts_args(opts)
                                   + [common.hexarg(rand), hx(jar)]))
        unit_obs.append(f"ok {hx(keyw)} {common.hexarg(data)}")
        unit_in.append(inp)
    out = common.run_driver_parallel(spec_lines + unit_lines)
    so, uo = out[:len(spec_lines)], out[len(spec_lines):]
    for i, (inp, size, data, r, draws, t) in enumerate(pend):
        parsed, expected, keyok = so[3 * i], so[3 * i + 1], so[3 * i + 2]
        if parsed == "none":
            cause = "connection-option-as-bare-line" if (inp["options"].get("connection") and
                                                         b"\r\n" + inp["options"]["connection"].encode() + b"\r\n" in data) \
                else "not-a-valid-request"
            ctx.violate("request-well-formed", cause, inp, "a syntactically valid HTTP/1.1 GET request",
                        data.decode("latin-1"), size)
        elif parsed != expected:
            ctx.violate("request-reflects-options", "header-mismatch", inp, expected, parsed, size)
        if len(draws) != 1 or draws[0][1] != 16:
            ctx.violate("key-fresh", "not-one-urandom-16-draw", inp, "one os.urandom(16) per handshake",
                        str([(c[1]) for c in draws]), size)
        elif keyok != "1":
            ctx.violate("key-fresh", "key-not-base64-of-draw", inp, "key = base64(draw), 16 bytes", data.decode("latin-1")[:200], size)
        acc = server_accepts(data)
        if acc is False and parsed != "none":
            ctx.violate("independent-server-accepts", "websockets-rejects", inp, "websockets ServerProtocol accepts",
                        data.decode("latin-1"), size)
        elif acc is False:
            ctx.dist["independent-server-rejects-malformed"] += 1
        elif acc is None:
            ctx.notes.append("websockets not importable: independent-server voice skipped")
    for l, m, o, inp in zip(unit_lines, uo, unit_obs, unit_in):
        if m != o:
            ctx.diverge("unit:build-request", inp, m, o)
    ctx.traces_vs_impl += len(unit_lines)


def run_redirected_requests(ctx):
    """the request sent to a redirect target reflects THAT URL (host, port, resource, scheme of the default Origin) and
    the same options; the key is fresh again."""
    from websocket._url import parse_url
    rnd = ctx.rng("redir")
    chains = [["ws://a.example/one", "wss://b.example:8443/two?x=1"], ["wss://a.example/", "ws://b.example/b"],
              ["ws://a.example:81/p;q", "ws://[::1]:9000/r"], ["ws://a.example/", "wss://a.example/", "ws://c.example/c?d"]]
    optsets = [{}, {"origin": "https://o.example"}, {"suppress_origin": True}, {"subprotocols": ["Chat", "b"]},
               {"header": ["X-A: 1"], "cookie": "c=1"}, {"header": {"X-B": "2"}}]
    spec_lines, pend = [], []
    for chain in chains:
        for opts in optsets:
            rands = [bytes(rnd.randrange(256) for _ in range(16)) for _ in chain]
            dials = []
            for i, url in enumerate(chain):
                if i + 1 < len(chain):
                    dials.append(DialSpec([("chunk", response("302", [("Location", chain[i + 1])], reason="Found"))], rand=rands[i]))
                else:
                    sub = (opts.get("subprotocols") or [None])[0]
                    dials.append(DialSpec([("chunk", response("101", good_headers(key_of(rands[i]), sub=sub)))], rand=rands[i]))
            given = json.loads(json.dumps(opts))
            case = Case(chain[0], dials, options=opts, tag="c10-redirect")
            r = run_real(case)
            inp = {"op": "redirect-chain", "chain": chain, "options": given}
            ctx.case(key=("redir", str(chain), json.dumps(given, sort_keys=True)), nontrivial=True, cls=f"redirect:hops={len(chain)}")
            if r.res != "ok":
                ctx.violate("request-reflects-options", "redirect-chain-not-followed", inp, "connected", r.obs[:200], size=len(str(inp)))
                continue
            for i, url in enumerate(chain):
                ws_ = [w for w in r.net.writes if w[0] == i and w[1] == "I"]
                if len(ws_) != 1:
                    ctx.violate("one-write", "request-not-one-write", inp, f"one request on connection {i}", str(len(ws_)), size=len(str(inp)))
                    break
                host, port, resource, secure = parse_url(url)
                jar = r.net.jar_gets[i][2] if len(r.net.jar_gets) > i else ""
                spec_lines.append("s-parse-request " + common.hexarg(ws_[0][2]))
                spec_lines.append(" ".join(["s-expected-request", hx(host), str(port), hx(resource), str(int(secure))]
                                           + opts_args(given) + [common.hexarg(rands[i]), hx(jar)]))
                pend.append((inp, i, url, ws_[0][2]))
    out = common.run_driver_parallel(spec_lines)
    for j, (inp, i, url, data) in enumerate(pend):
        parsed, expected = out[2 * j], out[2 * j + 1]
        if parsed != expected:
            ctx.violate("request-reflects-options", "redirected-request-reflects-the-previous-url" if i else "header-mismatch",
                        dict(inp, hop=i, url=url), expected, parsed if parsed != "none" else data.decode("latin-1")[:300], size=len(str(inp)))
    ctx.traces_vs_impl += len(pend)


def run_unit_quirks(ctx):
    """quirk inputs for the model only (outside the Spec's quantifier): manual key / version, list
    containing the literal header name, CR/LF inside values, non-ASCII"""
    from websocket import _handshake
    rnd = ctx.rng("quirks")
    cases = []
    mk = "dGhlIHNhbXBsZSBub25jZQ=="
    for header in ({"Sec-WebSocket-Key": mk}, {"Sec-WebSocket-Key": None}, {"Sec-WebSocket-Version": "8"},
                   {"Sec-WebSocket-Key": mk, "Sec-WebSocket-Version": "13", "X": "y"}, ["Sec-WebSocket-Key"],
                   ["Sec-WebSocket-Version"], ["Sec-WebSocket-Key: " + mk], {"sec-websocket-key": mk},
                   ["X: a\r\nY: b"], {"X": "café"}):
        for url, host, port, res in (("ws://h/", "h", 80, "/"), ("wss://h:444/x?y", "h", 444, "/x?y"),
                                     ("wss://[::1]/", "::1", 443, "/"), ("nocolon", "h", 80, "/")):
            cases.append((res, url, host, port, {"header": header}))
    for o in ({"origin": "o\r\nX: 1"}, {"cookie": "c"}, {"host": "h2"}, {"subprotocols": ["a", "b", ""]},
              {"suppress_origin": True, "origin": "x"}, {"connection": "close"}):
        cases.append(("/r", "ws://h:81/r", "h", 81, o))
    lines, obs = [], []
    for res, url, host, port, opts in cases:
        rand = bytes(rnd.randrange(256) for _ in range(16))
        net = Net([DialSpec(rand=rand)])
        with net:
            net.call_index = 0
            try:
                headers, key = _handshake._get_handshake_headers(res, url, host, port, dict(opts))
                o = f"ok {hx(key if key is not None else 'None')} {common.hexarg(chr(13).join([]).encode() + (chr(13) + chr(10)).join(headers).encode('utf-8'))}"
            except Exception as e:  # noqa
                o = "exn " + common.canon_exc(e)
        jar = net.jar_gets[0][2] if net.jar_gets else ""
        lines.append(" ".join(["m-build-request", hx(res), hx(url), hx(host), str(port)] + opts_args(opts)
                              + [common.hexarg(rand), hx(jar)]))
        obs.append(o)
        ctx.case(key=("quirk", url, json.dumps(opts, default=str)), nontrivial=True, cls="unit:quirk:" + o.split()[0])
    out = common.run_driver(lines)
    for l, m, o in zip(lines, out, obs):
        if m != o:
            ctx.diverge("unit:build-request-quirks", l[:300], m, o)
    ctx.traces_vs_impl += len(lines)


def run_freshness(ctx):
    """successive connections with the real os.urandom behind the recorder"""
    import os
    import base64
    n = 300 if ctx.thorough() else 60
    keys, draws_all = [], []
    for i in range(n):
        # the responder cannot know the key in advance: let the handshake fail on the accept value
        d = DialSpec([("chunk", response("101", good_headers("x")))])
        d.rand = os.urandom(16)          # what the recorder hands out = a real OS draw
        case = Case("ws://fresh.example/", [d], tag="fresh")
        r = run_real(case)
        w = [x for x in r.net.writes if x[1] == "I"]
        m = re.search(rb"\r\nSec-WebSocket-Key: ([^\r\n]*)\r\n", w[0][2]) if w else None
        k = m.group(1).decode() if m else None
        keys.append(k)
        draws = r.net.urandom_calls
        inp = {"op": "successive-connections", "index": i}
        ctx.case(key=("fresh", i), nontrivial=True, cls="freshness")
        if len(draws) != 1 or draws[0][1] != 16:
            ctx.violate("key-fresh", "not-one-urandom-16-draw", inp, "one os.urandom(16) per handshake", str(draws)[:100])
        elif k is None or base64.b64decode(k) != draws[0][2]:
            ctx.violate("key-fresh", "key-not-base64-of-draw", inp, "key = base64 of the draw", str(k))
    if len(set(keys)) != len(keys):
        ctx.violate("key-fresh", "key-repeats", {"op": "successive-connections", "n": n}, "distinct keys", str(keys[:4]))


def run_corpus(ctx):
    for name, ent in h2lib.load_corpus("C10"):
        if not replay_one(ctx, ent["input"], ent.get("clause"), ent.get("cause")):
            pass


def replay_one(ctx, inp, clause, cause):
    """re-run one recorded input through the oracle; False = it violates (again)"""
    rand = bytes.fromhex(inp["rand"])
    k = key_of(rand)
    opts = inp["options"]
    sub = (opts.get("subprotocols") or [None])[0]
    case = Case(inp["url"], [DialSpec([("chunk", response("101", good_headers(k, sub=sub)))], rand=rand)],
                options=opts, seed_cookies=inp.get("seed_cookies", ()), tag="c10-replay")
    r = run_real(case)
    writes = [w for w in r.net.writes if w[0] == 0 and w[1] == "I"]
    if len(writes) != 1:
        ctx.violate("one-write", "request-not-one-write", inp, "one write", str(len(writes)))
        return False
    data = writes[0][2]
    host, port, resource, secure = inp["parts"]
    jar = r.net.jar_gets[0][2] if r.net.jar_gets else ""
    out = common.run_driver(["s-parse-request " + common.hexarg(data),
                             " ".join(["s-expected-request", hx(host), str(port), hx(resource), str(int(secure))]
                                      + opts_args(opts) + [common.hexarg(rand), hx(jar)])])
    ok = True
    if out[0] == "none":
        c = "connection-option-as-bare-line" if opts.get("connection") else "not-a-valid-request"
        ctx.violate("request-well-formed", c, inp, "a valid request", data.decode("latin-1"))
        ok = False
    elif out[0] != out[1]:
        ctx.violate("request-reflects-options", "header-mismatch", inp, out[1], out[0])
        ok = False
    if server_accepts(data) is False and out[0] != "none":
        ctx.violate("independent-server-accepts", "websockets-rejects", inp, "accepted", data.decode("latin-1"))
        ok = False
    return ok


def run_app_headers(ctx):
    """WebSocketApp with a CALLABLE `header` (documented for values that change over time): the request of every connection
    of a run — the first and each automatic reconnect — carries what the callable returns for THAT connection."""
    import appcheck
    from props import c15
    scs = []
    for seq in (("Ee", "Ee"), ("Er", "R", "Ee"), ("Ee", "J", "Ee", "Ee"), ("R", "R", "Ee")):
        for ssl_ in (False, True):
            sc = c15.scenario(seq, 1024, "close", ssl=ssl_)
            sc.update(header_seq=True, kind="app-callable-header", tag="-".join(seq) + "|callable-header")
            scs.append(sc)
    for sc, r in zip(scs, appcheck.run_real_many(scs)):
        hs = [it.partition(":")[2] for it in (r["trace"].split(";") if r["trace"] else []) if it.partition(":")[2].startswith("hs:")]
        dials = [it for it in (r["trace"].split(";") if r["trace"] else []) if it.partition(":")[2].startswith("dial:")]
        got = [h.split(":")[2] for h in hs]
        ctx.case(key=("app-header", sc["tag"], sc["ssl"]), nontrivial=True, cls="app:callable-header:" + str(len(dials)))
        # one evaluation per connection attempt, in order: attempt k carries the k-th value (refused dials send no request)
        ok = got == sorted(got, key=int) and len(set(got)) == len(got) and len(got) >= 2
        if not ok:
            ctx.violate("request-reflects-options", "callable-header-not-evaluated-per-connection", sc,
                        "strictly increasing X-Conn-Seq values, one per request", f"requests carried {got}; trace …{r['trace'][-200:]}",
                        size=len(sc["runs"][0]))


def run(ctx):
    ctx.rule = ("scheme x host form x port x path x query x options (host, origin, suppress_origin, subprotocols, "
                "cookie, header list/dict/None values, connection, jar cookie): all pairs of axis values + random "
                "tuples (full URL product in thorough); every request parsed by the Spec grammar and compared with the "
                "Spec's expected request; key = base64(os.urandom(16) draw); one write before the first read; "
                "websockets ServerProtocol accepts; successive connections with real randomness "
                "(non-trivial = any axis off its default)")
    run_corpus(ctx)
    run_unit_quirks(ctx)
    run_e2e(ctx)
    run_freshness(ctx)
    run_redirected_requests(ctx)
    run_app_headers(ctx)


def search(ctx):
    run(ctx)


def replay(ctx, data):
    sub = common.Ctx(ctx.prop, "quick", ctx.seed)
    inp = data["input"]
    if inp.get("op") == "successive-connections":
        run_freshness(sub)
    else:
        replay_one(sub, inp, data.get("clause"), data.get("cause"))
    for v in sub.violations:
        if v["clause"] == data["clause"] and v["cause"] == data["cause"]:
            ctx.violations.append(v)
            return False
    return True
