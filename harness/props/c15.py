"""C15 — automatic reconnection restores service after loss and stops on request.

(C) real `run_forever(reconnect=r)` vs `m-app`: identical time-stamped traces (dial times, sleeps, callbacks,
transport closes, ping thread start/stop) for every sequence of dial outcomes up to length 3 (thorough 4) over
{refused, rejected 403, established-then-eof / reset / ping-timeout / server-close} with traffic on each
established connection, r in {1 s, 5 s}, followed by a final connection that the server closes (the run ends)
or by nothing (refused for ever: cut at the horizon); the application's close() from on_open / on_reconnect /
on_message / on_error / on_ping at each point; keepalive on and off; both tie orders.
(O) Spec.AppTrace.c15Run on the REAL trace: every later dial comes exactly r after a sleep(r); a sleep is
followed by a dial; never more than one live transport or ping thread; no dial after a server close frame
arrived or after the application's close(); plus C13's open-first (on_reconnect) and C14's single on_close.
External dispatcher: `harness/props/c15.py::external_scenarios` (real runs + Spec).
"""
import itertools
import json

import appcheck
import common
import appsim
from appsim import TPS, CBS

TRAFFIC = [[100, 0, "t", "6869"], [50, 0, "p", "70"]]
OUTCOMES = {
    "R": lambda: ["R"],
    "J": lambda: ["J", 403],
    "Ee": lambda: ["E", TRAFFIC + [[30, 0, "e", ""]]],
    "Er": lambda: ["E", TRAFFIC + [[30, 0, "r", ""]]],
    "Es": lambda: ["E", TRAFFIC],                                   # then silence: ping timeout when keepalive is on
    "Ec": lambda: ["E", TRAFFIC + [[30, 0, "c", "03e9627965"]]],
    "Ex": lambda: ["E", [[10, 0, "T", "61626364"], [5, 0, "x", ""]]],
}
# not in the product alphabet (cost): a connection lost BETWEEN THE FRAGMENTS of a message; server closes with the
# first / last registered-or-private status code
SPECIAL = {
    "Eh": lambda: ["E", TRAFFIC + [[10, 0, "h", ""], [30, 0, "e", ""]]],
    "Ehr": lambda: ["E", [[10, 0, "h", ""], [30, 0, "r", ""]]],
    "Ec3": lambda: ["E", TRAFFIC + [[30, 0, "c", "0bb8"]]],
    "Ec4": lambda: ["E", [[30, 0, "c", "1387627965"]]],
    # a half-dead peer: data keeps arriving more often than the ping timeout, pings are never answered
    "Et": lambda: ["E", [[800, 0, "t", "7469636b"]] * 40],
}
OUTCOMES_ALL = dict(OUTCOMES, **SPECIAL)
FINAL = {"close": ["E", [[70, 0, "b", "00"], [40, 0, "c", "03e8"]]], "none": None}


def scenario(seq, rc, final="close", ka=False, plan=None, sched=None, cbs=appsim.ALL, ssl=False):
    dials = [OUTCOMES_ALL[o]() for o in seq]
    if FINAL[final] is not None:
        dials.append(FINAL[final])
    sc = {"cbs": cbs, "ssl": ssl, "rc": rc, "runs": [dials], "horizon": (130 if ka else 40) * TPS,
          "tag": f"{'-'.join(seq)}|{final}|rc={rc}|ka={int(ka)}", "kind": "seq"}
    if ka:
        sc.update(iv=3 * TPS, to=2 * TPS)
    if plan:
        sc["plan"] = plan
    if sched:
        sc["sched"] = sched
    return sc


def cls_of(sc):
    return sc.get("kind", "seq") + ":" + sc.get("tag", "")[:30]


def announce_extra(ctx, sc, r):
    """success fires on_reconnect (on_open if none was given): the first callback of every RE-established connection."""
    mask = sc.get("cbs", appsim.ALL)
    has = lambda name: bool((mask >> CBS.index(name)) & 1)   # noqa: E731
    want = "cb:on_reconnect" if has("on_reconnect") else ("cb:on_open" if has("on_open") else None)
    items = [it.partition(":")[2] for it in (r["trace"].split(";") if r["trace"] else [])]
    if any(it.startswith("cb:DECOY") for it in items):
        ctx.violate("retry", "stale-callback-fired@callbacks-replaced-after-construction", sc, "the callbacks set at the time of the event",
                    r["trace"][-300:], size=appcheck.size_of(sc))
        return
    dial_no = -1
    i = 0
    while i < len(items):
        if items[i].startswith("dial:"):
            dial_no += 1
            j = i + 1
            seg = []
            while j < len(items) and not items[j].startswith(("dial:", "ret:", "raised:")):
                seg.append(items[j])
                j += 1
            cbs = [x for x in seg if x.startswith("cb:")]
            delivered = any(x.startswith(("cb:on_data", "cb:on_message", "cb:on_ping", "cb:on_pong")) for x in cbs)
            if dial_no > 0 and delivered and want and not cbs[0].startswith(want):
                ctx.violate("retry", "re-established-connection-not-announced", sc, f"{want[3:]} first on connection #{dial_no}",
                            f"first callback {cbs[0]}; trace …{r['trace'][-300:]}", size=appcheck.size_of(sc))
                return
            i = j
        else:
            if items[i].startswith(("ret:", "raised:")):
                dial_no = -1            # the next run_forever call starts with a FIRST connection again
            i += 1


def silent_extra(ctx, sc, r):
    """worlds with "Es" connections (established, then silence) under keepalive with a timeout: EVERY such connection of the run
    — the first and each later one — is given up within two timeouts of its first unanswered ping, and a new attempt follows."""
    seq = sc.get("tag", "").split("|")[0].split("-")
    if "Es" not in seq or not sc.get("to") or not sc.get("iv") or sc.get("plan") or sc.get("closer") or sc.get("closer_line") is not None:
        return
    items = [it.partition(":") for it in r["trace"].split(";")] if r["trace"] else []
    conn = -1
    t_ping = None
    for t, _, rest in items:
        if rest.startswith("dial:"):
            if t_ping is not None:
                break
            conn += 1
            t_ping = None
        elif rest.startswith("wrote:9:") and t_ping is None and 0 <= conn < len(seq) and seq[conn] == "Es":
            t_ping = int(t)
        elif t_ping is not None and (rest == "cb:on_error:eTIMEOUT" or rest == "pingStop" or rest.startswith("sleep:")):
            if int(t) > t_ping + 2 * sc["to"] + 8:
                break
            t_ping = None
    else:
        if t_ping is None:
            return
    if t_ping is not None:
        ctx.violate("retry", "silent-connection-never-given-up" + ("@external-dispatcher" if sc.get("ext") else ""), sc,
                    f"connection #{conn}: ping/pong timeout noticed by tick {t_ping + 2 * sc['to']} (first unanswered ping at {t_ping}), then a new attempt",
                    f"trace …{r['trace'][-300:]}", size=appcheck.size_of(sc))


_RESUMES = []


def skeleton_of(trace):
    """the network skeleton of a canonical trace (dial / sleep / sockClosed / ret), `sockDropped` left out."""
    keep = ("dial:", "sleep:", "sockClosed:", "ret:")
    return ";".join(it for it in (trace.split(";") if trace else []) if it.partition(":")[2].startswith(keep)) or "-"


def resumes_check(ctx):
    """the closed form of theorem C15c.C15_resumes_closed_form (driver op `s-c15-resumes` = Lemmas.App.resumesOfWorld) against the
    REAL runs collected by `extra`: every world of the theorem's shape (>= 1 attempt that fails or is established-then-lost,
    then a connection the server closes; callbacks that return; keepalive off; built-in loop)."""
    global _RESUMES
    todo, _RESUMES = _RESUMES, []
    if not todo:
        return
    out = common.run_driver_parallel([f"s-c15-resumes {sc['rc']} {appsim.enc_runs(sc['runs'])}" for sc, _ in todo])
    for (sc, tr), closed in zip(todo, out):
        if closed == "n/a":
            continue
        ctx.traces_vs_impl += 1
        ctx.case(key="resumes|" + json.dumps(sc, sort_keys=True), nontrivial=True, cls="closed-form:C15_resumes")
        if closed.startswith("bad") or skeleton_of(tr) != closed:
            ctx.violate("retry", appcheck.qualify("skeleton-differs-from-C15_resumes", sc), sc, closed, skeleton_of(tr), size=appcheck.size_of(sc))


def extra(ctx, sc, r):
    n = appcheck.size_of(sc)
    if sc.get("kind") in ("seq", "special") and sc.get("rc") and not sc.get("iv") and not sc.get("plan") and not sc.get("ext") \
            and len(sc["runs"]) == 1 and r["abort"] == "main-finished":
        _RESUMES.append((sc, r["trace"]))
    halfdead_extra(ctx, sc, r)
    silent_extra(ctx, sc, r)
    announce_extra(ctx, sc, r)
    if r["live_max"] > 1:
        ctx.violate("resources", appcheck.qualify("two-transports-open", sc), sc, "at most one live transport", f"max live = {r['live_max']}", size=n)
    for i, al in enumerate(r["alive"]):
        if al:
            ctx.violate("resources", appcheck.qualify("ping-thread-alive-at-return", sc), sc, "no ping thread after return", str(al), size=n)
    if r["leaked"]:
        ctx.violate("resources", appcheck.qualify("transport-open-and-reachable-after-return", sc), sc, "every transport closed or unreachable",
                    str(r["leaked"]), size=n)


def writes_fail_scenarios(ctx):
    """a path that has gone half-dead the other way round: writes fail (the pings cannot even be sent), reads are silent.
    That is an unanswered ping like any other: the ping/pong timeout ends the connection and a new attempt follows.
    Real runs + oracle (the model's worlds have no write-only failure)."""
    scs = []
    for rc in (TPS, 5 * TPS):
        for iv, to in ((5 * TPS, 2 * TPS), (3 * TPS, TPS), (7 * TPS, 3 * TPS)):
            for ssl in (False, True):
                for t_fail in (TPS, 2 * iv - 1, 2 * iv + 1):
                    sc = scenario(("Es",), rc, "close", ka=True, ssl=ssl)
                    sc.update(iv=iv, to=to, writes_fail=[0, t_fail], kind="writes-fail", horizon=80 * TPS,
                              tag=f"Es|close|rc={rc}|writes-fail@{t_fail}")
                    scs.append(sc)
    return scs


def writes_fail_extra(ctx, sc, r):
    extra(ctx, sc, r)
    iv, to = sc["iv"], sc["to"]
    items = [it.partition(":") for it in r["trace"].split(";")] if r["trace"] else []
    dials = [int(t) for t, _, rest in items if rest.startswith("dial:")]
    # the peer never answers: the first ping (sent, or attempted, at 2*iv after the connection came up) is the first unanswered one
    t_ping = (dials[0] if dials else 0) + 2 * iv
    deadline = t_ping + 2 * to + 8
    rep = next((int(t) for t, _, rest in items if int(t) >= t_ping and (rest == "cb:on_error:eTIMEOUT" or rest.startswith("sleep:"))), None)
    if rep is None or rep > deadline or len(dials) < 2:
        ctx.violate("retry", "unsendable-ping-never-times-out", sc,
                    f"ping/pong timeout by tick {deadline} (first unanswered ping, sent or unsendable, at {t_ping}), then a new attempt",
                    f"report at {rep}, dials at {dials}; trace …{r['trace'][-240:]}", size=appcheck.size_of(sc))


def halfdead_extra(ctx, sc, r):
    """worlds with an "Et" connection (iv > 2*to): the first unanswered ping at T must be reported by T + 2*to."""
    if "Et" not in sc.get("tag", "").split("|")[0].split("-"):
        return
    t_ping, t_rep = None, None
    for it in r["trace"].split(";"):
        t, _, rest = it.partition(":")
        if rest.startswith("wrote:9:") and t_ping is None:
            t_ping = int(t)
        # the loss of a RE-established connection is not reported to on_error (handleDisconnect(e, reconnecting=True)):
        # "noticed" = the ping thread is stopped / the retry sleep starts
        if (rest == "cb:on_error:eTIMEOUT" or rest == "pingStop" or rest.startswith("sleep:")) and t_rep is None and t_ping is not None:
            t_rep = int(t)
    if t_ping is not None and (t_rep is None or t_rep > t_ping + 2 * sc["to"]):
        ctx.violate("retry", "ping-timeout-not-noticed-while-data-keeps-arriving", sc,
                    f"ping/pong timeout reported by {t_ping + 2 * sc['to']} and a new attempt follows",
                    f"first ping {t_ping}, report {t_rep}; trace …{r['trace'][-200:]}", size=appcheck.size_of(sc))


def scenarios(ctx):
    rnd = ctx.rng("c15")
    scs = []
    maxlen = 5 if ctx.thorough() else 4
    alpha = list(OUTCOMES)
    for n in range(1, maxlen + 1):
        for seq in itertools.product(alpha, repeat=n):
            has_silent = "Es" in seq
            for rc in (TPS, 5 * TPS):
                if n >= 3 and rc == 5 * TPS and (n >= 4 or not ctx.thorough()):
                    continue
                if has_silent:
                    # silence only ends by the ping timeout
                    scs.append(scenario(seq, rc, "close", ka=True))
                else:
                    scs.append(scenario(seq, rc, "close"))
                    if n <= 2:
                        scs.append(scenario(seq, rc, "none"))
                        scs.append(scenario(seq, rc, "close", ka=True, sched="1" if n == 1 else "01"))
    # loss between fragments, then service must resume on the next connection; server closes with code 3000 / 4999
    for seq in (("Eh", "Ee"), ("Ee", "Eh", "Ee"), ("Eh", "R", "Ee"), ("Ehr", "Ee"), ("Eh", "Eh", "Ee"),
                ("Ec3",), ("Ee", "Ec3"), ("Ec4",), ("R", "Ec4"), ("Eh", "Ec3")):
        for rc in (TPS, 5 * TPS):
            for ssl in (False, True):
                sc = scenario(seq, rc, "close", ssl=ssl)
                sc["kind"] = "special"
                scs.append(sc)
        sc = scenario(seq, TPS, "close", ka=True)
        sc["kind"] = "special"
        scs.append(sc)
    # the same object run a SECOND time with reconnection on: a server close must end that run too
    for seq1, seq2 in ((("Ee",), ("Ee",)), ((), ("Er", "Ee")), (("R",), ("Ee", "Ee")), ((), ())):
        sc = scenario(seq1, TPS, "close")
        sc2 = scenario(seq2, TPS, "close")
        sc["runs"] = [sc["runs"][0], sc2["runs"][0]]
        sc.update(kind="rerun", tag=sc["tag"] + "|then|" + sc2["tag"])
        scs.append(sc)
    # the interval given through the process-wide default (websocket.setReconnect) with the argument left out
    for seq in (("Ee",), ("Er", "Ee"), ("R", "Ee"), ("Ex",), ("J", "Ee")):
        for rc in (TPS, 5 * TPS):
            sc = scenario(seq, rc, "close")
            sc.update(rc_global=rc, rc_arg="none", kind="global-default", tag=sc["tag"] + "|setReconnect")
            scs.append(sc)
    # steady inbound data without pongs: the ping timeout must still be noticed and followed by a new attempt (iv > 2*to)
    for seq in (("Et",), ("Et", "Ee"), ("Ee", "Et")):
        for ssl in (False, True):
            for sched in ("", "1", "01"):
                sc = scenario(seq, TPS, "close", ka=True, ssl=ssl, sched=sched)
                sc.update(iv=5 * TPS, to=2 * TPS, kind="special", horizon=160 * TPS)
                scs.append(sc)
    # application close() at each point of a reconnecting run
    seqs = [("Ee", "R", "Ee"), ("R", "Ee"), ("Er", "J", "Ex"), ("Ee", "Ee", "Ee")]
    sites = [("on_open", 0), ("on_open", 1), ("on_reconnect", 0), ("on_reconnect", 1), ("on_message", 0),
             ("on_message", 1), ("on_message", 2), ("on_error", 0), ("on_error", 1), ("on_ping", 1), ("on_data", 1)]
    for seq in seqs:
        for cb, k in sites:
            for ka in (False, True):
                sc = scenario(seq, TPS, "close", ka=ka, plan={cb: "o" * k + "c"})
                sc["kind"] = "app-close"
                scs.append(sc)
            sc = scenario(seq, TPS, "close", plan={cb: "o" * k + "k"})
            sc["kind"] = "ki"
            scs.append(sc)
            sc = scenario(seq, TPS, "close", plan={cb: "o" * k + "r"})
            sc["kind"] = "raise"
            scs.append(sc)
    # without on_reconnect (on_open fires again), without on_error / on_close
    for seq in seqs:
        for drop in ("on_reconnect", "on_error", "on_close", "on_open"):
            sc = scenario(seq, TPS, "close", cbs=appsim.ALL & ~(1 << CBS.index(drop)))
            sc["kind"] = "subset"
            scs.append(sc)
        scs.append(scenario(seq, TPS, "close", ssl=True))
        # callbacks assigned / replaced after construction: which callback announces a re-established connection is
        # decided when it happens, not when the object was built
        for late in (True, "replace"):
            for drop in (None, "on_reconnect"):
                sc = scenario(seq, TPS, "close", cbs=appsim.ALL if drop is None else appsim.ALL & ~(1 << CBS.index(drop)))
                sc.update(kind="late-callbacks", late_cbs=late)
                scs.append(sc)
    # random
    n = 300 if ctx.thorough() else 80
    for _ in range(n):
        seq = [rnd.choice(alpha) for _ in range(rnd.randint(1, 5))]
        plan = {}
        for cb in CBS:
            if rnd.random() < 0.2:
                plan[cb] = "".join(rnd.choice("oooorck") for _ in range(4))
        fin = rnd.choice(["close", "none"])
        sc = scenario(seq, rnd.choice([TPS, 2 * TPS] if fin == "none" else [1, 300, TPS, 2 * TPS]), fin,
                      ka=("Es" in seq) or rnd.random() < 0.3,
                      plan=plan or None, sched="".join(rnd.choice("01") for _ in range(6)),
                      cbs=appsim.ALL if rnd.random() < 0.7 else rnd.randrange(256), ssl=rnd.random() < 0.3)
        sc["kind"] = "random"
        scs.append(sc)
    return scs


def closer_scenarios(ctx):
    """the application's close() from ANOTHER thread while reconnection is on, the server reacting to the close frame by
    dropping the connection (no close reply): the run ends, no further attempt (real runs + the oracle below)."""
    scs = []
    for t in (150, 200, 201, 260):
        for drop in (1, 40, 300):
            for sched in ("", "1", "01", "10", "11", "101"):
                for ka in (False, True):
                    evs = [[100, 0, "t", "6869"], [100, 0, "p", "70"], [t - 200 + drop if t + drop > 200 else 1, 0, "e", ""]]
                    sc = {"cbs": appsim.ALL, "rc": TPS, "runs": [[["E", evs], ["E", TRAFFIC + [[30, 0, "c", "03e8"]]]]],
                          "closer": [t], "sched": sched, "horizon": 30 * TPS, "kind": "closer",
                          "tag": f"closer@{t}|drop+{drop}|rc=1s|ka={int(ka)}"}
                    if ka:
                        sc.update(iv=3 * TPS, to=2 * TPS)
                    scs.append(sc)
                    if not ka:
                        # the closing thread is descheduled right after its close frame went out (a legal interleaving):
                        # the main loop is the one that sees the connection drop
                        sc2 = dict(sc, stall_after_send=[0, drop + 50], tag=sc["tag"] + "|closer-stalled-after-write")
                        scs.append(sc2)
    # close() from another thread while NO connection exists: during the wait for the next attempt after a loss (and after a
    # refused attempt) — the run ends, no further connection is made, on_close is called once; built-in and external loop
    for seq in (("Ee",), ("Er",), ("R",), ("Ee", "R")):
        for tc in (300, 700, 1200):
            for ext in (False, True):
                for sched in ("", "1", "01"):
                    sc = scenario(seq, TPS, "close")
                    sc.update(closer=[tc + (230 if seq[0].startswith("E") else 0)], sched=sched, horizon=30 * TPS, kind="closer-gap",
                              tag=f"closer-in-the-gap@{tc}|{'-'.join(seq)}|rc=1s" + ("|ext" if ext else ""))
                    if ext:
                        sc["ext"] = True
                    scs.append(sc)
    return scs


def closer_extra(ctx, sc, r):
    extra(ctx, sc, r)
    items = r["trace"].split(";") if r["trace"] else []
    called = next((i for i, it in enumerate(items) if it.partition(":")[2].startswith("closeCall")), None)
    if called is not None and any(":dial:" in it for it in items[called + 1:]):
        ctx.violate("stops", "dial-after-app-close@second-thread-close", sc, "no connection attempt after the application's close()",
                    r["trace"][-400:], size=appcheck.size_of(sc))


def external_scenarios(ctx):
    """the same worlds through a minimal conforming external dispatcher (real runs + Spec only)."""
    scs = []
    alpha = ["R", "J", "Ee", "Ec", "Er", "Ex"]
    maxlen = 3 if ctx.thorough() else 2
    for n in range(1, maxlen + 1):
        for seq in itertools.product(alpha, repeat=n):
            for rc in ((TPS, 5 * TPS) if n < maxlen else (TPS,)):
                sc = scenario(seq, rc, "close")
                sc.update(ext=True, kind="external", horizon=60 * TPS)
                scs.append(sc)
                if n == 1:
                    sc2 = scenario(seq, rc, "close", ka=True)
                    sc2.update(ext=True, kind="external", to=None, horizon=60 * TPS)
                    scs.append(sc2)
    for seq in (("Ee", "R", "Ee"), ("R", "Ee")):
        for cb, k in (("on_open", 0), ("on_reconnect", 0), ("on_message", 0), ("on_message", 1)):
            sc = scenario(seq, TPS, "close", plan={cb: "o" * k + "c"})
            sc.update(ext=True, kind="external-app-close", horizon=60 * TPS)
            scs.append(sc)
    # keepalive WITH a timeout under the external dispatcher: connections that fall silent are given up by the ping/pong
    # timeout — the first one, and every later one of the same run (the periodic check lives as long as the run)
    for seq in (("Es",), ("Es", "Es"), ("Es", "Ee"), ("Ee", "Es", "Ee"), ("Es", "Es", "Es"), ("Er", "Es"), ("Es", "R", "Es")):
        for rc in (TPS, 5 * TPS):
            sc = scenario(seq, rc, "close", ka=True)
            sc.update(ext=True, kind="external-keepalive", horizon=140 * TPS)
            scs.append(sc)
    return scs


def external_extra(ctx, sc, r):
    extra(ctx, sc, r)
    if ":raised:" in r["trace"]:
        ctx.violate("retry", "external-dispatcher-unhandled-exception", sc,
                    "the loss is handled (handleDisconnect) and a new attempt follows",
                    r["trace"][-300:], size=appcheck.size_of(sc))


def header_scenarios(ctx):
    """`header` given as a callable that FAILS on some attempt: that attempt failed like any other (nothing was dialled) —
    the interval is waited and the next attempt follows; later connections are established and the run ends with the
    server's close.  Real runs + oracle."""
    scs = []
    for seq in (("Ee", "Ee"), ("Ee", "R", "Ee"), ("Er", "Ee"), ("Ee", "Ee", "Ee")):
        for at in ((1,), (2,), (1, 2)):
            for rc in (TPS, 5 * TPS):
                for ext in (False, True):
                    sc = scenario(seq, rc, "close")
                    sc.update(header_seq=True, header_raises=list(at), kind="header-raises", horizon=80 * TPS,
                              tag=f"{'-'.join(seq)}|close|rc={rc}|header-raises@{','.join(map(str, at))}")
                    if ext:
                        sc["ext"] = True
                    scs.append(sc)
    return scs


def header_extra(ctx, sc, r):
    extra(ctx, sc, r)
    items = [it.partition(":")[2] for it in r["trace"].split(";")] if r["trace"] else []
    ndials = sum(1 for it in items if it.startswith("dial:"))
    want = len(sc["runs"][0])
    closes = [it for it in items if it.startswith("cb:on_close:")]
    if ndials != want or any(it.startswith("raised:") for it in items) or not closes or "1000" not in closes[-1]:
        ctx.violate("retry", "failing-header-provider-ends-the-run" + ("@external-dispatcher" if sc.get("ext") else ""), sc,
                    f"{want} connections attempted, the run ends with the server's close (1000)",
                    f"{ndials} dials; on_close: {closes[-1:]}; trace …{r['trace'][-300:]}", size=appcheck.size_of(sc))


def run(ctx):
    ctx.rule = ("dial-outcome sequences to length 3 (thorough 4) over {refused, rejected, est+eof, est+reset, est+silence "
                "(ping timeout), est+server close, est+protocol error} x r in {1 s, 5 s} x final {server-closed connection, "
                "none}; keepalive on/off, tie orders; application close()/KeyboardInterrupt/raise at each callback site; "
                "callback subsets; TLS-style (non-trivial = at least one reconnect)")
    corp = [d["input"] for d in appcheck.corpus("C15")]
    if corp:
        appcheck.evaluate(ctx, "C15", corp, cls_of=lambda sc: "corpus", extra_check=extra, model=False)
    appcheck.evaluate(ctx, "C15", scenarios(ctx), cls_of=cls_of, extra_check=extra,
                      nontrivial_of=lambda sc: len(sc["runs"][0]) > 1)
    resumes_check(ctx)
    appcheck.evaluate(ctx, "C15", external_scenarios(ctx), cls_of=cls_of, extra_check=external_extra, model=False,
                      nontrivial_of=lambda sc: len(sc["runs"][0]) > 1)
    appcheck.evaluate(ctx, "C15", closer_scenarios(ctx), cls_of=cls_of, extra_check=closer_extra, model=False,
                      nontrivial_of=lambda sc: True)
    hscs = header_scenarios(ctx)
    for sc, r in zip(hscs, appcheck.run_real_many(hscs)):
        # (the handshake-header events of these runs are not part of the Spec's trace alphabet: own oracle only)
        if r["abort"] == "skipped":
            continue
        ctx.case(key=json.dumps(sc, sort_keys=True), nontrivial=True, cls=cls_of(sc))
        r = dict(r, trace=";".join(it for it in r["trace"].split(";") if not it.partition(":")[2].startswith("hs:")))
        header_extra(ctx, sc, r)
    appcheck.evaluate(ctx, "C15", writes_fail_scenarios(ctx), cls_of=cls_of, extra_check=writes_fail_extra, model=False,
                      nontrivial_of=lambda sc: True)


def search(ctx):
    run(ctx)


def replay(ctx, data):
    if "input" not in data:
        return appcheck.replay_nofail(ctx, data, run)
    ext = bool(data["input"].get("ext"))
    if data["input"].get("kind") == "writes-fail":
        return appcheck.replay_scenario(ctx, "C15", data, extra_check=writes_fail_extra)
    return appcheck.replay_scenario(ctx, "C15", data, extra_check=external_extra if ext else extra)
