"""C08 — closing handshake and connection state follow one consistent state machine.

(C) `m-session` over histories of client calls x server scripts in virtual time vs the real WebSocket:
identical results, `connected`, `sock is None`, transport closed, number of transport calls, clock, bytes
written after every step.  (O) on the REAL outputs: (a) close frames written on the client's own initiative
(close() and the automatic reply) <= 1 per connection, explicit send_close() frames counted apart;
(b) close()/send_close() with a status outside 0..65535 raise ValueError and write nothing; the frame written
by close(s, r) decodes (Spec decoder) to FIN=1 opcode 8 payload be16(s)++r; (c) after a connected close() or
a loss the object is inert: sock is None, transport closed, later send/recv/ping raise CLOSED with zero
transport calls; (d) close(timeout=t) returns before 2t of virtual time, exactly t against a silent peer, and with t = 0 does not keep
reading for as long as the peer has data (at most 50 transport reads against a 245-frame burst).
"""
import itertools

import common
import rx
import simnet
from rx import F

OPS = ["send:1:61", "recv", "ping:70", "close:1000:-:1000", "close:1001:6279:3000", "close:70000:-:1000",
       "sclose:1002:78", "sclose:-1:-", "shutdown", "rdf:1",
       "close:65536:-:1000", "sclose:65536:-", "close:1000:-:0",      # the exact upper bound; a zero timeout
       "abort",
       "close:1000:6f6b:1000", "sclose:1000:627965"]      # the default status WITH a reason (both writers)


def scripts():
    d = F(1, b"hi").enc()
    p = F(9, b"pp").enc()
    c0 = F(8, b"").enc()
    c1 = F(8, b"\x03\xe8ok").enc()
    return {
        "silent": [],
        "data": [("chunk", d)],
        "ping": [("chunk", p)],
        "close": [("chunk", c1)],
        "close2": [("chunk", c1 + c0)],
        "data-close": [("chunk", d + c1)],
        "eof": [("eof",)],
        "data-eof": [("chunk", d), ("eof",)],
        "late-close": [("wait", 500), ("chunk", c0)],
        "slow-chatter": [("wait", 400), ("chunk", d), ("wait", 400), ("chunk", d), ("wait", 400), ("chunk", p), ("wait", 400), ("chunk", d),
                         ("wait", 400), ("chunk", d), ("wait", 400), ("chunk", d), ("wait", 400), ("chunk", d), ("wait", 400), ("chunk", d)],
        "very-late-close": [("wait", 2500), ("chunk", c1)],
        "reset": [("chunk", d), ("reset",)],
        "burst": [("chunk", d * 120 + p * 5 + d * 120)],
        "bad-empty": [("chunk", b"\xc1\x00"), ("chunk", d), ("chunk", c1)],      # a rejected frame WITHOUT payload, then legal traffic
        "bad-empty-eof": [("chunk", b"\xc1\x00"), ("eof",)],      # a peer that keeps talking: everything is already readable
    }


def histories(ctx):
    rnd = ctx.rng("hist")
    depth = 4 if ctx.thorough() else 3
    hs = []
    for k in range(1, depth + 1):
        hs += [list(t) for t in itertools.product(OPS, repeat=k)]
    n = 20000 if ctx.thorough() else 2500
    for _ in range(n):
        hs.append([rnd.choice(OPS) for _ in range(rnd.randint(depth + 1, 9))])
    return hs


def judge(ctx, line, script, ops, impl, sock):
    sts = rx.states(impl)
    inp = {"op": line if len(line) < 400 else line[:400] + "...", "script": script, "calls": ops}
    size = len(ops) * 3 + len(script)
    connected = True
    inert = False
    own_close = 0
    prev_calls, prev_clock = 0, 0
    prev_flags = "110"
    closes_written = 0
    step_seen = []
    for op, st in zip(ops, sts):
        res, flags, calls, clock, delta = st[0], st[1], int(st[2]), int(st[3]), st[4]
        a = op.split(":")
        wrote = delta != "h"
        # frames written by this step
        ncl = 0
        if wrote and delta.startswith("h"):
            b = bytes.fromhex(delta[1:])
            i = 0
            while i < len(b):
                ln = b[i + 1] & 0x7F
                if b[i] & 0x0F == 8:
                    ncl += 1
                i += 2 + 4 + ln
        if res.startswith("X:INTERNAL"):
            ctx.violate("close-returns-within-timeout" if a[0] == "close" else "inert-after-close-or-loss", "call-raises-" + res[2:], inp,
                        "the call returns or raises a documented exception", res, size=size)
            break
        if res == "X:STUCK":
            ctx.violate("close-returns-within-timeout" if a[0] == "close" else "inert-after-close-or-loss",
                        "call-never-returns@" + a[0].split(":")[0], inp,
                        "the call returns or raises (every transport call of this session returns at once)",
                        f"still running after {simnet.STUCK_S} s of wall time (the harness's watchdog fired)", size=size)
            break
        if res == "X:SPIN":
            ctx.violate("inert-after-close-or-loss", "end-of-stream-not-recognised-as-loss", inp,
                        "X:CLOSED at the end of the stream, transport released", "keeps reading the ended stream", size=size)
            break
        # (b) range
        if a[0] in ("close", "sclose"):
            s = int(a[1])
            if s < 0 or s > 65535:
                if wrote:
                    ctx.violate("out-of-range-status-refused", "wrote-before-refusing", inp, "nothing written", delta, size=size)
                if (a[0] == "sclose" or connected) and res != "X:VALUEERROR":
                    ctx.violate("out-of-range-status-refused", "no-valueerror", inp, "X:VALUEERROR", res, size=size)
                if res == "X:VALUEERROR" and flags != prev_flags:
                    # refused = nothing happened: no frame, and the object is in the state it was in (a later, valid close()
                    # must still find a connection to close)
                    ctx.violate("out-of-range-status-refused", "refusal-changed-the-connection-state", inp,
                                f"connected/sock/closed flags stay {prev_flags}", flags, size=size)
            elif a[0] == "close" and connected and not inert:
                want = rx.srv_frame(8, s.to_bytes(2, "big") + (bytes.fromhex(a[2]) if a[2] != "-" else b""), 1, 0, b"\x00" * 4)
                if not (delta.startswith("h") and bytes.fromhex(delta[1:]).startswith(want)) and flags[1] == "0" and sock.send_fail_after is None:
                    if not delta.startswith("h" + want.hex()):
                        ctx.violate("close-frame-carries-status-and-reason", "wrong-close-bytes", inp, want.hex(), delta, size=size)
        # (a) own-initiative close frames
        if a[0] == "sclose":
            pass
        else:
            own_close += ncl
            if ncl and closes_written and own_close <= 1:
                ctx.violate("at-most-one-own-close-frame", "own-close-after-a-close-frame-was-already-written-" +
                            ("reply" if a[0] in ("recv", "rdf") else a[0]), inp,
                            "no close()/auto-reply close frame once a close frame has been written on this connection",
                            f"step {op} wrote another close frame", size=size)
        closes_written += ncl
        if own_close > 1:
            ctx.violate("at-most-one-own-close-frame", "second-close-frame-" + ("reply" if a[0] in ("recv", "rdf") else a[0]), inp,
                        "<= 1 close frame on own initiative", f"{own_close} after step {op}", size=size)
            own_close = -10**6
        # (c) inert afterwards
        if inert and a[0] in ("send", "recv", "ping", "rdf"):
            if res != "X:CLOSED" or calls != prev_calls:
                ctx.violate("inert-after-close-or-loss", "touches-transport" if calls != prev_calls else "wrong-exception-" + res[:12], inp,
                            "X:CLOSED with zero transport calls", f"{res} calls +{calls - prev_calls}", size=size)
        became_inert = False
        if a[0] == "close" and connected and res == "ok":
            became_inert = True
            t = int(a[3])
            el = clock - prev_clock
            if el >= 2 * t and t > 0:
                ctx.violate("close-returns-within-timeout", "exceeds-2x-timeout", inp, f"< {2 * t} ms", f"{el} ms", size=size)
            nrecv = sock.step_recvs[len(step_seen)] - (sock.step_recvs[len(step_seen) - 1] if step_seen else 0)
            if t == 0 and nrecv > 50:
                ctx.violate("close-returns-within-timeout", "timeout-0-reads-as-long-as-data-arrives", inp,
                            "no deadline-less reading with timeout=0", f"{nrecv} transport reads inside close(timeout=0)", size=size)
            if script in ("silent",) and el != t and not inert and sock.send_fail_after is None:
                ctx.violate("close-returns-within-timeout", "silent-peer-not-exactly-timeout", inp, f"{t} ms", f"{el} ms", size=size)
        if res == "X:CLOSED" and a[0] in ("recv", "rdf") and not inert and calls > prev_calls:
            became_inert = True        # the call read the end of the stream: the connection is lost
        if a[0] == "shutdown":
            became_inert = True
        if became_inert or inert:
            if flags[0] != "0" or flags[1] != "0" or flags[2] != "1":
                ctx.violate("transport-released", "still-" + ("connected" if flags[0] != "0" else "holding-socket" if flags[1] != "0" else "open"), inp,
                            "connected=0 sock=None transport closed", flags, size=size)
        inert = inert or became_inert
        connected = flags[0] == "1"
        prev_calls, prev_clock = calls, clock
        prev_flags = flags
        step_seen.append(op)


def run(ctx):
    ctx.rule = ("histories of client calls over {send, recv, ping, close(ok/ok+reason/out-of-range), send_close(ok/out-of-range), "
                "shutdown, recv_data_frame} exhaustive to length 3 (4 thorough) + random to length 9, x 12 server scripts (silence, "
                "data, ping, close, two closes, eof, reset, late close, slow chatter ...) in virtual time. non-trivial = history "
                "contains a close/send_close/shutdown or the script a close/eof")
    scr = scripts()
    rnd = ctx.rng("pick")
    sessions, meta = [], []
    hs = histories(ctx)
    names = list(scr)
    for hi, ops in enumerate(hs):
        picks = names if len(ops) <= 2 else rnd.sample(names, 3 if not ctx.thorough() else 4)
        for nm in picks:
            cfg = {"tail": "timeout", "to": 2000}
            sessions.append((cfg, scr[nm], ops))
            meta.append((nm, ops))
            if len(ops) <= 2 or rnd.random() < 0.15:
                # the transport starts refusing writes (EPIPE) at the k-th send: close() must still release everything
                cfg = {"tail": "timeout", "to": 2000, "fail": rnd.choice([0, 0, 1, 2])}
                sessions.append((cfg, scr[nm], ops))
                meta.append((nm, ops))
            if len(ops) <= 2 or rnd.random() < 0.15:
                # the transport takes every frame in pieces (close frames and close replies included)
                sessions.append(({"tail": "timeout", "to": 2000, "acc": rnd.choice([[1], [3, 1, 2], [4, 4], [2, 5, 1]])}, scr[nm], ops))
                meta.append((nm, ops))
            if (len(ops) <= 2 and nm in ("eof", "data-eof", "close", "reset")) or rnd.random() < 0.1:
                # a non-blocking transport (timeout 0): "no data now" is EAGAIN, end of stream is still the loss of the connection
                sessions.append(({"tail": "timeout", "to": 0}, scr[nm], ops))
                meta.append((nm, ops))
    res = rx.run_sessions(ctx, "session:close-state", sessions)
    for (nm, ops), (impl, model, ws, sock, line) in zip(meta, res):
        nontriv = any(o.split(":")[0] in ("close", "sclose", "shutdown") for o in ops) or nm in ("close", "close2", "eof", "data-close", "data-eof", "reset")
        ctx.case(key=line, nontrivial=nontriv, cls=f"script={nm}:len={min(len(ops), 5)}",
                 sample={"script": nm, "calls": ops, "impl": impl[:240]} if len(ctx.samples) < 6 and len(ops) == 4 and nm in ("close2", "late-close") else None)
        judge(ctx, line, nm, ops, impl, sock)
    run_app_facade(ctx)


def run_app_facade(ctx):
    """the same state machine through the application object's own entry points (`WebSocketApp.send` / `.close(**kwargs)`),
    the connection made and held as run_forever holds it (`app.sock`): a refused status leaves the connection as it was;
    a later valid close writes its one frame and releases the transport.  Oracle only."""
    import websocket
    rnd = ctx.rng("app-facade")
    bads = [-1, 999, 65536, 70000, 1 << 20]      # (999 is in 0..65535: refused only by range → see below)
    for it in range(60 if ctx.thorough() else 24):
        bad = bads[it % len(bads)]
        steps = rnd.choice([["bad", "send", "good"], ["bad", "good"], ["send", "bad", "bad", "good"], ["bad", "send", "send", "good", "send"],
                            ["good", "send"], ["bad", "good", "good"]])
        app = websocket.WebSocketApp("ws://example.test/")
        ws = websocket.WebSocket()
        sock = simnet.SimSocket([], tail="timeout")
        sock.timeout = 0.2
        ws.sock, ws.connected = sock, True
        ws.set_mask_key(lambda n: b"\x00" * n)
        app.sock = ws
        app.keep_running = True
        obs, closed_ok = [], False
        for st in steps:
            before = len(sock.sent)
            try:
                if st == "bad":
                    app.close(status=bad)
                elif st == "good":
                    app.close(status=1001, reason=b"bye", timeout=0)
                else:
                    # the three sibling senders of the application object, in turn
                    k_ = (it + len(obs)) % 3
                    if k_ == 0:
                        app.send("hi")
                    elif k_ == 1:
                        app.send_text("hi")
                    else:
                        app.send_bytes(b"hi")
                r = "ok"
            except Exception as e:  # noqa
                r = "X:" + common.canon_exc(e)
            obs.append((st, r, bytes(sock.sent[before:]).hex()))
        ctx.case(key=("app-facade", it, bad, tuple(steps)), nontrivial=True, cls=f"app-facade:{'-'.join(steps)[:40]}")
        inp = {"op": "WebSocketApp.close(status=bad) / .send('hi') / .close(status=1001, reason=b'bye') on an app holding a connection",
               "bad_status": bad, "steps": steps}
        in_range = 0 <= bad < 65536
        def cf(body):
            return (bytes([0x88, 0x80 | len(body)]) + b"\x00" * 4 + body).hex()
        want, live = [], True
        for st in steps:
            if st == "bad":
                if in_range and live:
                    want.append((st, "ok", cf(bad.to_bytes(2, "big"))))
                    live = False
                elif live:
                    want.append((st, "X:VALUEERROR", ""))
                else:
                    want.append((st, "ok", ""))
            elif st == "good":
                want.append((st, "ok", cf((1001).to_bytes(2, "big") + b"bye") if live else ""))
                live = False
            else:
                k_ = (it + len(want)) % 3
                want.append((st, "ok" if live else "X:CLOSED", ("82" if k_ == 2 else "81") + "8200000000" + b"hi".hex() if live else ""))
        norm = [(a, b, c) for a, b, c in obs]
        if norm != want:
            ctx.violate("status-range-enforced" if any(w[1] == "X:VALUEERROR" for w in want) else "at-most-one-own-close",
                        "app-close-with-refused-status-loses-the-connection" if not in_range else "app-facade-close-state",
                        inp, want, norm, size=len(steps))
        if not live and not (sock.closed or sock.shutdown_called):
            ctx.violate("released-after-close", "app-close-leaves-transport-open", inp, "transport shut down / closed", "open", size=len(steps))


def search(ctx):
    run(ctx)


def replay(ctx, data):
    sub = common.Ctx(ctx.prop, "quick", ctx.seed)
    run(sub)
    for v in sub.violations:
        if v["clause"] == data["clause"] and v["cause"] == data["cause"]:
            ctx.violations.append(v)
            return False
    return True
