"""C01 — every frame written is a well-formed masked RFC 6455 client frame with exact payload.

(C) `m-session` (Model.Conn.sendFrame/format) vs the real send/ping/pong/send_close/close/send_frame on a
SimSocket: identical bytes, return value, key draws.  (O) the Spec decoder (`s-decode-all`, the one
C01_wire is proved about) applied to the bytes the REAL code wrote: exactly one frame, requested FIN /
opcode, reserved clear, MASK set, key = the recorded draw, minimal length form, payload = request,
return value = bytes written, exactly one draw(4) per frame.
"""
import common
from common import summarize
import session

OPC = [0, 1, 2, 8, 9, 10]
TEXTS = ["", "a", "héllo", "κόσμε", "😀", "a😀b" * 20, "߿ࠀ￿\U00010000\U0010ffff"]


def lengths(ctx):
    rnd = ctx.rng("lengths")
    if ctx.thorough():
        ls = list(range(0, 70001))
        ls += [rnd.randrange(70001, 1 << 22) for _ in range(12)]
    else:
        ls = list(range(0, 301)) + list(range(65400, 65701))
        ls += [rnd.randrange(301, 65400) for _ in range(30)] + [rnd.randrange(65701, 1 << 20) for _ in range(10)]
    return ls


def build_cases(ctx):
    rnd = ctx.rng("cases")
    cases = []
    ci = 0
    for n in lengths(ctx):
        # data opcodes: cycle; control opcodes only when n <= 125
        combos = []
        if n <= 125:
            combos = [(op, fin) for op in OPC for fin in (0, 1)]
        else:
            combos = [((0, 1, 2)[ci % 3], ci // 3 % 2)]
            if n in (126, 127, 65535, 65536, 65537):
                combos = [(op, fin) for op in (0, 1, 2) for fin in (0, 1)]
        for op, fin in combos:
            ci += 1
            keymode = ("script", "urandom", "strkey")[rnd.randrange(3)] if n > 4 else ("script", "urandom", "strkey")[ci % 3]
            key = bytes(rnd.randrange(0x21, 0x7f) for _ in range(4)) if keymode == "strkey" else bytes(rnd.randrange(256) for _ in range(4))
            ptype = (bytes, bytearray)[rnd.randrange(2)]
            trace = (rnd.random() < 0.15) if n > 300 else bool(ci % 2)
            seed = rnd.randrange(1000)
            if fin == 1 and op in (1, 2, 9, 10) and rnd.random() < 0.5:
                api = {1: "send", 2: "send", 9: "ping", 10: "pong"}[op]
            else:
                api = "sendf"
            cases.append({"n": n, "op": op, "fin": fin, "keymode": keymode, "key": key, "ptype": ptype,
                          "trace": trace, "seed": seed, "api": api, "acc": None})
    # short-write patterns on a few sizes (the return value and the bytes must not depend on them)
    for n in (0, 1, 5, 125, 126, 200, 65536):
        for acc in ([1], [2, 1], [7], [3, 1000], [100000]):
            cases.append({"n": n, "op": 2, "fin": 1, "keymode": "script", "key": b"\x01\x02\x03\x04", "ptype": bytes,
                          "trace": False, "seed": n, "api": "send", "acc": acc})
    return cases


def op_string(c):
    p = f"gen:{c['n']}:{c['seed']}" if c["n"] else "-"
    if c["api"] == "send":
        return f"send:{c['op']}:{p}"
    if c["api"] == "ping":
        return f"ping:{p}"
    if c["api"] == "pong":
        return f"pong:{p}"
    return f"sendf:{c['fin']}:{c['op']}:{p}"


def judge_wire(ctx, inp, dec, want_fin, want_op, want_payload, key, ret, delta_len, draws, label):
    """dec = output of s-decode-all on the real wire delta."""
    parts = dec.split(";")
    if parts and parts[-1] == "rest=0":
        parts.pop()
    exp = f"{want_fin}:000:{want_op}:1:{key.hex()}:{minimal(len(want_payload))}:{summarize(want_payload)}"
    if len(parts) != 1 or parts[0] != exp:
        got = parts[0] if parts else ""
        cause = "not-one-frame"
        if len(parts) == 1:
            g, e = got.split(":", 6), exp.split(":", 6)
            names = ["fin", "rsv", "opcode", "mask-bit", "key", "length-form", "payload"]
            cause = "wrong-" + next((names[i] for i in range(min(len(g), len(e))) if g[i] != e[i]), "frame")
        ctx.violate("one-wellformed-masked-frame", cause, inp, exp, dec[:300], size=len(want_payload))
        return
    if ret is not None and ret != delta_len:
        ctx.violate("return-value-is-bytes-written", "wrong-return", inp, str(delta_len), str(ret), size=len(want_payload))
    if draws != [4]:
        ctx.violate("key-drawn-once-per-frame", "draws=" + ",".join(map(str, draws))[:20], inp, "[4]", str(draws), size=len(want_payload))


def minimal(n):
    return 7 if n <= 125 else (16 if n <= 65535 else 64)


def run(ctx):
    ctx.rule = ("one send per case: payload length (quick: 0..300, 65400..65700, 40 random; thorough: every 0..70000 + "
                "sampled to 2^22) x opcode (all six when <=125 bytes) x FIN x key source (set_mask_key bytes / ASCII str / "
                "default os.urandom, recorded) x bytes|bytearray x trace on/off x api (send, ping, pong, send_frame); "
                "str payloads; close()/send_close(); short-write patterns. non-trivial = length > 0")
    cases = build_cases(ctx)
    lines, impls, metas = [], [], []
    for c in cases:
        cfg = {"keys": [c["key"]]}
        if c["acc"]:
            cfg["acc"] = c["acc"]
        ops = [op_string(c)]
        extra = {}
        out, ws, sock = session.run_impl(cfg, [], ops, trace=c["trace"], payload_type=c["ptype"],
                                         keymode=c["keymode"], extra=extra)
        lines.append(session.line(cfg, [], ops))
        impls.append(out)
        payload = common.gen_bytes(c["n"], c["seed"])
        metas.append((c, bytes(sock.sent), payload, extra["draw_args"], out))
    # text (str) payloads, close frames
    for i, t in enumerate(TEXTS):
        for api in ("send", "sendf0"):
            cfg = {"keys": [b"kEy" + bytes([65 + i])]}
            tb = t.encode("utf-8")
            ops = [f"send:1:{tb.hex() or '-'}"] if api == "send" else [f"sendf:0:1:{tb.hex() or '-'}"]
            extra = {}
            out, ws, sock = session.run_impl(cfg, [], ops, payload_type=lambda b: b.decode("utf-8"), keymode="strkey", extra=extra)
            lines.append(session.line(cfg, [], ops))
            impls.append(out)
            metas.append(({"n": len(tb), "op": 1, "fin": 1 if api == "send" else 0, "key": cfg["keys"][0], "api": "text-str",
                           "keymode": "strkey", "trace": False, "acc": None, "seed": 0}, bytes(sock.sent), tb, extra["draw_args"], out))
    for status, reason in [(1000, b""), (1001, b"bye"), (4999, "grüß".encode()), (0, b""), (65535, b"x" * 123)]:
        for api in ("sclose", "close"):
            cfg = {"keys": [b"\xaa\xbb\xcc\xdd"], "tail": "timeout", "to": 1000}
            ops = [f"sclose:{status}:{reason.hex() or '-'}"] if api == "sclose" else [f"close:{status}:{reason.hex() or '-'}:100"]
            extra = {}
            out, ws, sock = session.run_impl(cfg, [], ops, extra=extra)
            lines.append(session.line(cfg, [], ops))
            impls.append(out)
            metas.append(({"n": 2 + len(reason), "op": 8, "fin": 1, "key": cfg["keys"][0], "api": api, "keymode": "script",
                           "trace": False, "acc": None, "seed": 0, "noret": True}, bytes(sock.sent), status.to_bytes(2, "big") + reason,
                          extra["draw_args"], out))
    dec_lines = ["s-decode-all " + (m[1].hex() or "-") for m in metas]
    outs = common.run_driver_parallel(lines + dec_lines)
    mo, dec = outs[:len(lines)], outs[len(lines):]
    common.compare_streams(ctx, "session:send", lines, mo, impls)
    for (c, wire, payload, draws, out), d, l in zip(metas, dec, lines):
        n = c["n"]
        cls = f"len={'0' if n == 0 else '1-125' if n <= 125 else '126-65535' if n <= 65535 else '65536+'}:op={c['op']}:fin={c['fin']}:key={c['keymode']}:trace={int(c['trace'])}:api={c['api']}"
        ctx.case(key=(n, c["op"], c["fin"], c["keymode"], c["api"], bool(c["acc"])), nontrivial=n > 0, cls=cls,
                 sample={"op": l, "impl": out[:160]} if len(ctx.samples) < 6 and n in (5, 126, 65536) else None)
        first = out.split(";")[0].split("|")
        ret = None
        if first[0].startswith("N:"):
            ret = int(first[0][2:])
        elif first[0].startswith("X:"):
            ctx.violate("send-succeeds", "raises-" + first[0][2:], {"op": l}, "frame written", out[:200], size=n)
            continue
        judge_wire(ctx, {"op": l, "keymode": c["keymode"], "trace": c["trace"]}, d, c["fin"], c["op"], payload,
                   c["key"], ret if not c.get("noret") else None, len(wire), draws, cls)


def search(ctx):
    run(ctx)


def replay(ctx, data):
    sub = common.Ctx(ctx.prop, "quick", ctx.seed)
    run(sub)
    for v in sub.violations:
        if v["clause"] == data["clause"] and v["cause"] == data["cause"]:
            ctx.violations.append(v)
            return False
    return True
