"""C01 — every frame written is a well-formed masked RFC 6455 client frame with exact payload.

(C) `m-session` (Model.Conn.sendFrame/format) vs the real send/ping/pong/send_close/close/send_frame on a
SimSocket: identical bytes, return value, key draws.  (O) the Spec decoder (`s-decode-all`, the one
C01_wire is proved about) applied to the bytes the REAL code wrote: exactly one frame, requested FIN /
opcode, reserved clear, MASK set, key = the recorded draw, minimal length form, payload = request,
return value = bytes written, exactly one draw(4) per frame.
"""
import common
from common import summarize
import session
import simnet

OPC = [0, 1, 2, 8, 9, 10]
TEXTS = ["", "a", "héllo", "κόσμε", "😀", "a😀b" * 20, "߿ࠀ￿\U00010000\U0010ffff"]


def lengths(ctx):
    rnd = ctx.rng("lengths")
    if ctx.thorough():
        ls = list(range(0, 70001))
        ls += [rnd.randrange(70001, 1 << 22) for _ in range(12)]
    else:
        ls = list(range(0, 301)) + list(range(65400, 65701))
        ls += [rnd.randrange(301, 65400) for _ in range(30)] + [rnd.randrange(65701, 1 << 20) for _ in range(10)]
    return ls


def build_cases(ctx):
    rnd = ctx.rng("cases")
    cases = []
    ci = 0
    for n in lengths(ctx):
        # data opcodes: cycle; control opcodes only when n <= 125
        combos = []
        if n <= 125:
            combos = [(op, fin) for op in OPC for fin in (0, 1)]
        else:
            combos = [((0, 1, 2)[ci % 3], ci // 3 % 2)]
            if n in (126, 127, 65535, 65536, 65537):
                combos = [(op, fin) for op in (0, 1, 2) for fin in (0, 1)]
        for op, fin in combos:
            ci += 1
            # (factory: the connection comes from create_connection(url, get_mask_key=source))
            keymode = ("script", "urandom", "strkey", "factory")[rnd.randrange(4)] if n > 4 else ("script", "urandom", "strkey", "factory")[ci % 4]
            key = bytes(rnd.randrange(0x21, 0x7f) for _ in range(4)) if keymode == "strkey" else bytes(rnd.randrange(256) for _ in range(4))
            ptype = (bytes, bytearray)[rnd.randrange(2)]
            trace = (rnd.random() < 0.15) if n > 300 else bool(ci % 2)
            seed = rnd.randrange(1000)
            if fin == 1 and op in (1, 2, 9, 10) and rnd.random() < 0.5:
                api = {1: "send", 2: "send", 9: "ping", 10: "pong"}[op]
            else:
                api = "sendf"
            cases.append({"n": n, "op": op, "fin": fin, "keymode": keymode, "key": key, "ptype": ptype,
                          "trace": trace, "seed": seed, "api": api, "acc": None})
    # every opcode through send(payload, opcode) itself (opcode 0 = continuation and 8 = close included: "the requested opcode")
    for n in (0, 1, 5, 125):
        for op in OPC:
            cases.append({"n": n, "op": op, "fin": 1, "keymode": "script", "key": bytes([0x31 + op, 0x41, 0x51, 0x61]), "ptype": bytes,
                          "trace": bool(n % 2), "seed": n + op, "api": "send", "acc": None})
    # short-write patterns on a few sizes (the return value and the bytes must not depend on them)
    for n in (0, 1, 5, 125, 126, 200, 65536):
        for acc in ([1], [2, 1], [7], [3, 1000], [100000]):
            cases.append({"n": n, "op": 2, "fin": 1, "keymode": "script", "key": b"\x01\x02\x03\x04", "ptype": bytes,
                          "trace": False, "seed": n, "api": "send", "acc": acc})
    return cases


def op_string(c):
    p = f"gen:{c['n']}:{c['seed']}" if c["n"] else "-"
    if c["api"] == "send":
        return f"send:{c['op']}:{p}"
    if c["api"] == "ping":
        return f"ping:{p}"
    if c["api"] == "pong":
        return f"pong:{p}"
    return f"sendf:{c['fin']}:{c['op']}:{p}"


def judge_wire(ctx, inp, dec, want_fin, want_op, want_payload, key, ret, delta_len, draws, label):
    """dec = output of s-decode-all on the real wire delta."""
    parts = dec.split(";")
    if parts and parts[-1] == "rest=0":
        parts.pop()
    exp = f"{want_fin}:000:{want_op}:1:{key.hex()}:{minimal(len(want_payload))}:{summarize(want_payload)}"
    if len(parts) != 1 or parts[0] != exp:
        got = parts[0] if parts else ""
        cause = "not-one-frame"
        if len(parts) == 1:
            g, e = got.split(":", 6), exp.split(":", 6)
            names = ["fin", "rsv", "opcode", "mask-bit", "key", "length-form", "payload"]
            cause = "wrong-" + next((names[i] for i in range(min(len(g), len(e))) if g[i] != e[i]), "frame")
        ctx.violate("one-wellformed-masked-frame", cause, inp, exp, dec[:300], size=len(want_payload))
        return
    if ret is not None and ret != delta_len:
        ctx.violate("return-value-is-bytes-written", "wrong-return", inp, str(delta_len), str(ret), size=len(want_payload))
    if draws != [4]:
        ctx.violate("key-drawn-once-per-frame", "draws=" + ",".join(map(str, draws))[:20], inp, "[4]", str(draws), size=len(want_payload))


def minimal(n):
    return 7 if n <= 125 else (16 if n <= 65535 else 64)


def oracle_subset(c, rnd_val):
    """which cases are also handed (whole wire) to the Lean Spec decoder; the rest are judged against an
    independent Python encoder and, like all cases, compared with the model through summaries."""
    n = c["n"]
    return n <= 300 or 65400 <= n <= 65700 or rnd_val < 0.03


def process_chunk(args):
    """runs one chunk of cases; returns plain data (used in-process and in worker processes)."""
    cases, seed, chunk_id = args
    import random as _random
    import rx
    rx.neighbours()        # other connections and earlier (traced) traffic in the same process must not show in what is written
    rr = _random.Random(f"{seed}:C01:oracle:{chunk_id}")
    lines, impls, metas = [], [], []
    for ci, c in enumerate(cases):
        cfg = {"keys": [c["key"]]}
        if c.get("acc"):
            cfg["acc"] = c["acc"]
        ops = [c["opstr"]] if "opstr" in c else [op_string(c)]
        if ci % 2:
            ops = session.alias_ops(ops, f"C01:{chunk_id}:{ci}")     # send_binary / send_bytes / send_text spellings
        extra = {}
        if "cfg" in c:
            cfg = c["cfg"]
        out, ws, sock = session.run_impl(cfg, [], ops, trace=c.get("trace", False), payload_type=c.get("ptype_fn", c.get("ptype", bytes)),
                                         keymode=c["keymode"], extra=extra)
        lines.append(session.line(cfg, [], ops))
        impls.append(out)
        wire = bytes(sock.sent)
        payload = c["payload"] if "payload" in c else common.gen_bytes(c["n"], c["seed"])
        metas.append((c, wire if oracle_subset(c, rr.random()) else None, len(wire), payload, extra["draw_args"], out,
                      wire == simnet.srv_frame(c["op"], payload, c["fin"], 0, c["key"])))
    dec_lines = ["s-decode-all " + (m[1].hex() or "-") for m in metas if m[1] is not None]
    outs = common.run_driver(lines + dec_lines)
    mo, dec = outs[:len(lines)], outs[len(lines):]
    res = {"cases": [], "diverge": [], "violate": [], "samples": []}
    di = 0
    for (c, wire, wlen, payload, draws, out, py_ok), l, m in zip(metas, lines, mo):
        n = c["n"]
        if m != out:
            res["diverge"].append(("session:send", l[:300], m[:300], out[:300]))
        cls = (f"len={'0' if n == 0 else '1-125' if n <= 125 else '126-65535' if n <= 65535 else '65536+'}:op={c['op']}:fin={c['fin']}"
               f":key={c['keymode']}:trace={int(c.get('trace', False))}:api={c['api']}")
        res["cases"].append(((n, c["op"], c["fin"], c["keymode"], c["api"], bool(c.get("acc"))), n > 0, cls))
        if n in (5, 126, 65536) and len(res["samples"]) < 2:
            res["samples"].append({"op": l[:200], "impl": out[:160]})
        first = out.split(";")[0].split("|")
        ret = None
        inp = {"op": l[:300], "keymode": c["keymode"], "trace": c.get("trace", False)}
        if c.get("expect_exn"):
            if first[0] != c["expect_exn"] or wlen != 0 or draws:
                res["violate"].append(("unencodable-text-refused", "not-refused-cleanly", inp, c["expect_exn"] + ", nothing drawn or written",
                                       f"{out[:120]} wire={wlen} draws={draws}", n))
            if wire is not None:
                di += 1
            continue
        if first[0].startswith("N:"):
            ret = int(first[0][2:])
        elif first[0].startswith("X:"):
            res["violate"].append(("send-succeeds", "raises-" + first[0][2:], inp, "frame written", out[:200], n))
            if wire is not None:
                di += 1
            continue
        sub = common.Ctx("C01", "quick", seed)
        if wire is not None:
            judge_wire(sub, inp, dec[di], c["fin"], c["op"], payload, c["key"], ret if not c.get("noret") else None, wlen, draws, cls)
            di += 1
        else:
            if not py_ok:
                sub.violate("one-wellformed-masked-frame", "differs-from-independent-encoder", inp, "RFC frame of the request", f"{wlen} bytes", size=n)
            if ret is not None and not c.get("noret") and ret != wlen:
                sub.violate("return-value-is-bytes-written", "wrong-return", inp, str(wlen), str(ret), size=n)
            if draws != [4]:
                sub.violate("key-drawn-once-per-frame", "draws=" + ",".join(map(str, draws))[:20], inp, "[4]", str(draws), size=n)
        for v in sub.violations:
            res["violate"].append((v["clause"], v["cause"], v["input"], v["expected"], v["observed"], v["size"]))
    return res


def run_reuse(ctx):
    """several writes on one connection through ONE re-used frame object (send_frame's own docstring does that), with fin /
    opcode / data reassigned in between and equal-length chunks, and frames the caller rendered itself before sending:
    every write is one fresh frame carrying the requested FIN and opcode, masked with the next key of the connection's source."""
    import rx
    rnd = ctx.rng("reuse")
    sessions, meta = [], []
    for i in range(200 if ctx.thorough() else 40):
        k = rnd.randint(2, 6)
        clen = rnd.choice([0, 1, 2, 5, 125, 126, 300])
        msg = rx.payload(rnd, clen * k, "bin")
        first_op = rnd.choice([1, 2]) if clen == 0 or max(msg, default=0) < 0x80 else 2
        shape = rnd.choice(["fragments", "resend", "mixed"])
        reqs = []
        for j in range(k):
            if shape == "fragments":
                reqs.append((1 if j == k - 1 else 0, first_op if j == 0 else 0, msg[j * clen:(j + 1) * clen]))
            elif shape == "resend":
                reqs.append((1, first_op, msg[:clen]))
            else:
                reqs.append((rnd.randint(0, 1), rnd.choice([0, 2, 9, 10] if clen <= 125 else [0, 2]), msg[j * clen:(j + 1) * clen]))
        kind = rnd.choice(["sendfo", "sendfo", "sendfp"])
        keys = [bytes([0x41 + j, 0x61 + i % 26, 0x30 + j, 0x7a - j]) for j in range(k)]
        ops = [f"{kind if not (kind == 'sendfp' and j % 2) else 'sendfo'}:{fin}:{op}:{d.hex() or '-'}" for j, (fin, op, d) in enumerate(reqs)]
        sessions.append(({"keys": list(keys)}, [], ops))
        meta.append((reqs, keys, shape, kind))
    lines, impls, wires = [], [], []
    for cfg, ev, ops in sessions:
        out, ws, sock = session.run_impl(cfg, ev, ops, keymode="script")
        lines.append(session.line(cfg, ev, ops))
        impls.append(out)
        wires.append(bytes(sock.sent))
    mo = common.run_driver_parallel(lines)
    common.compare_streams(ctx, "session:frame-object-reuse", lines, mo, impls)
    for (reqs, keys, shape, kind), wire, line, impl, (dec, rest) in zip(meta, wires, lines, impls, rx.spec_decode_all(wires)):
        ctx.case(key=line, nontrivial=True, cls=f"reuse:{shape}:{kind}:n={len(reqs)}:len={len(reqs[0][2])}")
        inp = {"op": line[:300], "shape": shape, "how": kind}
        want = [f"{fin}:000:{op}:1:{key.hex()}" for (fin, op, d), key in zip(reqs, keys)]
        got = [":".join(d.split(":", 6)[:5]) for d in dec]
        gotp = [d.split(":", 6)[6] for d in dec]
        wantp = [common.summarize(d) for _, _, d in reqs]
        if rest != 0 or len(dec) != len(reqs):
            ctx.violate("one-wellformed-masked-frame", "reused-frame-object-wire-not-whole-frames", inp, f"{len(reqs)} frames", f"{len(dec)} frames rest={rest}", size=len(reqs))
        elif [g.rsplit(":", 1)[0] for g in got] != [w.rsplit(":", 1)[0] for w in want]:
            ctx.violate("one-wellformed-masked-frame", "reused-frame-object-wrong-fin-or-opcode", inp, want, got, size=len(reqs))
        elif gotp != wantp:
            ctx.violate("one-wellformed-masked-frame", "reused-frame-object-wrong-payload", inp, wantp[:4], gotp[:4], size=len(reqs))
        elif got != want:
            ctx.violate("key-drawn-once-per-frame", "reused-frame-object-key-not-the-next-drawn", inp, want, got, size=len(reqs))
    ctx.traces_vs_impl += len(lines)


def run_reuse_sources(ctx):
    """ONE frame object written through connections with DIFFERENT configured key sources (two live connections used
    alternately; one connection after set_mask_key; default source then custom and back): the key on the wire is drawn, once,
    from the source configured on the connection that writes — at the time it writes.  Oracle only."""
    import os
    import rx
    import websocket
    from websocket import ABNF
    rnd = ctx.rng("reuse-sources")
    for it in range(120 if ctx.thorough() else 30):
        n = rnd.randint(2, 5)
        data = rx.payload(rnd, rnd.choice([0, 1, 5, 126]), "bin")
        fop = rnd.choice([2, 2, 9]) if len(data) <= 125 else 2
        srcs = {}

        def mk(name):
            calls = []

            def src(k, name=name, calls=calls):
                calls.append(k)
                return bytes([ord(name), 0x30 + len(calls), 0x5f, ord(name)])
            srcs[name] = (src, calls)
            return src
        for nm in "ABC":
            mk(nm)
        old = os.urandom
        dcalls = []

        def urandom(k):
            dcalls.append(k)
            return bytes([0x64, 0x30 + len(dcalls), 0x5f, 0x64])[:k] if k == 4 else old(k)
        conns = []
        for _ in range(2):
            ws = websocket.WebSocket()
            ws.sock, ws.connected = simnet.SimSocket([]), True
            conns.append(ws)
        plan, wires, want = [], [], []
        os.urandom = urandom
        try:
            frame = ABNF.create_frame(data, fop)         # (a frame object takes the default source when it is made)
            for j in range(n):
                ci = rnd.randrange(2)
                # d = the default source (fresh object, set_mask_key never called) — only while the frame object has not been
                # through a connection with a configured source: send_frame hands the connection's source to the frame
                # object, and a connection without one leaves the frame's own source alone (not judged here)
                srcname = rnd.choice("ABCd" if all(p_.endswith(":d") for p_ in plan) else "ABC")
                ws = conns[ci]
                if srcname == "d":
                    if getattr(ws, "_vp_src", "d") != "d":
                        # a connection keeps its configured source; the default one is only seen on a fresh object
                        ws = websocket.WebSocket()
                        ws.sock, ws.connected = simnet.SimSocket([]), True
                        conns[ci] = ws
                else:
                    ws.set_mask_key(srcs[srcname][0])
                ws._vp_src = srcname
                before = len(ws.sock.sent)
                ncalls = len(dcalls) if srcname == "d" else len(srcs[srcname][1])
                ws.send_frame(frame)
                wire = bytes(ws.sock.sent[before:])
                after = len(dcalls) if srcname == "d" else len(srcs[srcname][1])
                plan.append(f"conn{ci}:{srcname}")
                key = wire[2 + (0 if len(data) < 126 else 2):][:4]
                exp = bytes([0x64 if srcname == "d" else ord(srcname), 0x30 + after, 0x5f, 0x64 if srcname == "d" else ord(srcname)])
                wires.append((key, exp, after - ncalls))
        finally:
            os.urandom = old
        ctx.case(key=("reuse-sources", it, tuple(plan)), nontrivial=len(set(plan)) > 1, cls=f"reuse-across-key-sources:n={n}")
        inp = {"op": "one frame object, send_frame through " + " , ".join(plan), "payload_len": len(data)}
        for j, (key, exp, drawn) in enumerate(wires):
            if drawn != 1 or key != exp:
                ctx.violate("key-drawn-once-per-frame", "reused-frame-object-key-from-another-source", dict(inp, write=j),
                            f"key {exp.hex()} drawn once from the writing connection's source", f"key {key.hex()}, draws from that source: {drawn}",
                            size=n)
                break


def run_reply_sources(ctx):
    """the frames the library writes BY ITSELF (the pong answering a ping, the reply to the server's close frame), on
    several connections of one process used one after the other, each with its own key source (custom A, custom B, the
    default OS randomness): each reply is masked with a key drawn once from the source of the connection that writes it.
    Oracle only."""
    import os
    import websocket
    rnd = ctx.rng("reply-sources")
    old = os.urandom
    for it in range(80 if ctx.thorough() else 24):
        order = [rnd.choice("ABd") for _ in range(rnd.randint(2, 4))]
        kinds = [rnd.choice(["close", "ping", "close"]) for _ in order]
        draws = {"A": [], "B": [], "d": []}

        def src(name):
            def f(k):
                draws[name].append(k)
                return bytes([ord(name), 0x30 + len(draws[name]), 0x5f, ord(name)])[:k] if k == 4 else old(k)
            return f
        os.urandom = src("d")
        bad = None
        try:
            for j, (nm, kind) in enumerate(zip(order, kinds)):
                frame = simnet.srv_frame(8, b"\x03\xe8") if kind == "close" else simnet.srv_frame(9, b"pi")
                ws, sock = simnet.make_ws([("chunk", frame)])
                if nm != "d":
                    ws.set_mask_key(src(nm))
                before = len(draws[nm])
                try:
                    ws.recv_data_frame(True)
                except Exception:  # noqa
                    pass
                wire = bytes(sock.sent)
                exp_key = bytes([ord(nm), 0x30 + before + 1, 0x5f, ord(nm)])
                got_key = wire[2:6]
                if len(draws[nm]) - before != 1 or got_key != exp_key or len(wire) < 6 or not (wire[1] & 0x80):
                    bad = (j, nm, kind, wire.hex(), exp_key.hex(), len(draws[nm]) - before)
                    break
        finally:
            os.urandom = old
        ctx.case(key=("reply-sources", it, tuple(order), tuple(kinds)), nontrivial=len(set(order)) > 1, cls=f"automatic-replies-across-connections:n={len(order)}")
        if bad:
            j, nm, kind, wire, exp, nd = bad
            ctx.violate("key-drawn-once-per-frame", "automatic-reply-key-from-another-connection's-source",
                        {"op": "connections used one after the other, each receiving a frame it answers by itself",
                         "key_source_per_connection": order, "frame_received": kinds, "connection": j},
                        f"a masked reply with key {exp} drawn once from source {nm}", f"wire {wire}, draws from that source: {nd}", size=len(order))


def run(ctx):
    ctx.rule = ("one send per case: payload length (quick: 0..300, 65400..65700, 40 random; thorough: every 0..70000 + "
                "sampled to 2^22) x opcode (all six when <=125 bytes) x FIN x key source (set_mask_key bytes / ASCII str / "
                "default os.urandom, recorded) x bytes|bytearray x trace on/off x api (send, ping, pong, send_frame); "
                "str payloads; close()/send_close(); short-write patterns. Every case: model vs implementation through wire "
                "summaries (length, CRC-32 of the whole wire, first/last 32 bytes) + independent Python encoder; the Lean Spec "
                "decoder reads the whole real wire for lengths <= 300, 65400..65700 and a 3% sample; sequences of 2-6 writes through ONE "
                "re-used frame object (fin/opcode/data reassigned, equal-length chunks, plain re-sends) and frames rendered by the "
                "caller before send_frame(). non-trivial = length > 0")
    cases = build_cases(ctx)
    # text (str) payloads, close frames
    for i, t in enumerate(TEXTS):
        for api in ("send", "sendf0"):
            tb = t.encode("utf-8")
            cases.append({"n": len(tb), "op": 1, "fin": 1 if api == "send" else 0, "key": b"kEy" + bytes([65 + i]), "api": "text-str",
                          "keymode": "strkey", "trace": False, "acc": None, "seed": 0, "payload": tb,
                          "opstr": f"send:1:{tb.hex() or '-'}" if api == "send" else f"sendf:0:1:{tb.hex() or '-'}", "ptype_fn": _to_str})
    # str payloads through EVERY entry point that accepts one (send, ping, pong), given by code points; a str with a lone
    # surrogate cannot be encoded: refused before anything is drawn or written
    for i, t in enumerate(TEXTS + ["caf\u00e9", "\u00ff\u0100", "\u3053\u3093", "\U0001f600!", "\ud800", "a\udfffb"]):
        cps = ".".join(str(ord(ch)) for ch in t) or "-"
        try:
            tb = t.encode("utf-8")
        except UnicodeEncodeError:
            tb = None
        for api, op in (("sendt", 1), ("pingt", 9), ("pongt", 10)):
            if tb is not None and op != 1 and len(tb) > 125:
                continue
            cases.append({"n": len(tb or b""), "op": op, "fin": 1, "key": b"Kq" + bytes([65 + i % 26, 97 + i % 26]), "api": "str-" + api,
                          "keymode": "script" if i % 2 else "strkey", "trace": bool(i % 3 == 0), "acc": None, "seed": 0,
                          "payload": tb or b"", "noret": op != 1, "opstr": f"{api}:{cps}",
                          "expect_exn": None if tb is not None else "X:INTERNAL(UnicodeEncodeError)"})
    for status, reason in [(1000, b""), (1001, b"bye"), (4999, "grüß".encode()), (0, b""), (65535, b"x" * 123)]:
        for api in ("sclose", "close"):
            cases.append({"n": 2 + len(reason), "op": 8, "fin": 1, "key": b"\xaa\xbb\xcc\xdd", "api": api, "keymode": "script",
                          "trace": False, "acc": None, "seed": 0, "noret": True, "payload": status.to_bytes(2, "big") + reason,
                          "cfg": {"keys": [b"\xaa\xbb\xcc\xdd"], "tail": "timeout", "to": 1000},
                          "opstr": f"sclose:{status}:{reason.hex() or '-'}" if api == "sclose" else f"close:{status}:{reason.hex() or '-'}:100"})
    size = 400
    chunks = [(cases[i:i + size], ctx.seed, i // size) for i in range(0, len(cases), size)]
    if ctx.thorough() and len(chunks) > 8:
        import multiprocessing
        with multiprocessing.Pool(16) as pool:
            results = list(pool.imap(process_chunk, chunks))
    else:
        results = [process_chunk(ch) for ch in chunks]
    for res in results:
        for key, nontriv, cls in res["cases"]:
            ctx.case(key=key, nontrivial=nontriv, cls=cls)
        for s_ in res["samples"]:
            if len(ctx.samples) < 6:
                ctx.samples.append(s_)
        for op, inp, m, o in res["diverge"]:
            ctx.diverge(op, inp, m, o)
        for clause, cause, inp, exp, obs, size_ in res["violate"]:
            ctx.violate(clause, cause, inp, exp, obs, size=size_)
        ctx.traces_vs_impl += len(res["cases"])
    run_reuse(ctx)
    run_reuse_sources(ctx)
    run_reply_sources(ctx)


def _to_str(b):
    return bytes(b).decode("utf-8")


def search(ctx):
    run(ctx)


def replay(ctx, data):
    sub = common.Ctx(ctx.prop, "quick", ctx.seed)
    run(sub)
    for v in sub.violations:
        if v["clause"] == data["clause"] and v["cause"] == data["cause"]:
            ctx.violations.append(v)
            return False
    return True
