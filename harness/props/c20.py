"""C20 — cookies are replayed only to hosts inside the domain that set them.

A history is a list of handshake responses (cookies `(name, value)`, one Domain or none),
rendered canonically (`n=v; Domain=d` per cookie) and consumed by the REAL parser
(`http.cookies.SimpleCookie`), followed by targets.
(C) `m-cookie-pairs` / `m-cookie-header` (Model.Cookie) vs websocket._cookiejar.SimpleCookieJar
    and vs the Cookie header of real handshakes (process-wide jar) in the simulated network;
    `m-merge-set-cookie` vs websocket._http.read_headers.
(O) `s-cookie-admissible` (Spec.Cookie.admissibleB: a permutation of the covering store entries,
    name-sorted) applied to the pairs the REAL code sent; `s-cookie-header` for the join with
    the caller's cookie.
"""
import itertools
import json
import os

import common
import simnet
import simnet_h1 as N
from simnet_h1 import hx

CORPUS = os.path.join(common.VERIF, "corpus", "C20")

NAMES = ["a", "a1", "b"]
VALUES = ["1", "2"]
DOMAINS = ["x.co", "X.CO", ".x.co", "sub.x.co", "y.co", None]
TARGETS = ["x.co", "X.co", "sub.x.co", "badx.co", "co", "y.co"]


def cookie_sets():
    out = [[(n, v)] for n in NAMES for v in VALUES]
    out += [[("a", "1"), ("a1", "2")], [("a1", "1"), ("b", "2")], [("b", "1"), ("a", "2")], [("a1", "2"), ("a", "2")]]
    return out


def responses(extra=False):
    doms = list(DOMAINS) + (["", "..x.co", "Sub.X.Co", "co"] if extra else [])
    return [(cs, d) for cs in cookie_sets() for d in doms]


def render(resp):
    """canonical Set-Cookie value(s): one `n=v[; Domain=d]` per cookie."""
    cs, d = resp
    return [f"{n}={v}" + ("" if d is None else f"; Domain={d}") for n, v in cs]


def hist_arg(hist):
    if not hist:
        return "-"
    steps = []
    for cs, d in hist:
        ds = "!" if d is None else hx(d)
        ps = ",".join(f"{hx(n)}.{hx(v)}" for n, v in cs) if cs else "-"
        steps.append(f"a{ds}:{ps}")
    return ";".join(steps)


def parse_pairs(s):
    """`a=1; b=2` -> [(a,1),(b,2)]"""
    if not s:
        return []
    out = []
    for part in s.split("; "):
        n, _, v = part.partition("=")
        out.append((n, v))
    return out


def pairs_arg(pairs):
    return ",".join(f"{hx(n)}.{hx(v)}" for n, v in pairs) if pairs else "-"


def pairs_of_arg(s):
    if s == "-":
        return []
    out = []
    for p in s.split(","):
        n, v = p.split(".")
        out.append((bytes.fromhex(n).decode() if n not in "-~" else "", bytes.fromhex(v).decode() if v not in "-~" else ""))
    return out


def histories(ctx):
    rnd = ctx.rng("hist")
    rs = responses()
    hs = [[]]
    hs += [[r] for r in responses(extra=True)]
    pairs2 = list(itertools.product(rs, repeat=2))
    if not ctx.thorough():
        rnd.shuffle(pairs2)
        pairs2 = pairs2[:1500]
    hs += [list(t) for t in pairs2]
    n3 = 6000 if ctx.thorough() else 1200
    for _ in range(n3):
        k = rnd.choice([3, 3, 4] if ctx.thorough() else [3])
        hs.append([rnd.choice(rs) for _ in range(k)])
    # targeted: same name across covering domains, case variants, prefix names
    hs += [
        [([("a", "1")], "x.co"), ([("b", "2")], "X.CO")],
        [([("a", "1")], "example.com"), ([("b", "2")], "EXAMPLE.COM")],
        [([("a", "1"), ("a1", "2")], "x.co")],
        [([("a", "1")], "x.co"), ([("a", "2")], "sub.x.co")],
        [([("a", "2")], "x.co"), ([("a", "1")], "sub.x.co")],
        [([("a", "1")], "x.co"), ([("a", "2")], ".X.co"), ([("a1", "1")], "x.CO")],
        [([("a", "1")], None), ([("b", "1")], "x.co")],
        [([("a-b", "1"), ("a", "2"), ("a.b", "3"), ("a0", "4")], "x.co")],
    ]
    return hs


def classify_failure(hist, host, real, covering):
    rs, cs = sorted(real), sorted(covering)
    if rs != cs:
        missing = [p for p in cs if p not in rs]
        extra = [p for p in rs if p not in cs]
        doms = [d for _, d in hist if d]
        if extra and not covering:
            return "sent-outside-domain"
        if missing and any(d != d.lower() for d in doms):
            return "domain-lookup-not-lowercased"
        if extra:
            return "extra-cookie-sent"
        return "covering-cookie-missing"
    return "sorted-by-rendered-pair"


def run_unit(ctx, hists=None, targets=None):
    from websocket._cookiejar import SimpleCookieJar
    hists = hists if hists is not None else histories(ctx)
    targets = targets or TARGETS
    cases = []
    for h in hists:
        jar = SimpleCookieJar()
        try:
            for r in h:
                jar.add("; ".join(render(r)))
            err = None
        except Exception as e:  # noqa
            err = common.canon_exc(e)
        for t in targets:
            if err:
                cases.append((h, t, err))
            else:
                try:
                    cases.append((h, t, jar.get(t)))
                except Exception as e:  # noqa
                    cases.append((h, t, common.canon_exc(e)))
    lm, ls, lc = [], [], []
    for h, t, got in cases:
        ha = hist_arg(h)
        lm.append(f"m-cookie-pairs {ha} {hx(t)}")
        real = parse_pairs(got) if not got.startswith(("INTERNAL", "VALUEERROR")) else []
        ls.append(f"s-cookie-admissible {ha} {hx(t)} {pairs_arg(real)}")
        lc.append(f"s-cookie-covering {ha} {hx(t)}")
    out = common.run_driver_parallel(lm + ls + lc)
    n = len(cases)
    mo, so, co = out[:n], out[n:2 * n], out[2 * n:]
    for (h, t, got), m, s, c in zip(cases, mo, so, co):
        inp = {"op": "jar", "history": [[list(map(list, cs)), d] for cs, d in h], "target": t}
        ctx.case(key=("u", hist_arg(h), t), nontrivial=(c != "-"), cls=f"jar:len{min(len(h), 4)}:{'covered' if c != '-' else 'none'}",
                 sample=dict(inp, get=got, model=m, spec_covering=c) if len(h) == 2 and c != "-" and len(ctx.samples) < 6 else None)
        if got.startswith(("INTERNAL", "VALUEERROR")):
            ctx.violate("cookie-header-exact", "raises-" + got, inp, "a Cookie value", got, size=len(str(inp)))
            continue
        real = parse_pairs(got)
        if m != "unmodelled" and m != pairs_arg(real):
            ctx.diverge("unit:jar", inp, m, pairs_arg(real))
        if s != "1":
            cov = pairs_of_arg(c)
            ctx.violate("cookie-header-exact", classify_failure(h, t, real, cov), inp,
                        "name-sorted permutation of " + "; ".join(f"{n}={v}" for n, v in cov), got, size=len(str(inp)))
    ctx.traces_vs_impl += n


def run_merge(ctx):
    """Set-Cookie lines merged by read_headers."""
    from websocket._http import read_headers
    sets = [[], ["a=1"], ["a=1; Domain=x.co", "b=2; Domain=x.co"], ["a=1", "b=2", "c=3"], ["a=1 ", " b=2"],
            ["a=1; Domain=x.co", "a1=2; Domain=x.co", "b=1; Domain=x.co"]]
    lines = []
    real = []
    for vs in sets:
        head = b"HTTP/1.1 101 X\r\n" + b"".join(b"Set-Cookie: " + v.encode() + b"\r\n" for v in vs) + b"Upgrade: websocket\r\n\r\n"
        sock = simnet.SimSocket([("chunk", head)])
        _, headers, _ = read_headers(sock)
        got = headers.get("set-cookie")
        real.append("!" if got is None else hx(got))
        lines.append("m-merge-set-cookie " + (",".join(N.hx_item(v.strip()) for v in vs) if vs else "-"))
    out = common.run_driver(lines)
    for vs, r, m in zip(sets, real, out):
        ctx.case(key=("merge", tuple(vs)), nontrivial=len(vs) > 1, cls="merge")
        if m != r:
            ctx.diverge("unit:merge-set-cookie", vs, m, r)
        want = "!" if not vs else hx("; ".join(v.strip() for v in vs))
        if r != want:
            ctx.violate("set-cookie-lines-merged", "lines-lost-or-reordered", {"op": "merge", "values": vs}, want, r)
    ctx.traces_vs_impl += len(sets)


def e2e_histories(ctx):
    rnd = ctx.rng("e2e")
    rs = responses()
    tg = ["x.co", "sub.x.co", "badx.co", "co", "y.co", "X.co"]
    hs = []
    n = 1500 if ctx.thorough() else 250
    for _ in range(n):
        k = rnd.randint(2, 4 if ctx.thorough() else 3)
        # 4th element: the `host=` option (overrides the Host HEADER only; cookies follow the host actually connected to)
        hs.append([(rnd.choice(tg), rnd.choice(rs), rnd.choice([None, None, "c=9"])) for _ in range(k)]
                  + [(t, None, rnd.choice([None, "c=9"]), rnd.choice([None, "x.co", "sub.x.co", "y.co:8080"])) for t in rnd.sample(tg, 3)])
    hs.append([("x.co", ([("a", "1")], "example.com"), None), ("x.co", ([("b", "2")], "EXAMPLE.COM"), None),
               ("example.com", None, None), ("badexample.com", None, "c=9")])
    hs.append([("x.co", ([("a", "1"), ("a1", "2")], "x.co"), None), ("x.co", None, None), ("sub.x.co", None, "c=9")])
    # the caller's own cookie next to look-alikes in the jar (same pair, a prefix of a stored pair, a substring of the rendered
    # jar value): it is always appended, never merged or dropped
    for stored, client in (([("sid", "12")], "sid=1"), ([("sid", "1")], "sid=1"), ([("a", "1"), ("b", "2")], "a=1; b=2"),
                           ([("a", "1"), ("b", "2")], "b=2"), ([("token", "xyz")], "n=xyz"), ([("a", "1")], "1"), ([("ab", "1")], "b=1")):
        hs.append([("x.co", (stored, "x.co"), None), ("x.co", None, client), ("sub.x.co", None, client), ("y.co", None, client)])
    # a redirect answer is a handshake response too: its cookies are stored and replayed from the very next request on
    # (5th element: [(host the 302 points to, cookies set BY THE 302)], the last hop gets `resp`)
    t1, t2, t3 = ([("t", "1")], "x.co"), ([("u", "7")], "y.co"), ([("a", "2"), ("b", "1")], ".x.co")
    for first, chain in (("x.co", [("sub.x.co", t1)]), ("y.co", [("x.co", t1)]), ("x.co", [("y.co", t2)]),
                         ("x.co", [("sub.x.co", t1), ("x.co", t3)]), ("badx.co", [("x.co", t2), ("y.co", t1)])):
        for client in (None, "c=9"):
            hs.append([(first, rnd.choice([None, t3]), client, None, chain)]
                      + [(t, None, client) for t in ("x.co", "sub.x.co", "y.co")])
    return hs


def run_e2e(ctx, hists=None):
    """real handshakes: the Cookie header of every connection in a history."""
    import websocket
    import websocket._handshake as HS
    hists = hists if hists is not None else e2e_histories(ctx)
    obs = []
    for hi, h in enumerate(hists):
        HS.CookieJar.jar.clear()
        seen = []
        # every third history passes the caller's extra headers as one shared list (an application's constant): what one
        # handshake adds for ITS host must not be there for the next
        shared_header = ["X-App: verif", "X-Build: 7"] if hi % 3 == 2 else None
        for step in h:
            target, resp, client = step[:3]
            host_opt = step[3] if len(step) > 3 else None
            chain = step[4] if len(step) > 4 else []
            net = N.Net(addrs=["a"], set_cookies=render(resp) if resp else [],
                        redirects=[(f"ws://{h}/", render(r)) for h, r in chain])
            try:
                def do_connect():
                    with N.patched(net, {}):
                        ws = websocket.WebSocket()
                        kw = {"cookie": client} if client else {}
                        if host_opt:
                            kw["host"] = host_opt
                        if shared_header is not None:
                            kw["header"] = shared_header      # ONE list object handed to every handshake of the history
                        ws.connect(f"ws://{target}/", **kw)
                if hi % 4 == 1:
                    # every fourth history makes each of its connections on a thread of its own (an application that connects
                    # from worker threads): the jar is the PROCESS's — what one thread's handshake stored, the next one's sends
                    import threading
                    box = []

                    def runner():
                        try:
                            do_connect()
                        except BaseException as e:  # noqa
                            box.append(e)
                    th = threading.Thread(target=runner)
                    th.start()
                    th.join()
                    if box:
                        raise box[0]
                else:
                    do_connect()
                req = net.requests[0].decode("latin1") if net.requests else ""
                ck = [l[len("Cookie: "):] for l in req.split("\r\n") if l.startswith("Cookie: ")]
                hdr = ck[0] if ck else ""
                if len(ck) > 1:
                    hdr = "DUPLICATE " + " | ".join(ck)
            except Exception as e:  # noqa
                hdr = "EXN " + common.canon_exc(e)
            if chain and not hdr.startswith("EXN"):
                # one observation per request of the chain: hop k goes to hosts[k], after the responses of the hops before
                hosts = [target] + [h for h, _ in chain]
                for k2, rq in enumerate(net.requests[:len(hosts)]):
                    ck = [l[len("Cookie: "):] for l in rq.decode("latin1").split("\r\n") if l.startswith("Cookie: ")]
                    h2 = ck[0] if len(ck) == 1 else ("" if not ck else "DUPLICATE " + " | ".join(ck))
                    obs.append((list(seen), hosts[k2], client, h2, host_opt))
                    if k2 < len(chain):
                        seen.append(chain[k2][1])
                if len(net.requests) != len(hosts):
                    obs.append((list(seen), hosts[-1], client, f"EXN chain-not-followed({len(net.requests)}/{len(hosts)})", host_opt))
            else:
                obs.append((list(seen), target, client, hdr, host_opt))
            if resp:
                seen.append(resp)
        HS.CookieJar.jar.clear()
    lm, ls, lh = [], [], []
    for seen, target, client, hdr, host_opt in obs:
        ha = hist_arg(seen)
        host = target.lower()
        lm.append(f"m-cookie-header {ha} {hx(host)} {hx(client or '')}")
        server = hdr
        if client and (hdr == client or hdr.endswith("; " + client)):
            server = hdr[:-len(client)].rstrip(" ;") if hdr != client else ""
        pairs = parse_pairs(server) if not hdr.startswith(("EXN", "DUPLICATE")) else []
        ls.append(f"s-cookie-admissible {ha} {hx(host)} {pairs_arg(pairs)}")
        lh.append(f"s-cookie-header {pairs_arg(pairs)} {hx(client or '')}")
    out = common.run_driver_parallel(lm + ls + lh)
    n = len(obs)
    mo, so, ho = out[:n], out[n:2 * n], out[2 * n:]
    for (seen, target, client, hdr, host_opt), m, s, hh in zip(obs, mo, so, ho):
        inp = {"op": "handshakes", "responses_so_far": [[list(map(list, cs)), d] for cs, d in seen], "target": target,
               "client_cookie": client, "host_option": host_opt}
        ctx.case(key=("e2e", hist_arg(seen), target, client), nontrivial=bool(hdr), cls=f"e2e:len{min(len(seen), 4)}:{'cookie' if hdr else 'none'}",
                 sample=dict(inp, cookie_header=hdr) if hdr and client and len(seen) >= 2 and len(ctx.samples) < 10 else None)
        if hdr.startswith(("EXN", "DUPLICATE")):
            ctx.violate("cookie-header-exact", "handshake-" + hdr.split(" ")[0].lower(), inp, "one Cookie header", hdr)
            continue
        if m != "unmodelled" and m != hx(hdr):
            ctx.diverge("e2e:cookie-header", inp, m, hx(hdr))
        if s != "1":
            ctx.violate("cookie-header-exact", "handshake-cookie-not-admissible", inp, "admissible pairs (Spec.Cookie)", hdr,
                        size=len(str(inp)))
        elif hh != hx(hdr):
            ctx.violate("cookie-header-exact", "client-cookie-not-last", inp, bytes.fromhex(hh).decode() if hh != "-" else "", hdr,
                        size=len(str(inp)))
    ctx.traces_vs_impl += n


def corpus_inputs():
    out = []
    if os.path.isdir(CORPUS):
        for f in sorted(os.listdir(CORPUS)):
            if f.endswith(".json"):
                with open(os.path.join(CORPUS, f)) as fh:
                    out.append(json.load(fh)["input"])
    return out


def run_inputs(ctx, inputs):
    for inp in inputs:
        if inp.get("op") == "jar":
            h = [([tuple(p) for p in cs], d) for cs, d in inp["history"]]
            run_unit(ctx, [h], [inp["target"]])
        elif inp.get("op") == "handshakes":
            seen = [([tuple(p) for p in cs], d) for cs, d in inp["responses_so_far"]]
            h = [("x.co", r, None) for r in seen] + [(inp["target"], None, inp.get("client_cookie"), inp.get("host_option"))]
            if inp.get("via_redirects"):
                h = inp["via_redirects"]
            run_e2e(ctx, [h])


def run_app_rotation(ctx):
    """"followed by the cookie supplied by the caller" through WebSocketApp: the application rotates `app.cookie` whenever a
    connection has come up (on_open / on_reconnect); the request of EVERY connection of a reconnecting run carries the cookie
    the caller had when that connection was made.  Real runs under the virtual-time scheduler, oracle only."""
    import appcheck
    import re
    from props import c15
    scs = []
    for seq in (("Ee", "Ee"), ("Er", "R", "Ee"), ("Ee", "J", "Ee", "Ee"), ("Ee", "Ee", "Ee")):
        for rc in (1024, 3072):
            for ssl_ in (False, True):
                sc = c15.scenario(seq, rc, "close", ssl=ssl_)
                sc.update(cookie_rotate=True, kind="app-cookie-rotation", tag="-".join(seq) + "|cookie-rotation")
                scs.append(sc)
    for sc, r in zip(scs, appcheck.run_real_many(scs)):
        reqs = r.get("requests") or []
        got = []
        for idx, req in reqs:
            m = re.search(r"(?im)^cookie:[ \t]*(.*?)\r?$", req)
            got.append(m.group(1) if m else None)
        # request k of the run: k-th dial that got as far as sending a request (refused dials send none); the cookie rotates
        # after every ESTABLISHED connection's opening callback
        want, rot = [], 0
        for d in sc["runs"][0]:
            if d[0] == "R":
                continue
            want.append(f"session=s{rot}")
            if d[0] == "E":
                rot += 1
        ctx.case(key=("app-cookie", sc["tag"], sc["ssl"], sc["rc"]), nontrivial=True, cls="app:cookie-rotation:" + str(len(got)))
        if got != want:
            ctx.violate("caller-cookie-appended", "stale-caller-cookie-on-a-later-connection-of-the-run", sc,
                        f"Cookie headers {want}", f"{got}; trace …{r['trace'][-200:]}", size=len(sc["runs"][0]) + 1)


def run(ctx):
    ctx.assumptions = [
        "C20: http.cookies.SimpleCookie's parser is not modelled: responses are rendered canonically (`n=v; Domain=d` per cookie) and parsed by the real code; the model starts from the parsed object",
        "C20: names within one response are distinct; str.lower() on ASCII; sorted() on tuples of str = code-point lexicographic order",
        "C20: the Spec is a relation (permutation of the covering entries, names non-decreasing): the order of equal names is not prescribed",
    ]
    ctx.rule = ("histories of responses (cookie sets over names {a,a1,b} x values {1,2}; domains x.co, X.CO, .x.co, sub.x.co, "
                "y.co, none, plus '', '..x.co', 'co' singly): all of length <= 1, a sample of length 2 (all in thorough), random "
                "length 3 (4) x targets {x.co, X.co, sub.x.co, badx.co, co, y.co}; unit on SimpleCookieJar and end-to-end Cookie "
                "headers of real handshakes with the process-wide jar; WebSocketApp reconnecting runs with the caller's cookie rotated after every connection (non-trivial = some stored cookie covers the target)")
    run_inputs(ctx, corpus_inputs())
    run_unit(ctx)
    run_merge(ctx)
    run_e2e(ctx)
    run_app_rotation(ctx)


def search(ctx):
    run(ctx)


def replay(ctx, data):
    sub = common.Ctx(ctx.prop, "quick", ctx.seed)
    run_inputs(sub, [data["input"]])
    for v in sub.violations:
        if v["clause"] == data["clause"] and v["cause"] == data["cause"]:
            ctx.violations.append(v)
            return False
    return True
