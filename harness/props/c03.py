"""C03 — delivery is independent of transport segmentation and survives receive timeouts.

(C) `m-session` on the SAME schedule (chunks + timeouts) vs the real code: identical observation list,
TIMEOUTs included.  (O, metamorphic, on the real code) for one byte stream, the observations of every
schedule with the TIMEOUT entries removed are identical to those of the one-chunk run, the number of
TIMEOUTs equals the number of injected timeouts, and the written bytes (pongs, close reply) are the same.
Also: frames glued to the handshake response in one segment (connect through the real handshake).
"""
import itertools

import common
import rx
from rx import F


def streams(ctx):
    rnd = ctx.rng("streams")
    out = []
    # short streams (exhaustive partitions)
    out.append([F(1, b"hi")])
    out.append([F(1, b"a", fin=0), F(0, b"b")])
    out.append([F(9, b"p"), F(2, b"xy")])
    out.append([F(2, b"", fin=0), F(10, b""), F(0, b"z")])
    out.append([F(1, b"ab", mask=b"\x01\x02\x03\x04")])
    out.append([F(8, b"\x03\xe8")])
    out.append([F(2, b"ab", form=16)])
    # longer mixes incl. boundary-length frames
    n = 300 if ctx.thorough() else 40
    for _ in range(n):
        frames = []
        for _ in range(rnd.randint(1, 4)):
            r = rnd.random()
            if r < 0.6:
                op = rnd.choice([1, 2])
                ln = rnd.choice([0, 1, 5, 125, 126, 127, 300])
                if rnd.random() < 0.05:
                    ln = rnd.choice([65535, 65536])
                frames += rx.message(rnd, op, rx.payload(rnd, ln, "utf8" if op == 1 else "bin"), rnd.randint(1, 3), ctrl_between=1)
            elif r < 0.8:
                frames.append(F(9, rx.payload(rnd, rnd.randint(0, 20), "bin")))
            elif r < 0.9:
                frames.append(F(10, b"x"))
            else:
                frames.append(F(3, b"bad"))          # protocol error mid-stream
        if rnd.random() < 0.3:
            frames.append(F(8, b"\x03\xe8bye"))
        rx.randomize_encoding(rnd, frames, 0.3, 0.2)
        out.append(frames)
    # frames on both sides of the 16-bit / 64-bit length forms, each followed by another frame (schedules() interrupts them
    # inside the header, the extended length and the payload)
    for ln in (65535, 65536, 70000):
        out.append([F(2, rx.payload(rnd, ln, "bin")), F(1, b"after")])
    # a length of ZERO written in the extended forms, masked: every field of the header is present and is read once, also when
    # a timeout falls between any two of them
    for form in (16, 64):
        out.append([F(1, b"", mask=b"\x81\x01\x58\x00", form=form), F(1, b"X", mask=b"abcd"), F(2, b"\x00")])
        out.append([F(9, b"", mask=b"\x8a\x00\x82\x00", form=form), F(2, b"yz", fin=0, form=form), F(0, b"", fin=1, mask=b"\x00\x00\x00\x01", form=form)])
    out.append([F(1, rx.payload(rnd, 40000, "utf8"), fin=0), F(9, b"p"), F(0, rx.payload(rnd, 66000, "utf8")), F(2, b"after")])
    # a payload that trickles in over MANY reads (schedules() delivers it byte by byte and interrupts it after 60..130 reads
    # of the same request): whatever bookkeeping the reader does per read, the bytes taken so far survive the timeout
    out.append([F(2, rx.payload(rnd, 200, "bin")), F(1, b"after")])
    out.append([F(1, rx.payload(rnd, 180, "utf8"), mask=b"\x11\x22\x33\x44"), F(9, b"p"), F(2, b"\x00\x01")])
    return out


def schedules(ctx, stream, rnd):
    """list of event lists for this stream."""
    n = len(stream)
    scheds = []
    if n <= (14 if ctx.thorough() else 11):
        for chunks in rx.partitions(stream, rnd, 0):
            scheds.append([("chunk", c) for c in chunks])
    else:
        for chunks in rx.partitions(stream, rnd, 6 if not ctx.thorough() else 20):
            scheds.append([("chunk", c) for c in chunks])
    # timeouts at every position (x multiplicity 1,2) of the byte-wise delivery for short streams
    if n <= (60 if ctx.thorough() else 40):
        for pos in range(n + 1):
            for mult in (1, 2):
                ev = [("chunk", stream[:pos])] if pos else []
                ev += [("timeout",)] * mult
                if pos < n:
                    ev += [("chunk", stream[pos:])]
                scheds.append(ev)
        if ctx.thorough() or n <= 24:
            for p1, p2 in itertools.combinations(range(n + 1), 2):
                if (p1 + p2) % 3 and n > 24:
                    continue
                scheds.append([("chunk", stream[:p1]), ("timeout",), ("chunk", stream[p1:p2]), ("timeout",), ("chunk", stream[p2:])])
    if 150 <= n <= 400:
        # byte-wise delivery of the first frame's payload, ONE timeout after k reads of that payload, the rest in one piece
        for k in (60, 63, 64, 65, 66, 70, 100, 130):
            for mult in (1, 2):
                cutp = 8 + k      # (past the header / extended length / mask key of either stream: inside the payload)
                scheds.append([("chunk", stream[i:i + 1]) for i in range(cutp)] + [("timeout",)] * mult + [("chunk", stream[cutp:])])
    if n > 60000:
        for pos in (1, 2, 5, 9, 10, 11, 1000, 16384 + 10, 40000, n // 2, 65536, 65540, n - 7, n - 1):
            if 0 < pos < n:
                scheds.append([("chunk", stream[:pos]), ("timeout",), ("chunk", stream[pos:])])
        for p1, p2 in ((3, 30000), (20000, 66000), (100, 65545)):
            if p2 < n:
                scheds.append([("chunk", stream[:p1]), ("timeout",), ("chunk", stream[p1:p2]), ("timeout",), ("timeout",), ("chunk", stream[p2:])])
    # random partitions with random timeouts
    k = 30 if ctx.thorough() else 8
    for _ in range(k):
        chunks = rx.partitions(stream, rnd, 1)[-1]
        ev = []
        for c in chunks:
            if rnd.random() < 0.3:
                ev += [("timeout",)] * rnd.randint(1, 2)
            ev.append(("chunk", c))
        scheds.append(ev)
    return scheds


def ntimeouts(ev):
    return sum(1 for e in ev if e[0] == "timeout")


def run_handshake_boundary(ctx):
    """frames in the same segment as the 101 response, through the real connect()."""
    import base64
    import hashlib
    import os
    import websocket
    import simnet
    rnd = ctx.rng("hs")
    key_raw = bytes(range(16))
    key = base64.b64encode(key_raw).decode()
    accept = base64.b64encode(hashlib.sha1((key + "258EAFA5-E914-47DA-95CA-C5AB0DC85B11").encode()).digest()).decode()
    head_crlf = (f"HTTP/1.1 101 Switching Protocols\r\nUpgrade: websocket\r\nConnection: Upgrade\r\n"
                 f"Sec-WebSocket-Accept: {accept}\r\n\r\n").encode()
    frames = [F(1, b"hello"), F(9, b"pp"), F(2, b"\x00\x01", fin=0), F(0, b"\x02")]
    tail = b"".join(f.enc() for f in frames)
    old = os.urandom
    # the response head as servers usually write it (CRLF) and with bare LF line ends (which the reader accepts: the blank
    # line is then ONE byte long) — the first frame starts right behind it either way
    for head in (head_crlf, head_crlf.replace(b"\r\n", b"\n")):
      stream = head + tail
      base = None
      n = len(stream)
      cuts_list = [[]] + [[c] for c in range(1, n)] + [sorted(rnd.sample(range(1, n), 3)) for _ in range(40 if ctx.thorough() else 10)]
      cuts_list.append(list(range(1, n)))
      for cuts in cuts_list:
          pts = [0] + cuts + [n]
          ev = [("chunk", stream[a:b]) for a, b in zip(pts, pts[1:])]
          sock = simnet.SimSocket(ev)
          ws = websocket.WebSocket()
          ws.set_mask_key(lambda k: b"\x00" * k)
          os.urandom = lambda k: key_raw[:k]
          try:
              obs = []
              try:
                  ws.connect("ws://example.test/chat", socket=sock)
                  obs.append("connected")
                  for _ in range(3):
                      r = ws.recv()
                      obs.append(r if isinstance(r, str) else r.hex())
              except Exception as e:  # noqa
                  obs.append("X:" + common.canon_exc(e))
          finally:
              os.urandom = old
          obs.append(bytes(sock.sent)[-8:].hex())
          ctx.case(key=("hs", len(head), tuple(cuts)), nontrivial=bool(cuts),
                   cls=f"handshake-boundary:{'crlf' if head is head_crlf else 'lf'}:cuts=" + str(min(len(cuts), 4)))
          if base is None:
              base = obs
              want = ["connected", "hello", "000102", "X:CLOSED"]
              if obs[:4] != want:
                  ctx.violate("handshake-boundary", "frames-after-101-misparsed", {"op": "connect+recv", "cuts": cuts}, want, obs, size=1)
          elif obs != base:
              ctx.violate("handshake-boundary", "depends-on-segmentation", {"op": "connect+recv", "cuts": cuts}, base, obs, size=len(cuts))


def run(ctx):
    ctx.rule = ("byte streams mixing single, fragmented, control, close and illegal frames; schedules: all 2^(n-1) partitions of "
                "streams <= 11 (14) bytes, byte-wise delivery, a timeout (x1, x2) at every byte position of streams <= 40 (60) "
                "bytes, random partitions with random timeouts, 30 % of the timeout schedules on a non-blocking socket (timeout 0, EAGAIN); caller repeats the call after each TIMEOUT; plus frames glued to "
                "the 101 response through the real connect(). non-trivial = more than one chunk or a timeout")
    rnd = ctx.rng("sched")
    sessions, meta = [], []
    for frames in streams(ctx):
        stream = b"".join(f.enc() for f in frames)
        api = rnd.choice(["recvdata:1", "recv", "rdf:1", "recvdata:0"])
        scheds = schedules(ctx, stream, rnd)
        base_calls = len(frames) + 2
        gid = len(meta)
        for ev in [[("chunk", stream)]] + scheds:
            ops = [api] * (base_calls + ntimeouts(ev))
            cfg = {"keys": [b"\xa1\xb2\xc3\xd4"] * 8, "tail": "eof"}
            if ntimeouts(ev) and rnd.random() < 0.3:
                cfg["to"] = 0          # a non-blocking socket: "no data now" is BlockingIOError(EAGAIN), not socket.timeout
            sessions.append((cfg, ev, ops))
            meta.append((gid, frames, api, ev))
        # the same bytes over a TLS-like transport with a timeout set: every k-th read first reports an incomplete record
        # (SSLWantReadError) before the data is there — "however the network cuts it into segments"
        if len(stream) > 1:
            for kth in (2, 3):
                pts = sorted(set(rnd.sample(range(1, len(stream)), min(len(stream) - 1, rnd.randint(1, 4)))))
                pts = [0] + pts + [len(stream)]
                ev = []
                for j, (a, b) in enumerate(zip(pts, pts[1:])):
                    if j % kth == kth - 1:
                        ev.append(("wantread",))
                    ev.append(("chunk", stream[a:b]))
                sessions.append(({"keys": [b"\xa1\xb2\xc3\xd4"] * 8, "tail": "eof", "to": 1000}, ev, [api] * base_calls))
                meta.append((gid, frames, api, ev))
    res = rx.run_sessions(ctx, "session:segmentation", sessions)
    base = {}
    for (gid, frames, api, ev), (impl, model, ws, sock, line) in zip(meta, res):
        outs = rx.results(impl)
        obs = [o for o in outs if o != "X:TIMEOUT"]
        nt = sum(1 for o in outs if o == "X:TIMEOUT")
        wire = bytes(sock.sent)
        nchunks = sum(1 for e in ev if e[0] == "chunk")
        ctx.case(key=line, nontrivial=(nchunks > 1 or ntimeouts(ev) > 0),
                 cls=f"api={api}:chunks={'1' if nchunks <= 1 else '2-4' if nchunks <= 4 else '5+'}:timeouts={min(ntimeouts(ev), 3)}",
                 sample={"frames": [f.desc() for f in frames], "schedule": [(e[0], len(e[1]) if len(e) > 1 else 0) for e in ev][:12], "impl": impl[:160]}
                 if len(ctx.samples) < 6 and ntimeouts(ev) and nchunks > 2 else None)
        inp = {"op": line if len(line) < 400 else line[:400] + "...", "frames": [f.desc() for f in frames], "api": api,
               "schedule": [(e[0], len(e[1]) if len(e) > 1 else 0) for e in ev][:40]}
        if gid not in base:
            base[gid] = (obs, wire)
            continue
        bobs, bwire = base[gid]
        k = min(len(obs), len(bobs))
        if obs[:k] != bobs[:k] or wire != bwire:
            ctx.violate("segmentation-independent", "observations-differ" if obs[:k] != bobs[:k] else "written-bytes-differ",
                        inp, bobs[:8], obs[:8], size=len(ev) + len(frames))
        if nt != ntimeouts(ev):
            # a timeout injected after the stream was fully consumed and closed is never seen; only count reachable ones
            closed_at = next((i for i, o in enumerate(outs) if o == "X:CLOSED"), None)
            if closed_at is None or nt > ntimeouts(ev):
                ctx.violate("timeout-resumable", "timeouts-lost-or-duplicated", inp, f"{ntimeouts(ev)} TIMEOUTs", f"{nt} TIMEOUTs", size=len(ev))
    run_handshake_boundary(ctx)
    run_select(ctx)


def run_select(ctx):
    """a select-driven caller (the call is made only when the TRANSPORT is readable — what WebSocketApp's dispatcher, or any
    event loop, does): what it observes is still a function of the bytes. Holds because a call never takes a byte beyond the
    frame it returns (`Lemmas/Exact`): nothing is ever parked in the library's buffer where select cannot see it."""
    rnd = ctx.rng("select")
    sessions, meta = [], []
    for frames in streams(ctx):
        stream = b"".join(f.enc() for f in frames)
        n = len(stream)
        if n > 2000 or any(f.op not in (0, 1, 2, 9, 10) or f.rsv for f in frames):
            continue
        api = rnd.choice(["sel:recvdata:1", "sel:recv", "sel:rdf:1", "sel:recvdata:0"])
        parts = [[stream]]
        if n <= 16:
            parts += [[stream[:a], stream[a:b], stream[b:]] for a, b in itertools.combinations(range(1, n), 2)]
            parts += [[stream[:a], stream[a:]] for a in range(1, n)]
        else:
            parts += rx.partitions(stream, rnd, 8 if not ctx.thorough() else 24)
            parts += [[stream[:a], stream[a:]] for a in rnd.sample(range(1, n), min(n - 1, 6))]
        gid = len(meta)
        for chunks in parts:
            for tail in ("timeout", "eof"):
                cfg = {"keys": [b"\xa1\xb2\xc3\xd4"] * 8, "tail": tail, "to": 1000}
                sessions.append((cfg, [("chunk", c) for c in chunks if c], [api] * (len(frames) + 3)))
                meta.append(((gid, tail), frames, api, chunks))
    res = rx.run_sessions(ctx, "session:select-driven", sessions)
    base = {}
    for (gid, frames, api, chunks), (impl, model, ws, sock, line) in zip(meta, res):
        outs = rx.results(impl)
        wire = bytes(sock.sent)
        ctx.case(key=line, nontrivial=len(chunks) > 1, cls=f"select-driven:api={api}:chunks={min(len(chunks), 4)}:tail={gid[1]}")
        if gid not in base:
            base[gid] = (outs, wire)
            continue
        bouts, bwire = base[gid]
        if outs != bouts or wire != bwire:
            ctx.violate("segmentation-independent", "select-driven-caller-observations-differ" if outs != bouts else "written-bytes-differ",
                        {"op": line if len(line) < 400 else line[:400] + "...", "frames": [f.desc() for f in frames], "api": api,
                         "chunks": [len(c) for c in chunks][:40]}, bouts[:8], outs[:8], size=len(chunks) + len(frames))


def search(ctx):
    run(ctx)


def replay(ctx, data):
    sub = common.Ctx(ctx.prop, "quick", ctx.seed)
    run(sub)
    for v in sub.violations:
        if v["clause"] == data["clause"] and v["cause"] == data["cause"]:
            ctx.violations.append(v)
            return False
    return True
