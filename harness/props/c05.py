"""C05 — frames the RFC forbids are rejected with a protocol error, never delivered; legal streams accepted.

(T) opcode table, close-code table and bounds are generated constants (theorems re-checked).
(C) `m-session` over frame streams read with recv_frame / recv_data_frame / recv; `m-close-code` vs
ABNF._is_valid_close_status for all 65536 codes.  (O) `s-frame-legal` / `s-close-code` (Spec, from the RFC)
walk the same frame list with the message-in-progress flag: the first illegal frame must make the call
that reads it raise PROTO (PAYLOAD allowed for a non-UTF-8 text message), nothing of it is returned; a stream
that is legal throughout raises nothing.
"""
import itertools

import common
import rx
from rx import F

ALPHA = {
    "T0": lambda: F(1, b"t", fin=0), "T1": lambda: F(1, b"T", fin=1),
    "B0": lambda: F(2, b"b", fin=0), "B1": lambda: F(2, b"B", fin=1),
    "C0": lambda: F(0, b"c", fin=0), "C1": lambda: F(0, b"C", fin=1),
    "PI": lambda: F(9, b"p"), "PO": lambda: F(10, b"q"),
}

UTF8_CLASSES = [b"", b"ok", "é".encode(), "😀".encode(), b"\xc3", b"\xe2\x82", b"\xf0\x9f\x98", b"\xc0\x80", b"\xed\xa0\x80",
                b"\xf4\x90\x80\x80", b"\xff", b"a\x80"]


def legal_walk(frames):
    """driver lines for s-frame-legal along the stream; returns lines (inMessage tracked by the Spec rule)."""
    lines = []
    inmsg = False
    for f in frames:
        r = f.rsv
        lines.append(f"s-frame-legal {int(inmsg)} {f.fin} {r >> 2 & 1} {r >> 1 & 1} {r & 1} {f.op} {f.data.hex() or '-'}")
        if f.op in (8, 9, 10):
            pass
        elif f.op in (0, 1, 2):
            inmsg = f.fin == 0
    return lines


def cause_of(f, inmsg):
    if f.rsv:
        return "reserved-bit-set"
    if f.op not in (0, 1, 2, 8, 9, 10):
        return "unassigned-opcode"
    if f.op in (8, 9, 10) and f.fin == 0:
        return f"fragmented-control-op{f.op}"
    if f.op in (8, 9, 10) and len(f.data) > 125:
        return f"control-too-long-op{f.op}"
    if f.op == 8:
        if len(f.data) == 1:
            return "close-body-one-byte"
        code = int.from_bytes(f.data[:2], "big")
        return f"close-body-code-or-reason"
    if f.op == 0:
        return "continuation-without-message"
    return "data-frame-inside-message"


def build_streams(ctx):
    rnd = ctx.rng("streams")
    sts = []
    # (1) all 256 first bytes x payload-length classes, alone and inside a message
    for b0 in range(256):
        fin, rsv, op = b0 >> 7, (b0 >> 4) & 7, b0 & 15
        for n in (0, 1, 2, 125, 126, 127, 65535, 65536):
            if n >= 65535 and not (ctx.thorough() or b0 in (0x88, 0x89, 0x8a, 0x81, 0x09)):
                continue
            if op == 8 and n >= 2:
                data = (1000).to_bytes(2, "big") + b"r" * (n - 2)
            else:
                data = b"x" * n
            sts.append(("hdr", [F(op, data, fin=fin, rsv=rsv)]))
            if n <= 2:
                sts.append(("hdr-inmsg", [F(1, b"a", fin=0), F(op, data, fin=fin, rsv=rsv)]))
    # (2) close frames: reasons of every UTF-8 class x a few codes; one-byte body
    for reason in UTF8_CLASSES:
        for code in (1000, 1005, 2999, 3000):
            sts.append(("close-reason", [F(8, code.to_bytes(2, "big") + reason)]))
    sts.append(("close-reason", [F(8, b"\x03")]))
    # (3) all 65536 codes end-to-end is too slow per-session in quick; a boundary sample here, the whole table below
    codes = sorted(set(list(range(990, 1030)) + [0, 1, 999, 2999, 3000, 3001, 4998, 4999, 5000, 5001, 65535]
                       + [rnd.randrange(65536) for _ in range(60)]))
    if ctx.thorough():
        codes = sorted(set(codes + list(range(0, 65536, 7)) + list(range(900, 1100)) + list(range(2900, 5100))))
    for c in codes:
        sts.append(("close-code", [F(8, c.to_bytes(2, "big"))]))
    # (4) sequencing histories, exhaustive
    depth = 5 if ctx.thorough() else 4
    names = list(ALPHA)
    for k in range(1, depth + 1):
        for combo in itertools.product(names, repeat=k):
            sts.append(("seq", [ALPHA[n]() for n in combo] + [F(8, b"")]))
    # (4b) histories across a PAYLOAD rejection: a complete text message whose bytes are not UTF-8 is refused, and the
    #      sequencing state after it is "no message in progress" (its last frame had FIN=1)
    bad = {"X1": lambda: F(1, b"\xff", fin=1), "X0": lambda: F(1, b"\xc3", fin=0)}
    for k in range(2, (4 if ctx.thorough() else 3) + 1):
        for combo in itertools.product(names + list(bad), repeat=k):
            if any(n in bad for n in combo):
                sts.append(("seq-badtext", [(ALPHA.get(n) or bad[n])() for n in combo] + [F(8, b"")]))
    # (4c) the same histories with SILENCE between the frames: the receive call times out, the caller calls again — a
    #      sequence the RFC allows stays allowed (and a forbidden frame stays forbidden) however the frames are spaced in time
    for k in range(2, (4 if ctx.thorough() else 3) + 1):
        for ci, combo in enumerate(itertools.product(names, repeat=k)):
            gaps = [tuple(range(1, k + 1))] + ([(1 + ci % k,)] if k > 2 else [])
            for g in gaps:
                sts.append(("seq-gaps", [ALPHA[n]() for n in combo] + [F(8, b"")], g))
    # (5) ping length boundary
    for n in (124, 125, 126, 127, 200):
        sts.append(("ping-len", [F(9, b"p" * n)]))
        sts.append(("ping-len", [F(10, b"p" * n)]))
    return sts


def run(ctx):
    ctx.rule = ("frame streams: all 256 first bytes x length classes {0,1,2,125,126,127,(65535,65536)} alone and inside a "
                "message; close bodies (one byte, every UTF-8 class of reason, code sample; all 65536 codes through the "
                "unit table op); every sequencing history over {T0,T1,B0,B1,C0,C1,ping,pong} to length 4 (5 thorough) "
                "followed by a close; each stream read through recv_frame, recv_data_frame(True/False) and recv. "
                "non-trivial = the stream contains an illegal frame or more than one frame")
    # ---- the whole close-code table, three voices
    from websocket import ABNF
    n = 65536
    outs = common.run_driver_parallel([f"m-close-code {c}" for c in range(n)] + [f"s-close-code {c}" for c in range(n)])
    for c in range(n):
        impl = "1" if ABNF._is_valid_close_status(c) else "0"
        m, s = outs[c], outs[n + c]
        if m != impl:
            ctx.diverge("unit:close-code", c, m, impl)
        if impl != s:
            ctx.violate("close-code-table", "accepts-forbidden-code" if impl == "1" else "rejects-legal-code",
                        {"op": "close-code", "code": c}, s, impl, size=1)
        ctx.case(key=("code", c), nontrivial=True, cls="close-code:" + ("wire-legal" if s == "1" else "forbidden"))
    ctx.traces_vs_impl += n
    # ---- streams
    sts = build_streams(ctx)
    apis = [("rf", 0), ("rdf:1", 0), ("rdf:0", 0), ("recv", 0), ("rdf:1", 1), ("recvdata:0", 1)]
    sessions, meta = [], []
    sts = [(st + (None,))[:3] for st in sts]
    for kind, frames, gaps in sts:
        stream = b"".join(f.enc() for f in frames)
        if kind == "seq-gaps":
            for api, fire in (("rdf:1", 0), ("rdf:0", 0), ("recv", 0), ("rdf:1", 1)):
                evs = []
                for i, f in enumerate(frames):
                    if i in gaps:
                        evs.append(("timeout",))
                    evs.append(("chunk", f.enc()))
                sessions.append((dict({"fire": fire} if fire else {}, to=500), evs, [api] * (len(frames) + 1 + len(gaps))))
                meta.append((kind, frames, api + (":fire" if fire else "")))
            continue
        for api, fire in apis:
            if fire and kind not in ("seq", "hdr-inmsg", "ping-len", "close-reason", "close-code"):
                continue                    # (per-fragment delivery must not switch any frame-level judgement off)
            if kind == "seq-badtext" and api == "rf":
                continue
            if kind in ("hdr", "hdr-inmsg", "close-code") and api in ("rdf:0", "recv") and kind != "hdr-inmsg":
                if api == "recv":
                    continue
            ops = [api] * (len(frames) + 1)
            sessions.append(({"fire": fire} if fire else {}, [("chunk", stream)], ops))
            meta.append((kind, frames, api + (":fire" if fire else "")))
            if kind == "close-code" and api in ("rf", "rdf:1"):
                # switching UTF-8 validation off must not switch the judgement of the STATUS CODE off
                sessions.append(({"skip": 1}, [("chunk", stream)], ops))
                meta.append((kind, frames, api + ":skip-utf8"))
    res = rx.run_sessions(ctx, "session:validate", sessions)
    legal_lines, idx = [], []
    for kind, frames, _g in sts:
        ls = legal_walk(frames)
        idx.append((len(legal_lines), len(ls)))
        legal_lines += ls
    lo = common.run_driver_parallel(legal_lines)
    legal_of = {}
    for (kind, frames, _g), (a, k) in zip(sts, idx):
        legal_of[id(frames)] = [x == "1" for x in lo[a:a + k]]
    for (kind, frames, api), (impl, model, ws, sock, line) in zip(meta, res):
        legal = legal_of[id(frames)]
        outs_ = rx.results(impl)
        first_bad = next((i for i, ok in enumerate(legal) if not ok), None)
        ctx.case(key=line, nontrivial=(first_bad is not None or len(frames) > 1),
                 cls=f"{kind}:{api}:{'legal' if first_bad is None else 'illegal'}",
                 sample={"frames": [f.desc() for f in frames], "api": api, "impl": impl[:160]} if len(ctx.samples) < 6 and kind == "seq" and len(frames) == 4 else None)
        inp = {"op": line if len(line) < 300 else line[:300] + "...", "frames": [f.desc() for f in frames], "api": api}
        # walk calls: which frame does each call end at?
        if kind == "seq-gaps":
            outs_ = [o for o in outs_ if o != "X:TIMEOUT"]      # (the silences themselves: each costs one call)
        excs = [o for o in outs_ if o.startswith("X:")]
        first_exc = next((o for o in outs_ if o.startswith("X:")), None)
        badtext = kind == "seq-badtext"
        if first_bad is None:
            # legal throughout: nothing but a clean end of stream may be raised (text payloads are valid UTF-8, except in the
            # seq-badtext histories, where the message — not a frame — is refused with PAYLOAD)
            bad = [o for o in outs_ if o.startswith("X:") and o != "X:CLOSED" and not (badtext and o == "X:PAYLOAD")]
            if bad:
                ctx.violate("legal-stream-accepted", "raises-" + bad[0][2:], inp, "no exception before end of stream", impl[:300],
                            size=len(frames) * 10 + sum(len(f.data) for f in frames))
        else:
            f = frames[first_bad]
            inmsg = False
            for g in frames[:first_bad]:
                if g.op in (0, 1, 2):
                    inmsg = g.fin == 0
            cause = cause_of(f, inmsg)
            if api.startswith("rf") and cause in ("continuation-without-message", "data-frame-inside-message"):
                continue       # sequencing is a message-level rule; recv_frame returns raw frames
            if badtext and ":fire" not in api and "X:PROTO" not in outs_:
                ctx.violate("illegal-frame-raises-protocol-error", cause + "-after-payload-rejection", inp,
                            f"PROTO when frame #{first_bad} ({f.desc()}) is read", impl[:300], size=len(frames) * 10)
            if first_bad == len(frames) - 1 and first_exc in ("X:PROTO", "X:PAYLOAD"):
                # the illegal frame is the last one of the stream: once it has been refused nothing more can be delivered —
                # certainly not the frame itself by the next call
                k = outs_.index(first_exc)
                later = [o for o in outs_[k + 1:] if not o.startswith("X:")]
                if later:
                    ctx.violate("illegal-frame-raises-protocol-error", cause + "-then-delivered-by-a-later-call", inp,
                                "nothing is returned after the refusal", impl[:300], size=len(frames) * 10)
            if first_exc is None or first_exc not in ("X:PROTO", "X:PAYLOAD"):
                ctx.violate("illegal-frame-raises-protocol-error", cause, inp, f"PROTO when frame #{first_bad} ({f.desc()}) is read",
                            impl[:300], size=len(frames) * 10 + sum(len(g.data) for g in frames))


def search(ctx):
    run(ctx)


def replay(ctx, data):
    sub = common.Ctx(ctx.prop, "quick", ctx.seed)
    run(sub)
    for v in sub.violations:
        if v["clause"] == data["clause"] and v["cause"] == data["cause"]:
            ctx.violations.append(v)
            return False
    return True
