"""C07 — every ping (<= 125 bytes) is answered exactly once with a pong carrying the same payload,
before anything further is read; nothing is written for pongs or data frames.

(C) `m-session` vs the real receive calls (identical writes and results).  (O) on the REAL timeline of the
SimSocket (reads and writes on one log): when the last byte of a legal ping has been handed to the client,
the next transport operations are writes whose concatenation the Spec decoder reads as exactly one frame
FIN=1 opcode=10 MASK=1 payload=ping payload, and no read happens before them; no other write occurs except
the reply to a close frame.
"""
import itertools

import common
import rx
import simnet
from rx import F


def gen(ctx):
    rnd = ctx.rng("gen")
    sts = []
    # every ping length 0..125 alone; 126/127/200 rejected
    for n in list(range(0, 126)) + [126, 127, 200]:
        sts.append([F(9, common.gen_bytes(n, n))])
    # bursts and positions: before, between, inside messages
    for n in (0, 1, 125):
        p = lambda i=0: F(9, common.gen_bytes(n, 7 + i))
        sts.append([p(), p(1), p(2)])
        sts.append([p(), F(1, b"hi")])
        sts.append([F(1, b"a", fin=0), p(), F(0, b"b", fin=0), p(1), p(2), F(0, b"c", fin=1)])
        sts.append([F(2, b"x"), p(), F(10, b"unsolicited"), F(2, b"y"), p(1)])
        sts.append([F(10, b"q"), F(10, b""), F(1, b"t")])
    k = 2500 if ctx.thorough() else 300
    for _ in range(k):
        frames = []
        for _ in range(rnd.randint(1, 4)):
            r = rnd.random()
            if r < 0.5:
                op = rnd.choice([1, 2])
                frames += rx.message(rnd, op, rx.payload(rnd, rnd.choice([0, 3, 50, 130]), "ascii"), rnd.randint(1, 4),
                                     ctrl_between=rnd.choice([0, 1, 2, 3]))
            elif r < 0.85:
                frames.append(F(9, rx.payload(rnd, rnd.choice([0, 1, 124, 125, rnd.randint(0, 125)]), "bin")))
            else:
                frames.append(F(10, rx.payload(rnd, rnd.randint(0, 125), "bin")))
        rx.randomize_encoding(rnd, frames, 0.2, 0.1)
        sts.append(frames)
    # pings after a frame the receive call REFUSED (reserved bit, fragmented control frame, one-byte close body, unassigned
    # opcode): the caller catches the protocol exception and keeps receiving — each later ping is still answered once
    for bad in (F(1, b"x", rsv=4), F(10, b"q", fin=0), F(8, b"\x03"), F(3, b"")):
        sts.append([F(9, b"a"), bad, F(9, b"b"), F(1, b"t"), F(9, b"c"), F(9, b"")])
        sts.append([bad, F(9, b"after")])
    # "every ping": 1300 pings (and pongs) in a row inside one receive call, then the message
    sts.append([F(9, b"%d" % i) for i in range(1300)] + [F(1, b"done")])
    sts.append([F(rnd.choice([9, 10]), b"") for i in range(1300)] + [F(9, b"last"), F(2, b"done")])
    return sts


def timeline_check(ctx, inp, frames, sock, key):
    """walk the SimSocket log; returns nothing, records violations."""
    # cumulative end offsets of frames in the byte stream
    ends, off = [], 0
    for f in frames:
        off += len(f.enc())
        ends.append(off)
    consumed = 0
    fi = 0                      # next frame whose end has not been reached
    pending = None              # (frame index) ping awaiting its pong
    wbuf = b""
    log = sock.log
    expect_close_reply = False
    writes_expected = []        # list of (kind, payload)
    i = 0
    problems = []
    for ev in log:
        if ev[0] == "recv":
            if pending is not None:
                problems.append(("pong-before-further-reading", f"read-before-pong-for-frame-{'x'}", f"read while the pong for ping #{pending} was still owed"))
                pending = None
            if isinstance(ev[2], (bytes, bytearray)):
                consumed += len(ev[2])
                while fi < len(frames) and consumed >= ends[fi]:
                    f = frames[fi]
                    if f.op == 9 and f.fin == 1 and len(f.data) <= 125 and f.rsv == 0:
                        pending = fi
                        wbuf = b""
                    elif f.op == 8:
                        expect_close_reply = True
                        wbuf = b""
                    fi += 1
        elif ev[0] == "send":
            data = ev[1] if isinstance(ev[2], int) else b""
            if pending is not None:
                wbuf += data
                want = rx.srv_frame(10, frames[pending].data, 1, 0, key)
                if wbuf == want:
                    pending = None
                    wbuf = b""
                elif not want.startswith(wbuf):
                    problems.append(("pong-is-one-wellformed-frame-same-payload", "wrong-pong-bytes", f"wrote {wbuf.hex()[:80]} want {want.hex()[:80]}"))
                    pending = None
            elif expect_close_reply:
                pass
            else:
                problems.append(("no-other-writes", "unsolicited-write", f"wrote {data.hex()[:60]} with no ping pending"))
    if pending is not None:
        problems.append(("each-ping-answered", "ping-not-answered", f"ping #{pending} never answered"))
    for clause, cause, what in problems[:1]:
        ctx.violate(clause, cause, inp, "exactly one pong right after the ping, nothing else written", what,
                    size=len(frames) * 10 + sum(len(f.data) for f in frames))


def run_after_own_close(ctx):
    """the client has sent ITS close frame (send_close) and keeps receiving until the server's close arrives: a ping read in
    that window is answered like any other (RFC 6455 5.5.2: unless a close frame was already RECEIVED).  Sessions against the
    model + the bytes written."""
    key = b"\x11\x22\x33\x44"
    sessions, meta = [], []
    for frames in ([F(9, b"a"), F(1, b"t"), F(9, b"bb"), F(8, b"\x03\xe8")],
                   [F(2, b"x", fin=0), F(9, b""), F(0, b"y"), F(9, b"late"), F(8, b"")],
                   [F(9, b"p" * 125), F(8, b"\x03\xe9bye")]):
        for api in ("recv", "recvdata:0", "recvdata:1", "rdf:1"):
            stream = b"".join(f.enc() for f in frames)
            sessions.append(({"keys": [key] * 8, "tail": "eof"}, [("chunk", stream)], ["sclose:1000:-"] + [api] * (len(frames) + 1)))
            meta.append((frames, api))
    for (frames, api), (impl, model, ws, sock, line) in zip(meta, rx.run_sessions(ctx, "session:ping-after-own-close", sessions)):
        ctx.case(key=line, nontrivial=True, cls=f"after-own-close:api={api}")
        wire = bytes(sock.sent)
        def mk(op, p):
            return bytes([0x80 | op, 0x80 | len(p)]) + key + bytes(b ^ key[i % 4] for i, b in enumerate(p))
        want = mk(8, b"\x03\xe8") + b"".join(mk(10, f.data) for f in frames if f.op == 9)
        if wire != want:
            ctx.violate("each-ping-answered", "ping-after-own-close-frame-not-answered",
                        {"op": line[:300], "frames": [f.desc() for f in frames], "api": api},
                        "own close frame, then one pong per ping: " + want.hex(), wire.hex(), size=len(frames) + 1)


def run_same_object_again(ctx):
    """the SECOND (third) connection of one WebSocket object: the first ended by end of stream seen in a receive call (after
    something had been written on it), by close(), or by shutdown(); then `connect()` again on the same object — the pings
    of the new connection are answered on the NEW transport, once each.  Real runs, oracle only."""
    import websocket
    rnd = ctx.rng("same-object")
    key = b"\x11\x22\x33\x44"
    for it in range(40 if ctx.thorough() else 12):
        ws = websocket.WebSocket()
        ws.set_mask_key(lambda n: key)
        ends = [rnd.choice(["eof", "close", "shutdown"]) for _ in range(rnd.randint(1, 2))]
        socks = []
        for e in ends:
            sk = simnet.connect_again(ws, [("chunk", simnet.srv_frame(9, b"first")), ("chunk", simnet.srv_frame(1, b"x"))], tail="eof")
            socks.append(sk)
            try:
                ws.send("hello")
                ws.recv()
                if e == "eof":
                    ws.recv()
                elif e == "close":
                    ws.close(timeout=0)
                else:
                    ws.shutdown()
            except Exception:  # noqa
                pass
        pings = [b"p%d" % j for j in range(rnd.randint(1, 3))]
        evs = [("chunk", simnet.srv_frame(9, p)) for p in pings] + [("chunk", simnet.srv_frame(2, b"done"))]
        last = simnet.connect_again(ws, evs, tail="timeout")
        old_sent = [len(sk.sent) for sk in socks]
        try:
            r = ws.recv_data()
            res = ("ret", r[0], bytes(r[1]))
        except Exception as e:  # noqa
            res = ("exn", common.canon_exc(e))
        want = b"".join(bytes([0x8a, 0x80 | len(p)]) + key + bytes(b ^ key[i % 4] for i, b in enumerate(p)) for p in pings)
        ctx.case(key=("same-object", it, tuple(ends), len(pings)), nontrivial=True, cls=f"same-object-again:{'-'.join(ends)}")
        leaked = [i for i, sk in enumerate(socks) if len(sk.sent) != old_sent[i]]
        if res != ("ret", 2, b"done") or bytes(last.sent) != want or leaked:
            ctx.violate("each-ping-answered", "pings-of-a-later-connection-of-the-object-not-answered-on-its-transport",
                        {"op": "connect / use / end (" + ", ".join(ends) + ") / connect again on ONE WebSocket object, then pings",
                         "pings": [p.hex() for p in pings]},
                        f"(2, b'done') returned; pongs {want.hex()} on the new transport; nothing more on the old ones",
                        f"{res}; new transport got {bytes(last.sent).hex()}; old transports written to: {leaked}", size=len(ends) + len(pings))


def run(ctx):
    ctx.rule = ("ping of every length 0..125 (and 126/127/200) alone; bursts; pings before/between/inside fragmented messages; "
                "unsolicited pongs; random mixes; read with recv / recv_data(ctl) / recv_data_frame(ctl), single chunk and byte-wise "
                "delivery; 30 % of the sessions on a transport that accepts writes in pieces. non-trivial = stream contains a ping")
    sts = gen(ctx)
    rnd = ctx.rng("cfg")
    key = b"\x11\x22\x33\x44"
    sessions, meta = [], []
    for frames in sts:
        stream = b"".join(f.enc() for f in frames)
        long = len(frames) > 1000
        for api in (["recv", "recvdata:0"] if long else ["recv", "recvdata:1", "rdf:0"] if len(frames) <= 3 else
                    [rnd.choice(["recv", "recvdata:0", "recvdata:1", "rdf:0", "rdf:1"])]):
            events = [("chunk", stream)] if long or rnd.random() < 0.7 else [("chunk", stream[i:i + 1]) for i in range(len(stream))]
            ops = [api] * (2 if long else len(frames) + 1)
            cfg = {"keys": [key] * (len(frames) + 2)}
            if rnd.random() < 0.3:
                # the transport accepts the pong in pieces (C07_trace holds for every short-write pattern)
                cfg["acc"] = [rnd.choice([1, 2, 3, 7, 50]) for _ in range(rnd.randint(1, 4))]
                if rnd.random() < 0.5:
                    cfg["dispatcher"] = rnd.choice(["plain", "ssl"])       # the object as WebSocketApp equips it
            sessions.append((cfg, events, ops))
            meta.append((frames, api))
    res = rx.run_sessions(ctx, "session:ping-pong", sessions)
    for (frames, api), (impl, model, ws, sock, line) in zip(meta, res):
        has_ping = any(f.op == 9 for f in frames)
        ctx.case(key=line, nontrivial=has_ping, cls=f"api={api}:pings={min(sum(f.op == 9 for f in frames), 4)}:inside-msg={int(any(f.op == 0 for f in frames))}",
                 sample={"frames": [f.desc() for f in frames], "api": api, "impl": impl[:200]} if len(ctx.samples) < 6 and len(frames) > 3 else None)
        inp = {"op": line if len(line) < 300 else line[:300] + "...", "frames": [f.desc() for f in frames], "api": api}
        timeline_check(ctx, inp, frames, sock, key)
        internal = [o for o in rx.results(impl) if o.startswith("X:INTERNAL")]
        if internal:
            ctx.violate("each-ping-answered", "receive-call-raises-" + internal[0][2:], inp, "a value or a documented exception", impl[:200],
                        size=len(frames))


    # the ping arrives in pieces with receive timeouts in between (one, two, or three interruptions, also inside the same
    # header / payload stage); the caller repeats the call: still exactly one pong, right after the ping's last byte
    sessions, meta = [], []
    for frames in ([F(9, b"0123456789"), F(1, b"h")], [F(9, b"ab", mask=b"mask"), F(9, b""), F(2, b"z")],
                   [F(2, b"x", fin=0), F(9, b"q" * 30, form=16), F(0, b"y")]):
        stream = b"".join(f.enc() for f in frames)
        n = len(stream)
        cuts = [(a,) for a in range(1, n)] + list(itertools.combinations(range(1, n), 2))
        trip = list(itertools.combinations(range(1, min(n, 18)), 3))
        cuts += trip if ctx.thorough() else rnd.sample(trip, 60)
        for cs in cuts:
            pts = [0] + list(cs) + [n]
            ev = []
            for a, b in zip(pts, pts[1:]):
                if ev:
                    ev.append(("timeout",))
                ev.append(("chunk", stream[a:b]))
            api = rnd.choice(["recv", "recvdata:0", "rdf:0"])
            sessions.append(({"keys": [key] * 6, "tail": "eof", "to": 1000}, ev, [api] * (len(frames) + 1 + len(cs))))
            meta.append((frames, api))
    res = rx.run_sessions(ctx, "session:ping-interrupted", sessions)
    for (frames, api), (impl, model, ws, sock, line) in zip(meta, res):
        ctx.case(key=line, nontrivial=True, cls=f"interrupted:api={api}:timeouts={line.count('T') if False else impl.count('X:TIMEOUT')}")
        inp = {"op": line if len(line) < 300 else line[:300] + "...", "frames": [f.desc() for f in frames], "api": api}
        timeline_check(ctx, inp, frames, sock, key)

    # the pong meets a full send buffer (EAGAIN at some write attempts; `_socket.send` waits and retries): still exactly one
    # pong per ping.  Real runs + the timeline oracle only (the model's transport has no would-block)
    import session
    import simnet
    for frames in ([F(9, b"p1"), F(9, b"p2"), F(1, b"x")], [F(9, b""), F(2, b"ab", fin=0), F(9, b"q" * 125), F(0, b"c")]):
        stream = b"".join(f.enc() for f in frames)
        for eagain in ([0], [1], [0, 2], [2], [1, 3]):
            for acc in (None, [5]):
                cfg = {"keys": [key] * (len(frames) + 2), "eagain": eagain, "to": 5000}
                if acc:
                    cfg["acc"] = acc
                with simnet.writable_selector():
                    out, ws, sock = session.run_impl(cfg, [("chunk", stream)], ["recv"] * 2)
                ctx.case(key=("eagain", len(frames), str(eagain), str(acc)), nontrivial=True, cls="eagain:pong")
                inp = {"op": "recv x2 with EAGAIN on the pong's write", "frames": [f.desc() for f in frames], "eagain_at_send_calls": eagain,
                       "accepts": acc}
                timeline_check(ctx, inp, frames, sock, key)
    run_after_own_close(ctx)
    run_same_object_again(ctx)


def search(ctx):
    run(ctx)


def replay(ctx, data):
    sub = common.Ctx(ctx.prop, "quick", ctx.seed)
    run(sub)
    for v in sub.violations:
        if v["clause"] == data["clause"] and v["cause"] == data["cause"]:
            ctx.violations.append(v)
            return False
    return True
