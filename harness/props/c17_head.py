"""C17, handshake phase: arbitrary bytes while connect() reads the response head.

(C) `m-read-headers` / `m-resp-headers` (Model.Http / Model.Handshake, whose no-internal-error and
request-size lemmas are proved in WS.Lemmas.Http) vs the real read_headers / _get_resp_headers on the same
scripted socket.  (O) on the REAL run, unit level and end-to-end through WebSocket.connect(socket=...):
only documented exceptions (WebSocketException family) or the transport's own error; every size passed to
the transport's recv is 1 while the head is read and at most 16384 for the error body, whatever
Content-Length says; the number of reads is bounded by the bytes supplied (progress).
"""
import os

import common
import h2lib
import simnet

ALLOWED_PREFIX = ("PROTO", "PAYLOAD", "CLOSED", "TIMEOUT", "BADSTATUS", "WSGENERIC", "PROXY", "ADDRESS", "TRANSPORT")


def allowed(exn):
    return exn.startswith(ALLOWED_PREFIX)


def run_head(ctx):
    rnd = ctx.rng("head-phase")
    streams = h2lib.head_streams(rnd, ctx.thorough())
    from simnet_h2 import events_arg
    l1, o1, l2, o2, meta = [], [], [], [], []
    for s in streams:
        ev, tail = h2lib.head_events(rnd, s)
        t = "E" if tail == "eof" else "T"
        a, sock = h2lib.real_read_headers(ev, tail)
        b, sock2 = h2lib.real_resp_headers(ev, tail)
        l1.append(f"m-read-headers {t} {events_arg(ev)}")
        o1.append(a)
        l2.append(f"m-resp-headers {t} {events_arg(ev)}")
        o2.append(b)
        meta.append((s, ev, tail, a, b, list(sock.recv_sizes), list(sock2.recv_sizes)))
    mo = common.run_driver_parallel(l1 + l2)
    m1, m2 = mo[:len(l1)], mo[len(l1):]
    for (s, ev, tail, a, b, sz1, sz2), ma, mb, la, lb in zip(meta, m1, m2, l1, l2):
        ctx.traces_vs_impl += 2
        if ma != "unmodelled" and ma != a:
            ctx.diverge("unit:read_headers", {"op": la[:300]}, ma[:300], a[:300])
        if mb != "unmodelled" and mb != b:
            ctx.diverge("unit:resp_headers", {"op": lb[:300]}, mb[:300], b[:300])
        ka = a.split()[1] if a.startswith("exn") else "ok"
        kb = b.split()[1] if b.startswith("exn") else "ok"
        ctx.case(key=("head", s, tail), nontrivial=len(s) > 0, cls=f"head-phase:read_headers:{ka.split('(')[0]}:{'unmodelled' if ma == 'unmodelled' else 'modelled'}",
                 sample={"stream": s[:60].hex(), "read_headers": a[:120], "resp_headers": b[:120]} if len(ctx.samples) < 10 and len(s) > 20 and kb != "ok" else None)
        inp = {"op": "read_headers/_get_resp_headers", "stream": s[:200].hex(), "events": [(e[0], len(e[1]) if len(e) > 1 else 0) for e in ev], "tail": tail}
        for which, k, out in (("read_headers", ka, a), ("_get_resp_headers", kb, b)):
            if k != "ok" and not allowed(k):
                ctx.violate("only-documented-exceptions", f"head-phase-{which}-{k}", inp, "WebSocketException family or transport error", out[:200], size=len(s))
        if any(x != 1 for x in sz1):
            ctx.violate("request-sizes-bounded", "head-read-not-bytewise", inp, "recv(1) while reading the head", str(sorted(set(sz1)))[:80], size=len(s))
        big = [x for x in sz2 if x > 16384]
        if big:
            ctx.violate("request-sizes-bounded", "recv-size-from-content-length", inp, "<= 16384", str(big[:3]), size=len(s))
        if len(sz2) > len(s) + 3:
            ctx.violate("progress", "head-spins-without-consuming", inp, f"<= {len(s) + 3} reads", str(len(sz2)), size=len(s))
    # ---- end to end: connect() over a scripted socket, head + whatever follows
    import websocket
    old = os.urandom
    n = 0
    for s in streams:
        if not ctx.thorough() and n > 900 and rnd.random() < 0.6:
            continue
        n += 1
        sock = simnet.SimSocket([("chunk", s)] if s else [], tail=rnd.choice(["eof", "timeout"]))
        ws = websocket.WebSocket()
        os.urandom = lambda k: bytes(k)
        try:
            try:
                ws.connect("ws://example.test/r", socket=sock, redirect_limit=0)
                res = "connected"
                try:
                    ws.recv()
                except Exception as e:  # noqa
                    res += "+" + common.canon_exc(e)
            except Exception as e:  # noqa
                res = common.canon_exc(e)
        finally:
            os.urandom = old
        ctx.case(key=("e2e-head", s), nontrivial=len(s) > 0, cls="head-phase:connect:" + res.split("(")[0])
        inp = {"op": "connect(socket=scripted)", "stream": s[:200].hex()}
        for part in res.split("+"):
            if part != "connected" and not allowed(part):
                ctx.violate("only-documented-exceptions", "head-phase-connect-" + part, inp, "WebSocketException family or transport error", res, size=len(s))
        if any(x > 16384 for x in sock.recv_sizes):
            ctx.violate("request-sizes-bounded", "recv-size-from-declared-length", inp, "<= 16384", str(max(sock.recv_sizes)), size=len(s))
        if ws.connected and "connected" not in res:
            ctx.violate("result-consistent", "connected-after-failed-connect", inp, "not connected", res, size=len(s))
    run_histories(ctx)


def run_histories(ctx):
    """what earlier handshakes of the process left behind is network input too: the cookie jar is filled from the
    Set-Cookie headers of accepted responses and read when the NEXT request is built.  Histories of 2-3 accepted handshakes
    whose Set-Cookie values are built from nested / equal / unrelated domains, equal and different names, odd values — then
    one more connect: it returns or raises a documented exception, never an internal error.  Real runs, oracle only."""
    import base64
    import hashlib
    import websocket
    from websocket import _handshake
    rnd = ctx.rng("head-histories")
    key_raw = bytes(16)
    acc = base64.b64encode(hashlib.sha1(base64.b64encode(key_raw) + b"258EAFA5-E914-47DA-95CA-C5AB0DC85B11").digest()).decode()
    doms = ["sub.example.test", "example.test", ".example.test", "EXAMPLE.test", "other.test", "test", "", "a.sub.example.test"]
    names = ["sid", "sid", "tok", "SID", "x-1"]
    vals = ["1", "9", "", "a b", "\"q\"", "v;w", "caf\u00e9"]
    hosts = ["sub.example.test", "example.test", "a.sub.example.test", "other.test"]
    old = os.urandom
    n = 1500 if ctx.thorough() else 250
    for it in range(n):
        hist = []
        for _ in range(rnd.randint(2, 3)):
            parts = [f"{rnd.choice(names)}={rnd.choice(vals)}"]
            if rnd.random() < 0.3:
                parts.append(f"{rnd.choice(names)}={rnd.choice(vals)}")
            sc_ = "; ".join(parts)
            d = rnd.choice(doms)
            if rnd.random() < 0.9:
                sc_ += f"; Domain={d}"
            if rnd.random() < 0.3:
                sc_ += "; Path=/; Secure"
            hist.append((rnd.choice(hosts), sc_))
        last = rnd.choice(hosts)
        _handshake.CookieJar.jar.clear()
        results = []
        os.urandom = lambda k: bytes(k)
        try:
            for host, setc in hist + [(last, None)]:
                head = "HTTP/1.1 101 Switching Protocols\r\nUpgrade: websocket\r\nConnection: Upgrade\r\n" + \
                       f"Sec-WebSocket-Accept: {acc}\r\n" + (f"Set-Cookie: {setc}\r\n" if setc is not None else "") + "\r\n"
                sock = simnet.SimSocket([("chunk", head.encode("utf-8"))], tail="timeout")
                ws = websocket.WebSocket()
                try:
                    ws.connect(f"ws://{host}/", socket=sock)
                    results.append("connected")
                except Exception as e:  # noqa
                    results.append(common.canon_exc(e))
        finally:
            os.urandom = old
            _handshake.CookieJar.jar.clear()
        ctx.case(key=("head-history", it, tuple(hist), last), nontrivial=True, cls=f"head-phase:history:len={len(hist)}")
        bad = [r for r in results if r != "connected" and not allowed(r)]
        if bad:
            ctx.violate("only-documented-exceptions", "head-phase-connect-after-earlier-handshakes-" + bad[0][:40],
                        {"op": "successive connect() calls of one process (shared cookie jar)", "earlier_handshakes(host, Set-Cookie)": hist,
                         "then_connect_to": last}, "connected or a documented exception", results, size=len(hist) + 1)

