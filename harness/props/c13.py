"""C13 — WebSocketApp delivers every event to its callback exactly once, in order, promptly.

(C) the real `run_forever` under simsched/simnet_app vs the Lean model `m-app` on the same world /
callback plan / schedule: the full time-stamped traces must be identical.
(O) `s-app` (Spec.AppTrace.c13Run: open-first, delivery order/args/exactly-once, promptness = callback time
equals the arrival time of the event's last byte, error reports) applied to the REAL trace.

Enumerated (DESIGN §6 "Tie"): every traffic history up to length 4 (thorough 5) over {text, binary, fragmented
text, fragmented binary, ping, pong, burst of three frames in one segment}, each followed by silence and by
end of stream, on the plain and the TLS-style transport; every subset of the 8 callbacks; each callback raising
at each invocation (with and without on_error); gaps longer than the select timeout; a first fragment that
arrives alone; random histories up to length 20.
"""
import itertools

import appcheck
import appsim
from appsim import TPS, CBS

TEXTS = [b"hi", "κό".encode(), b"", b"x" * 130]
BINS = [b"\x00\xff", b"", bytes(range(7))]
DTS = [100, 0, 1, 11000]


def item(sym, i, rnd=None):
    dt = DTS[i % len(DTS)] if rnd is None else rnd.choice([0, 1, 7, 100, 2500, 11000])
    tx = TEXTS[i % len(TEXTS)] if rnd is None else rnd.choice(TEXTS)
    bn = BINS[i % len(BINS)] if rnd is None else rnd.choice(BINS)
    if sym == "t":
        return [[dt, 0, "t", tx.hex()]]
    if sym == "T":
        return [[dt, 0, "T", (tx + b"ab").hex()]]
    if sym == "b":
        return [[dt, 0, "b", bn.hex()]]
    if sym == "B":
        return [[dt, 0, "B", (bn + b"\x01\x02").hex()]]
    if sym == "p":
        return [[dt, 0, "p", b"pi".hex() if i % 2 else ""]]
    if sym == "q":
        return [[dt, 0, "q", b"po".hex() if i % 2 else ""]]
    if sym == "P":      # the largest legal control frames
        return [[dt, 0, "p", (b"\x7e" * 125).hex()]]
    if sym == "Q":
        return [[dt, 0, "q", (b"\x7f" * 125).hex()]]
    if sym == "U":
        return [[dt, 0, "t", tx.hex()], [0, 1, "p", "70"], [0, 1, "B", (bn + b"zz").hex()]]
    if sym == "H":      # first fragment alone, the rest later
        return [[dt, 0, "h", ""], [40, 0, "T", (tx + b"cd").hex()]]
    raise ValueError(sym)


def history(word, rnd=None):
    evs = []
    for i, sym in enumerate(word):
        evs += item(sym, i, rnd)
    return evs


ENDS = {"silence": [], "eof": [[50, 0, "e", ""]]}


def scenario(word, end="eof", ssl=False, cbs=appsim.ALL, plan=None, rnd=None, horizon=60 * TPS):
    evs = history(word, rnd) + ENDS[end]
    sc = {"cbs": cbs, "ssl": ssl, "runs": [[["E", evs]]], "horizon": horizon, "tag": f"{''.join(word)}|{end}"}
    if plan:
        sc["plan"] = plan
    return sc


def exact_of(sc):
    plan = sc.get("plan", {})
    if any(ch in "ck" for v in plan.values() for ch in v):
        return False
    if "r" in plan.get("on_error", "") or "r" in plan.get("on_close", ""):
        return False
    return True


def cls_of(sc):
    w, e = sc.get("tag", "?|?").split("|")
    return f"len={len(w)}:end={e}:ssl={int(bool(sc.get('ssl')))}:cbs={'all' if sc.get('cbs', 255) == 255 else 'subset'}" \
           f":plan={'raise' if sc.get('plan') else 'ok'}"


def extra(ctx, sc, r):
    if r["stalls"]:
        ctx.violate("prompt", "select-blocks-with-unread-data", sc, "select never blocks while decrypted data waits",
                    f"{r['stalls']} stalls", size=appcheck.size_of(sc))
    if r["badframes"]:
        ctx.violate("frames", "unmasked-client-frame", sc, "client frames masked", "", size=appcheck.size_of(sc))


def scenarios(ctx):
    rnd = ctx.rng("c13")
    scs = []
    alpha = ["t", "b", "T", "B", "p", "q", "U"]
    maxlen = 5 if ctx.thorough() else 4
    for n in range(0, maxlen + 1):
        for word in itertools.product(alpha, repeat=n):
            for end in ("silence", "eof"):
                for ssl in (False, True):
                    scs.append(scenario(word, end, ssl))
    for word in itertools.product(alpha, repeat=6 if ctx.thorough() else 5):
        scs.append(scenario(word, "eof", False))
    # 125-byte pings and pongs, between and inside messages
    for word in (["P"], ["Q"], ["t", "P", "b"], ["P", "Q", "t"], ["H", "P"], ["t", "Q", "P", "T"]):
        for ssl in (False, True):
            for end in ("silence", "eof"):
                scs.append(scenario(word, end, ssl))
    # a first fragment alone
    for word in (["H"], ["t", "H", "p"], ["H", "H"], ["U", "H", "q"]):
        for ssl in (False, True):
            scs.append(scenario(word, "eof", ssl))
    # every subset of the callbacks on rich histories
    rich = [["t", "p", "T", "q", "b"], ["U", "B", "p"], ["q", "t", "t"]]
    for mask in range(256):
        for word in rich[:(3 if ctx.thorough() else 2)]:
            scs.append(scenario(word, "eof", bool(mask & 1), cbs=mask))
    # each callback raising at each invocation, with and without on_error; on_error itself raising
    word = ["t", "p", "T", "q", "b", "U"]
    for cb in ("on_open", "on_message", "on_data", "on_ping", "on_pong"):
        for k in range(6):
            for mask in (appsim.ALL, appsim.ALL & ~(1 << CBS.index("on_error"))):
                scs.append(scenario(word, "eof", False, cbs=mask, plan={cb: "o" * k + "r"}))
        scs.append(scenario(word, "eof", True, plan={cb: "rrrrrrrr"}))
    for k in range(3):
        scs.append(scenario(word, "eof", False, plan={"on_message": "r", "on_error": "o" * k + "r"}))
    scs.append(scenario(word, "silence", False, plan={"on_message": "rr", "on_data": "or", "on_ping": "r"}))
    # re-established connections (reconnect on): on_reconnect when given, otherwise on_open again, first on EVERY connection
    from props import c15
    # (… also after a connection that was lost BETWEEN THE FRAGMENTS of a message: the next connection starts from a fresh
    #  parser and reassembly state, its messages are delivered like on a first connection)
    for seq in (("Ee", "Ee"), ("Er", "R", "Ee"), ("Ee", "J", "Er", "Ee"), ("R", "Ee", "Ee"), ("Ex", "Ee"),
                ("Eh", "Ee"), ("Ehr", "Ee"), ("Eh", "R", "Ehr", "Ee")):
        for drop in (None, "on_reconnect", "on_open", "on_error"):
            for ssl in (False, True):
                mask = appsim.ALL if drop is None else appsim.ALL & ~(1 << CBS.index(drop))
                sc = c15.scenario(seq, TPS, "close", cbs=mask, ssl=ssl)
                sc["tag"] = f"{'-'.join(seq)}|reconnect"
                scs.append(sc)
    # a ping timeout configured without a ping interval (no ping is ever sent, so nothing can time out): unsolicited pongs
    # and everything after them are dispatched as always
    for word in (["q"], ["q", "t"], ["t", "q", "p", "b"], ["Q", "T", "q", "q", "t"], ["U", "q", "B"], ["p", "q", "H", "q", "b"]):
        for end in ("silence", "eof"):
            for ssl in (False, True):
                sc = scenario(word, end, ssl)
                sc["iv"], sc["to"] = 0, 5 * TPS
                sc["tag"] = f"{''.join(word)}|{end}+ping_timeout"
                scs.append(sc)
    # segmentation below the frame level: the first bytes of a frame arrive early in a segment of their own, the rest arrives
    # glued to the NEXT frame(s) — every frame is still dispatched when its last byte has arrived
    for first, nxt in ((["t", "6869"], [["b", "0001"]]), (["p", "7069"], [["t", "6f6b"]]), (["b", "aa" * 130], [["t", "61"], ["p", ""]]),
                       (["t", "e38182"], [["q", ""], ["B", "00010203"]])):
        ln = len(bytes.fromhex(first[1])) + 2
        for cut in sorted({1, 2, 3, ln - 1}):
            for ssl in (False, True):
                evs = [[300, 0, "t", "2d"], [500, 0, first[0], first[1], cut, 40]] + [[0, 1, k, h] for k, h in nxt] + [[900, 0, "b", "ff"]]
                for end in ("silence", "eof"):
                    scs.append({"cbs": appsim.ALL, "ssl": ssl, "runs": [[["E", evs + ENDS[end]]]], "horizon": 60 * TPS,
                                "tag": f"presplit{cut}:{first[0]}{''.join(k for k, _ in nxt)}|{end}"})
    # … and messages whose FINAL fragment is empty (all of the payload in the first frame): delivered, and the messages that
    # follow are delivered as well
    for evs in ([[100, 0, "T", "616263", "ef"], [100, 0, "t", "6f6b"]],
                [[100, 0, "B", "0001", "ef"], [50, 0, "p", "70"], [100, 0, "T", "68c3a9", "ef"], [100, 0, "b", "ff"]],
                [[100, 0, "T", "61", "ef"], [0, 1, "t", "62"], [100, 0, "B", "00", "ef"]]):
        for end, tail in (("eof", ENDS["eof"]), ("close", [[40, 0, "c", "03e8"]]), ("silence", [])):
            for ssl in (False, True):
                scs.append({"cbs": appsim.ALL, "ssl": ssl, "runs": [[["E", evs + tail]]], "horizon": 60 * TPS,
                            "tag": f"emptyfinal{len(evs)}|{end}"})
    # the constructor's callbacks given positionally, in the documented order (3 = header, on_open, on_reconnect ... 14 = all)
    for npos in (3, 5, 6, 8, 14):
        for word in (["t", "p", "T", "q", "b"], ["U", "B", "p", "q"]):
            for mask in (appsim.ALL, 0b11110101, 0b01011111):
                sc = scenario(word, "eof", False, cbs=mask, plan={"on_message": "or"})
                sc["positional"] = npos
                sc["tag"] = f"{''.join(word)}|eof+positional{npos}"
                scs.append(sc)
    # an EMPTY first fragment (legal): the message's type is the first fragment's, its payload the continuation's
    for evs in ([[50, 0, "T", "61"], [50, 0, "B", "00"], [50, 0, "t", "6f6b"]], [[50, 0, "B", "ff"], [0, 1, "p", "70"], [0, 1, "T", "7a"]],
                [[10, 0, "T", "e9".encode().hex() if False else "41"], [10, 0, "T", "62"]]):
        for ssl in (False, True):
            for end in ("silence", "eof"):
                scs.append({"cbs": appsim.ALL, "ssl": ssl, "runs": [[["E", evs + ENDS[end]]]], "horizon": 60 * TPS,
                            "tag": f"emptyfirst{len(evs)}|{end}"})
    # large messages: both sides of every length-form boundary of the frame header (7-bit / 16-bit / 64-bit), the sign bit of
    # the 16-bit form included — the handler gets the whole message
    for ln in (125, 126, 127, 32767, 32768, 40000, 65535, 65536):
        for k in ("b", "t", "B"):
            body = (bytes([0x61 + (ln + j) % 26 for j in range(64)]) * (ln // 64 + 1))[:ln]
            for ssl in (False, True):
                if ssl and ln not in (126, 32768, 65536):
                    continue
                evs = [[100, 0, k, body.hex()], [200, 0, "t", "6f6b"]]
                scs.append({"cbs": appsim.ALL, "ssl": ssl, "runs": [[["E", evs + ENDS["eof"]]]], "horizon": 60 * TPS,
                            "tag": f"large{ln}:{k}|eof"})
    # random longer histories
    n = 3000 if ctx.thorough() else 150
    for _ in range(n):
        word = [rnd.choice(alpha + ["H"]) for _ in range(rnd.randint(5, 20))]
        plan = {}
        if rnd.random() < 0.4:
            for cb in ("on_message", "on_data", "on_ping", "on_pong", "on_open"):
                if rnd.random() < 0.4:
                    plan[cb] = "".join(rnd.choice("oor") for _ in range(8))
        mask = appsim.ALL if rnd.random() < 0.6 else rnd.randrange(256)
        scs.append(scenario(word, rnd.choice(["eof", "silence"]), rnd.random() < 0.5, cbs=mask, plan=plan or None,
                            rnd=rnd, horizon=400 * TPS))
    return scs


def run_per_fragment(ctx):
    """on_cont_message set (per-fragment delivery): whether it is handed to the constructor or assigned afterwards, every
    fragment is dispatched on its own — first fragment: on_data(data, opcode, True) + on_message(data); each continuation:
    on_data(data, 0, fin) + on_cont_message(data, fin) — and when it has been removed again before the run, whole messages
    are. Real runs + this oracle (the application model has no on_cont_message)."""
    scs = []
    msgs = [("T", b"abcd"), ("B", b"\x00\x01\x02\x03"), ("t", b"hi"), ("T", b"wxyz12")]
    for mode in ("init", "late", "removed"):
        for order in ([0, 1, 2], [2, 0, 3], [1, 1], [3]):
            for ssl_ in (False, True):
                evs = [[100, 0, msgs[i][0], msgs[i][1].hex()] for i in order] + [[50, 0, "c", "03e8"]]
                scs.append({"cbs": appsim.ALL, "ssl": ssl_, "runs": [[["E", evs]]], "horizon": 30 * TPS, "cont_cb": mode,
                            "kind": "per-fragment", "tag": f"cont:{mode}:{'-'.join(map(str, order))}"})
    # an ill-formed text message (FF) while per-fragment delivery is on: it is not handed to on_message / on_data
    for mode in ("init", "late"):
        scs.append({"cbs": appsim.ALL, "ssl": False, "runs": [[["E", [[100, 0, "t", "6f6b"], [100, 0, "y", ""], [100, 0, "t", "6e6f"]]]]],
                    "horizon": 30 * TPS, "cont_cb": mode, "kind": "per-fragment", "tag": f"cont:{mode}:ill-formed"})
    for sc, r in zip(scs, appcheck.run_real_many(scs)):
        got = [it.partition(":")[2] for it in (r["trace"].split(";") if r["trace"] else [])
               if it.partition(":")[2].startswith(("cb:on_data", "cb:on_message", "cb:on_cont_message"))]
        ctx.case(key=("cont", sc["tag"], sc["ssl"]), nontrivial=True, cls="per-fragment:" + sc["tag"].split(":")[1])
        if sc["tag"].endswith("ill-formed"):
            bad = [g for g in got if "ff" in g.split(":", 2)[2].lower() or "efbfbd" in g.lower()]
            if bad or len(got) != 2:
                ctx.violate("delivery", "ill-formed-text-delivered@per-fragment-delivery", sc, "only the message before it is delivered",
                            str(got), size=6)
            continue
        want = []
        for i in [int(x) for x in sc["tag"].split(":")[2].split("-")]:
            k, p = msgs[i]
            op = 1 if k in "tT" else 2
            arg = lambda b, o=op: appsim.arg_out(b.decode() if o == 1 else b)
            if k in "tb" or sc["cont_cb"] == "removed":
                want += [f"cb:on_data:{arg(p)},i{op},T", f"cb:on_message:{arg(p)}"]
            else:
                a, b = p[:len(p) // 2], p[len(p) // 2:]
                want += [f"cb:on_data:{arg(a)},i{op},T", f"cb:on_message:{arg(a)}",
                         f"cb:on_data:{appsim.arg_out(b)},i0,i1", f"cb:on_cont_message:{appsim.arg_out(b)},i1"]
        if got != want:
            ctx.violate("delivery", "per-fragment-delivery-does-not-follow-on_cont_message", sc, str(want)[:400], str(got)[:400], size=len(want))


def run(ctx):
    run_per_fragment(ctx)
    ctx.rule = ("every history over {t,b,T,B,p,q,burst} up to length 4 (thorough 5) x "
                "{silence, eof} x {plain, TLS-style}; all 256 callback subsets; each callback raising at each "
                "invocation; first fragment alone; reconnecting runs (2-4 connections) with and without on_reconnect / on_open; random histories to length 20 "
                "(non-trivial = at least one server event or a plan)")
    corp = [d["input"] for d in appcheck.corpus("C13")]
    if corp:
        appcheck.evaluate(ctx, "C13", corp, exact_of=exact_of, cls_of=lambda sc: "corpus", extra_check=extra)
    scs = scenarios(ctx)
    for i, sc in enumerate(scs):
        if i % 4 == 1:
            sc["trace"] = True          # every fourth scenario with websocket.enableTrace(True): logging is not behaviour
    appcheck.evaluate(ctx, "C13", scs, exact_of=exact_of, cls_of=cls_of, extra_check=extra)


def search(ctx):
    run(ctx)


def replay(ctx, data):
    if "input" not in data:
        return appcheck.replay_nofail(ctx, data, run)
    return appcheck.replay_scenario(ctx, "C13", data, exact_of=exact_of, extra_check=extra)
