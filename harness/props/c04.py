"""C04 — fragmented messages are reassembled in order, undisturbed by control frames.

(C) `m-session` over frame lists generated from message lists vs the real receive API
(recv / recv_data / recv_data_frame; fire_cont_frame on/off; skip_utf8_validation on/off; control_frame
on/off).  (O) Spec: each message is delivered once, with the opcode of its first fragment and the in-order
concatenation of its fragments; with per-fragment delivery each fragment is returned with its own payload
and FIN.  Pings/pongs between fragments change nothing.
"""
import itertools

import common
from common import summarize
import rx
from rx import F


def gen_msgs(ctx):
    rnd = ctx.rng("msgs")
    out = []
    # exhaustive small: payloads <= 4 bytes into <= 4 fragments (all cut sets), <= 1 control frame per gap
    maxlen = 6 if ctx.thorough() else 4
    for n in range(0, maxlen + 1):
        data = bytes(range(0x61, 0x61 + n))
        for k in range(1, 5):
            for cuts in itertools.combinations_with_replacement(range(0, n + 1), k - 1):
                pts = [0] + list(cuts) + [n]
                for op in (1, 2):
                    for ctrl in ((None, 9, 10) if (ctx.thorough() or n <= 2) else (None, 9)):
                        frames = []
                        for i in range(k):
                            if i > 0 and ctrl is not None:
                                frames.append(F(ctrl, b"c%d" % i))
                            frames.append(F(op if i == 0 else 0, data[pts[i]:pts[i + 1]], fin=1 if i == k - 1 else 0))
                        out.append([(op, [data[pts[i]:pts[i + 1]] for i in range(k)], frames)])
    # "any number": one message in 1300 fragments; two fragments with 1300 pongs / pings between them; then a second message
    nl = 1300
    out.append([(1, [b"a"] + [b""] * (nl - 2) + [b"z"],
                 [F(1, b"a", fin=0)] + [F(0, b"", fin=0) for _ in range(nl - 2)] + [F(0, b"z", fin=1)]),
                (2, [b"\x00\xff"], [F(2, b"\x00\xff")])])
    for c in (10, 9):
        out.append([(2, [b"a", b"b"], [F(2, b"a", fin=0)] + [F(c, b"") for _ in range(nl)] + [F(0, b"b", fin=1)]),
                    (1, [b"next"], [F(1, b"next")])])
    # random: several messages, up to 6 fragments, 0-3 control frames in every gap, boundary-length fragments
    n = 3000 if ctx.thorough() else 400
    for _ in range(n):
        msgs = []
        for _ in range(rnd.randint(1, 4)):
            op = rnd.choice([1, 2])
            ln = rnd.choice([0, 1, 2, 10, 125, 126, 300, rnd.randint(0, 600)])
            if rnd.random() < 0.02:
                ln = rnd.choice([65535, 65536, 70000])
            data = rx.payload(rnd, ln, "utf8" if op == 1 else "bin")
            frames = rx.message(rnd, op, data, rnd.randint(1, 6), ctrl_between=rnd.choice([0, 0, 1, 3]))
            frags = [f.data for f in frames if f.op in (0, 1, 2)]
            msgs.append((op, frags, frames))
            for _ in range(rnd.choice([0, 0, 1, 2])):
                msgs.append((None, [], [rx.control(rnd)]))
        rx.randomize_encoding(rnd, [f for m in msgs for f in m[2]], 0.2, 0.1)
        out.append(msgs)
    return out


def expected(msgs, api, fire, ctl):
    """Spec: the sequence of values the calls return for this message list."""
    exp = []
    for op, frags, frames in msgs:
        for f in frames:
            if f.op in (9, 10):
                if ctl and api in ("rdf", "recvdata"):
                    exp.append(("ctl", f.op, f.data))
        if op is None:
            continue
    # order matters: rebuild in stream order
    exp = []
    for op, frags, frames in msgs:
        acc_first = True
        acc = b""
        for f in frames:
            if f.op in (9, 10):
                if ctl:
                    exp.append(("ctl", f.op, f.data, 1))
            else:
                if fire:
                    exp.append(("frag", f.op if False else (op if acc_first else 0), f.data, f.fin))
                    acc_first = False
                else:
                    acc += f.data
                    if f.fin:
                        exp.append(("msg", op, acc, 1))
    return exp


def _decodable(data):
    try:
        bytes(data).decode("utf-8")
        return True
    except UnicodeDecodeError:
        return False


def render(exp, api):
    outs = []
    for kind, op, data, fin in exp:
        if api == "recv":
            if kind == "ctl":
                continue
            if op == 1 and not _decodable(data):
                outs.append("X:PAYLOAD")        # recv() returns str: a fragment that ends inside a code point cannot be returned
                continue
            outs.append(("T:" if op == 1 else "B:" if op == 2 else "E") + (summarize(data) if op in (1, 2) else ""))
        elif api.startswith("recvdata"):
            outs.append(f"D:{op}:{summarize(data)}")
        else:
            outs.append(f"R:{op}:{fin}:{summarize(data)}")
    return outs


def run(ctx):
    ctx.rule = ("message lists -> frame streams: every cut of payloads <= 4 (6) bytes into <= 4 fragments incl. empty ones x "
                "text/binary x a ping/pong in every gap; random lists of 1-4 messages, <= 6 fragments, 0-3 control frames per "
                "gap, boundary lengths, random masks/forms; read through recv, recv_data(ctl), recv_data_frame(ctl) with "
                "fire_cont_frame and skip_utf8_validation on/off. non-trivial = fragmented or control frames interleaved")
    lists = gen_msgs(ctx)
    rnd = ctx.rng("cfg")
    sessions, meta = [], []
    for msgs in lists:
        frames = [f for m in msgs for f in m[2]]
        stream = b"".join(f.enc() for f in frames)
        small = len(lists) and len(msgs) == 1 and len(stream) < 40
        combos = [(api, fire, ctl, skip) for api in ("recv", "recvdata", "rdf") for fire in (0, 1) for ctl in (0, 1) for skip in (0, 1)
                  if not (api == "recv" and ctl)]
        if len(frames) > 1000:
            combos = [("recvdata", 0, 0, 0), ("recv", 0, 0, 1), ("rdf", 0, 0, 0), ("rdf", 1, 1, 0)]
        elif not (small and ctx.thorough()):
            combos = rnd.sample(combos, 3)
        for api, fire, ctl, skip in combos:
            opn = api if api == "recv" else f"{api}:{ctl}"
            exp = expected(msgs, api, fire, ctl)
            ncalls = len(render(exp, api)) + 1
            sessions.append(({"fire": fire, "skip": skip, "keys": [b"\x00" * 4] * 0}, [("chunk", stream)], [opn] * ncalls))
            meta.append((msgs, api, fire, ctl, skip, exp))
    res = rx.run_sessions(ctx, "session:reassembly", sessions)
    for (msgs, api, fire, ctl, skip, exp), (impl, model, ws, sock, line) in zip(meta, res):
        outs = rx.results(impl)
        want = render(exp, api) + ["X:CLOSED"]
        frames = [f for m in msgs for f in m[2]]
        nontriv = any(len(m[1]) > 1 for m in msgs) or any(f.op in (9, 10) for f in frames)
        ctx.case(key=line, nontrivial=nontriv,
                 cls=f"api={api}:fire={fire}:ctl={ctl}:skip={skip}:msgs={min(len([m for m in msgs if m[0]]), 3)}:maxfrag={min(max((len(m[1]) for m in msgs), default=0), 4)}",
                 sample={"frames": [f.desc() for f in frames], "api": api, "fire": fire, "impl": impl[:200]} if len(ctx.samples) < 6 and len(frames) >= 4 else None)
        if outs != want:
            k = next((i for i in range(min(len(outs), len(want))) if outs[i] != want[i]), min(len(outs), len(want)))
            got, w = (outs[k] if k < len(outs) else "<none>"), (want[k] if k < len(want) else "<none>")
            if got.startswith("X:"):
                cause = "raises-" + got[2:]
            elif got.split(":")[0] != w.split(":")[0] or (len(got.split(":")) > 1 and len(w.split(":")) > 1 and got.split(":")[1] != w.split(":")[1] and api != "recv"):
                cause = "wrong-opcode-or-kind"
            else:
                cause = "wrong-payload-or-order"
            clause = "per-fragment-delivery" if fire else "reassembled-once-in-order"
            ctx.violate(clause, cause, {"op": line if len(line) < 300 else line[:300] + "...", "frames": [f.desc() for f in frames],
                                        "api": api, "fire": fire, "ctl": ctl, "skip": skip},
                        want[:6], outs[:6], size=len(frames) * 10 + sum(len(f.data) for f in frames))
    run_app_bursts(ctx)


def run_app_bursts(ctx):
    """the same reassembly through the application loop (`WebSocketApp.run_forever`, plain and TLS-style transports): several
    frames of fragmented messages — with a ping between two fragments — arrive in ONE segment / TLS record, then the server
    waits; every message reaches on_message once, in order, whole.  Real runs under the virtual-time scheduler, oracle only."""
    import appcheck
    import appsim
    from props import c13
    scs = []
    for word in (["U"], ["U", "U"], ["t", "U", "b"], ["T", "U"], ["U", "B", "U"], ["H", "U"],
                 ["t", "q", "b"], ["U", "q", "T"], ["T", "Q", "B", "q", "t"]):       # (q / Q: a pong the server sends unasked, as a heartbeat)
        for end in ("silence", "eof"):
            for ssl in (False, True):
                sc = c13.scenario(word, end, ssl)
                sc["tag"] = f"{''.join(word)}|{end}+burst"
                scs.append(sc)
    # an EMPTY first fragment (legal), the payload in the continuation; with a ping in between
    for evs in ([[50, 0, "T", "61"], [50, 0, "B", "00"], [50, 0, "t", "6f6b"]],
                [[50, 0, "B", "ff"], [0, 1, "p", "70"], [0, 1, "T", "7a"]]):
        for ssl in (False, True):
            scs.append({"cbs": appsim.ALL, "ssl": ssl, "runs": [[["E", evs + [[50, 0, "e", ""]]]]], "horizon": 60 * 1024,
                        "tag": "empty-first-fragment|eof+burst"})
    for sc, r in zip(scs, appcheck.run_real_many(scs)):
        want = []
        for ev in sc["runs"][0][0][1]:
            if ev[2] in "tTbB":
                want.append(("s" if ev[2] in "tT" else "b") + (ev[3] or "-"))
        got = [it.partition(":")[2][len("cb:on_message:"):] for it in (r["trace"].split(";") if r["trace"] else [])
               if it.partition(":")[2].startswith("cb:on_message:")]
        ctx.case(key=("app-burst", sc["tag"], sc["ssl"]), nontrivial=True, cls=f"app-burst:ssl={int(bool(sc['ssl']))}")
        if got != want:
            ctx.violate("reassembled-once-in-order", "message-stuck-behind-a-burst-in-the-application-loop", sc,
                        want, f"{got}; trace …{r['trace'][-240:]}", size=len(want) + 2)


def search(ctx):
    run(ctx)


def replay(ctx, data):
    sub = common.Ctx(ctx.prop, "quick", ctx.seed)
    run(sub)
    for v in sub.violations:
        if v["clause"] == data["clause"] and v["cause"] == data["cause"]:
            ctx.violations.append(v)
            return False
    return True
