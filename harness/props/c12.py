"""C12 — each send puts one intact frame on the wire under partial writes and threads.

(a) short writes: `m-session` send ops under every accept pattern for small frames (exhaustive compositions)
and sampled ones for large frames; oracle: the written bytes decode (Spec) to exactly the one frame, the
return value is its length.
(b) senders: 2..4 REAL threads calling ws.send on one WebSocket under the baton scheduler (one thread runs at
a time; yield points = lock acquire/release and transport sends); the Lean interleaving model
(`m-threads-send`, the one C12_senders is proved about) replays the SAME schedule and short-write pattern and
must give the identical wire and completion order (C); oracle (O): the wire decodes into exactly the multiset
of frames sent, each whole.
(c) receivers: 2..3 real threads calling ws.recv() concurrently under random/systematic schedules; oracle:
every message is delivered intact to exactly one thread, per-thread order = stream order.
"""
import itertools

import common
import rx
import session
import simnet
from baton import Baton, SimLock, BatonSocket, library_locks
from rx import F


def compositions(n):
    """all ways to write n as an ordered sum of positive parts (as accept patterns)."""
    if n == 0:
        yield []
        return
    for first in range(1, n + 1):
        for rest in compositions(n - first):
            yield [first] + rest


def run_short_writes(ctx):
    rnd = ctx.rng("sw")
    sessions, meta = [], []
    for plen in (0, 1, 2, 3, 4):
        total = 6 + plen
        for comp in compositions(total):
            if len(comp) > 1 and not ctx.thorough() and total > 8 and rnd.random() < 0.5:
                continue
            cfg = {"keys": [b"\x0a\x0b\x0c\x0d"], "acc": comp + [1000]}
            sessions.append((cfg, [], [f"send:2:{bytes(range(1, plen + 1)).hex() or '-'}"]))
            meta.append((plen, comp))
            if len(comp) > 1 and (plen <= 1 or rnd.random() < 0.25):
                # the same send on an object equipped with a dispatcher (as WebSocketApp's connections are)
                cfg = dict(cfg, dispatcher=rnd.choice(["plain", "ssl"]))
                sessions.append((cfg, [], [f"send:2:{bytes(range(1, plen + 1)).hex() or '-'}"]))
                meta.append((plen, comp))
    for plen in (125, 126, 1000, 65535, 65536, 100000):
        for _ in range(12 if ctx.thorough() else 4):
            comp = [rnd.choice([1, 2, 7, 100, 1460, 4096, 65536]) for _ in range(rnd.randint(1, 6))]
            if plen >= 65535:
                comp = [max(c, 1000) for c in comp]
            cfg = {"keys": [b"\xfa\xfb\xfc\xfd"], "acc": comp}
            sessions.append((cfg, [], [f"send:2:gen:{plen}:{plen % 97}"]))
            meta.append((plen, comp))
            sessions.append((dict(cfg, dispatcher=rnd.choice(["plain", "ssl"])), [], [f"send:2:gen:{plen}:{plen % 97}"]))
            meta.append((plen, comp))
    res = rx.run_sessions(ctx, "session:short-writes", sessions)
    specs = rx.spec_decode_all([bytes(r[3].sent) for r in res])
    for (plen, comp), (impl, model, ws, sock, line), (dec, rest) in zip(meta, res, specs):
        ctx.case(key=line, nontrivial=len(comp) > 1, cls=f"short-writes:len={'<=4' if plen <= 4 else plen}:pieces={min(len(sock.writes()), 6)}",
                 sample={"op": line[:120], "pieces": [len(w[1]) for w in sock.writes()][:10]} if len(ctx.samples) < 3 and 1 < len(comp) < 6 else None)
        first = rx.results(impl)[0]
        inp = {"op": line[:200], "accepts": comp[:20]}
        if len(dec) != 1 or rest != 0 or not dec[0].startswith("1:000:2:1:"):
            ctx.violate("one-intact-frame-under-short-writes", "wire-not-one-frame", inp, "exactly one frame", f"{dec[:2]} rest={rest}", size=plen + len(comp))
        elif first != f"N:{len(sock.sent)}":
            ctx.violate("one-intact-frame-under-short-writes", "wrong-return", inp, f"N:{len(sock.sent)}", first, size=plen + len(comp))


def run_eagain(ctx):
    """the transport's send buffer is full at some write attempts (EAGAIN): `_socket.send` waits for writability and
    retries; the send call must still put exactly one frame on the wire and return its length.  Oracle only: the
    model's transport accepts at least one byte per call (a would-block is not a short write)."""
    import websocket
    rnd = ctx.rng("eagain")
    key = b"\x21\x43\x65\x87"
    for plen in (0, 1, 5, 126, 300):
        payload = bytes((7 * i + 3) % 256 for i in range(plen))
        want = client_frame(payload, key)
        for acc in (None, [3], [1, 50], [7, 2, 100]):
            for eagain in ([0], [1], [0, 2], [2, 4], [1, 3, 5]):
                sock = simnet.SimSocket([], accepts=acc, eagain=eagain)
                sock.timeout = 5.0
                ws = websocket.WebSocket()
                ws.sock, ws.connected = sock, True
                ws.set_mask_key(lambda n: key)
                try:
                    with simnet.writable_selector():
                        ret = ws.send_binary(payload)
                    res = ("ret", ret)
                except Exception as e:  # noqa
                    res = ("exn", common.canon_exc(e))
                ctx.case(key=("eagain", plen, str(acc), str(eagain)), nontrivial=True, cls=f"eagain:len={plen}:pattern={len(eagain)}")
                inp = {"op": "send_binary under EAGAIN", "payload_len": plen, "accepts": acc, "eagain_at_send_calls": eagain}
                wire = bytes(sock.sent)
                if res[0] == "ret":
                    if wire != want:
                        ctx.violate("one-intact-frame-under-short-writes", "would-block-retry-damages-or-repeats-the-frame", inp, want.hex()[:120],
                                    wire.hex()[:240], size=plen + len(eagain))
                    elif ret != len(want):
                        ctx.violate("one-intact-frame-under-short-writes", "wrong-return", inp, str(len(want)), str(ret), size=plen)
                elif res[1].startswith("INTERNAL"):
                    ctx.violate("one-intact-frame-under-short-writes", "would-block-retry-raises-" + res[1], inp, "the frame is written", res[1], size=plen)
                elif not want.startswith(wire):
                    ctx.violate("one-intact-frame-under-short-writes", "would-block-retry-damages-or-repeats-the-frame", inp,
                                "a prefix of the frame when the call raises", wire.hex()[:240], size=plen + len(eagain))


def client_frame(payload, key, op=2):
    return simnet.srv_frame(op, payload, 1, 0, key)


def factory_ws(accepts):
    """a connection built by the documented factory `create_connection(url, socket=...)` with DEFAULT options."""
    import base64
    import hashlib
    import os
    import websocket
    key_raw = bytes(range(16))
    key = base64.b64encode(key_raw).decode()
    accept = base64.b64encode(hashlib.sha1((key + "258EAFA5-E914-47DA-95CA-C5AB0DC85B11").encode()).digest()).decode()
    head = (f"HTTP/1.1 101 Switching Protocols\r\nUpgrade: websocket\r\nConnection: Upgrade\r\n"
            f"Sec-WebSocket-Accept: {accept}\r\n\r\n").encode()
    sock = simnet.SimSocket([("chunk", head)])
    old = os.urandom
    os.urandom = lambda k: key_raw[:k]
    try:
        ws = websocket.create_connection("ws://example.test/", socket=sock)
    finally:
        os.urandom = old
    del sock.sent[:]
    sock.log.clear()
    sock.send_calls = 0
    sock.accepts, sock.acc_i = (list(accepts) if accepts else None), 0
    return ws, sock


_APP_KW = {}


def app_socket_kwargs(ping_interval):
    """the keyword arguments with which WebSocketApp.run_forever(ping_interval=…) builds its WebSocket (recorded from a real
    run whose connect is refused at once)."""
    if ping_interval in _APP_KW:
        return _APP_KW[ping_interval]
    import websocket
    import websocket._app as A
    rec = {}

    class Rec(websocket.WebSocket):
        def __init__(self, *a, **k):
            rec.update(k)
            websocket.WebSocket.__init__(self, *a, **k)

        def connect(self, *a, **k):
            raise ConnectionRefusedError(111, "refused (recording run)")
    old = A.WebSocket
    A.WebSocket = Rec
    try:
        app = A.WebSocketApp("ws://x.test/")
        app.run_forever(ping_interval=ping_interval, ping_timeout=(ping_interval / 2 if ping_interval else None))
    finally:
        A.WebSocket = old
    _APP_KW[ping_interval] = {k: v for k, v in rec.items() if k in ("enable_multithread", "fire_cont_frame", "skip_utf8_validation")}
    return _APP_KW[ping_interval]


def sender_run(payloads, keys, schedule, accepts, factory=False):
    import websocket
    b = Baton()
    # the object's own locks stay — made by the library where and when it makes them; only their implementation is scheduled
    with library_locks(b):
        if factory == "app" or factory == "app-ka":
            # the object as WebSocketApp builds it (without / with keepalive): app.send() from any thread, the loop's replies
            # and the ping thread write through it
            ws = websocket.WebSocket(**app_socket_kwargs(0 if factory == "app" else 2))
            sock = simnet.SimSocket([], accepts=accepts)
        elif factory:
            ws, sock = factory_ws(accepts)
        else:
            ws = websocket.WebSocket()
            sock = simnet.SimSocket([], accepts=accepts)
        ws.sock = BatonSocket(sock, b)
        ws.connected = True
        klist = list(keys)
        ws.set_mask_key(lambda n: klist.pop(0))
        for i, p in enumerate(payloads):
            b.spawn(i, (lambda p=p: ws.send_binary(p)))
        eff = b.run(schedule)
    return bytes(sock.sent), eff, [b.ts[i].exc for i in range(len(payloads))], [b.ts[i].result for i in range(len(payloads))]


def program_run(programs, keys, schedule, accepts):
    """thread i sends its frames one after the other (send_binary / ping / pong by turns); returns wire, effective schedule."""
    import threading
    import websocket
    b = Baton()
    with library_locks(b):
        ws = websocket.WebSocket()
        sock = simnet.SimSocket([], accepts=accepts)
        ws.sock = BatonSocket(sock, b)
        ws.connected = True
        kq = {i: list(ks) for i, ks in enumerate(keys)}

        def key(n):
            t = b.by_ident.get(threading.get_ident())
            return kq[t.tid].pop(0)
        ws.set_mask_key(key)

        def worker(ps):
            for op, p in ps:
                if op == 2:
                    ws.send_binary(p)
                elif op == 9:
                    ws.ping(p)
                else:
                    ws.pong(p)
        for i, ps in enumerate(programs):
            b.spawn(i, (lambda ps=ps: worker(ps)))
        eff = b.run(schedule)
    return bytes(sock.sent), eff, [b.ts[i].exc for i in range(len(programs))]


def run_programs(ctx):
    """threads that each send SEVERAL frames (C12_programs): whole frames, each thread's own order kept."""
    rnd = ctx.rng("programs")
    cases = []
    for sched in itertools.product((0, 1), repeat=(12 if ctx.thorough() else 10)):
        cases.append(([[(2, b"A"), (9, b"")], [(2, b"bc")]], [2], list(sched)))
    n = 1200 if ctx.thorough() else 250
    for it in range(n):
        k = rnd.randint(2, 4)
        programs = [[(rnd.choice([2, 2, 9, 10]), rx.payload(rnd, rnd.choice([0, 1, 5, 20, 125]), "bin")) for _ in range(rnd.randint(0, 3))]
                    for _ in range(k)]
        acc = nz([rnd.choice([0, 1, 2, 3, 7, 50, 1000]) for _ in range(rnd.randint(1, 4))])   # (0 = a write that accepts NOTHING: the loop tries again, still under the lock)
        if it % 2:
            sched = [rnd.randrange(k) for _ in range(rnd.randint(0, 120))]
        else:
            sched = []
            while len(sched) < 120:
                sched += [rnd.randrange(k)] * rnd.randint(1, 9)
        cases.append((programs, acc, sched))
    lines, metas = [], []
    for programs, acc, sched in cases:
        keys = [[bytes([0x10 + i, 0x20 + j, 0x30 + i, 0x40 + j]) for j in range(len(ps))] for i, ps in enumerate(programs)]
        wire, eff, excs = program_run(programs, keys, sched, acc)
        frames = [[simnet.srv_frame(op, p, 1, 0, kk) for (op, p), kk in zip(ps, ks)] for ps, ks in zip(programs, keys)]
        lines.append("m-threads-prog " + ".".join(",".join(f.hex() for f in fs) or "-" for fs in frames) + " " +
                     (".".join(map(str, eff)) or "-") + " " + ".".join(map(str, acc)))
        metas.append((programs, acc, eff, wire, frames, excs))
    mo = common.run_driver_parallel(lines)
    for l, m, (programs, acc, eff, wire, frames, excs) in zip(lines, mo, metas):
        mw, morder, mpcs = m.split("|")
        ctx.traces_vs_impl += 1
        # (the Lean thread models clip every write to 1..len bytes — `clip` —: runs whose pattern has a write that accepts
        #  NOTHING are judged by the oracle below only)
        if 0 not in acc and (mw != common.summarize(wire) or set(mpcs) - {"d"}):
            ctx.diverge("threads:programs", {"op": l[:300]}, m[:200], common.summarize(wire)[:200])
        switches = sum(1 for a, b_ in zip(eff, eff[1:]) if a != b_)
        ctx.case(key=l, nontrivial=switches > 1 and sum(len(p) for p in programs) > 1,
                 cls=f"programs:threads={len(programs)}:frames={min(sum(len(p) for p in programs), 6)}:switches={'0-1' if switches <= 1 else '2-5' if switches <= 5 else '6+'}")
        inp = {"op": "threads-programs", "programs": [[(op, p.hex()[:20]) for op, p in ps] for ps in programs], "accepts": acc, "schedule": eff[:120]}
        # oracle: the wire is a merge of the threads' frame sequences (whole frames, each thread's order kept)
        rest, idx = wire, [0] * len(frames)
        progress = True
        while rest and progress:
            progress = False
            for i, fs in enumerate(frames):
                if idx[i] < len(fs) and rest.startswith(fs[idx[i]]):
                    rest = rest[len(fs[idx[i]]):]
                    idx[i] += 1
                    progress = True
                    break
        if rest or any(idx[i] != len(fs) for i, fs in enumerate(frames)):
            ctx.violate("whole-frames-in-some-serial-order", "interleaved-pieces-or-thread-order-lost", inp,
                        "a merge of the threads' whole frames, each thread's own order kept", wire.hex()[:200],
                        size=len(eff) + sum(len(f) for fs in frames for f in fs))
        if any(excs):
            ctx.violate("whole-frames-in-some-serial-order", "send-raised", inp, "no exception", str(excs), size=len(eff))


def run_senders(ctx):
    rnd = ctx.rng("senders")
    cases = []
    # 2 threads, tiny frames, every schedule of length 9 (11 thorough)
    L = 11 if ctx.thorough() else 9
    for sched in itertools.product((0, 1), repeat=L):
        cases.append(([b"\x01", b"\x02\x03"], [3], list(sched)))
    # 3 threads systematic-ish: all schedules of length 7 over 3 ids
    for sched in itertools.product((0, 1, 2), repeat=(8 if ctx.thorough() else 6)):
        cases.append(([b"a", b"bc", b""], [4, 2], list(sched)))
    n = 1500 if ctx.thorough() else 250
    for _ in range(n):
        k = rnd.randint(2, 4)
        payloads = [rx.payload(rnd, rnd.choice([0, 1, 5, 20, 126, 300]), "bin") for _ in range(k)]
        acc = nz([rnd.choice([0, 1, 2, 3, 7, 50, 1000]) for _ in range(rnd.randint(1, 4))])   # (0 = a write that accepts NOTHING: the loop tries again, still under the lock)
        sched = [rnd.randrange(k) for _ in range(rnd.randint(0, 60))]
        cases.append((payloads, acc, sched))
    lines, obs, metas = [], [], []
    for ci, (payloads, acc, sched) in enumerate(cases):
        keys = [bytes([0x10 + i, 0x20 + i, 0x30 + i, 0x40 + i]) for i in range(len(payloads))]
        wire, eff, excs, rets = sender_run(payloads, keys, sched, acc, factory=(False, "app", "app-ka", True)[ci % 4])
        frames = [client_frame(p, k) for p, k in zip(payloads, keys)]
        lines.append("m-threads-send " + ".".join(f.hex() for f in frames) + " " + (".".join(map(str, eff)) or "-") + " " + ".".join(map(str, acc)))
        obs.append(common.summarize(wire))
        metas.append((payloads, acc, sched, eff, wire, frames, excs, rets))
    mo = common.run_driver_parallel(lines)
    for l, m, o, (payloads, acc, sched, eff, wire, frames, excs, rets) in zip(lines, mo, obs, metas):
        mw, morder, mpcs = m.split("|")
        ctx.traces_vs_impl += 1
        if 0 not in acc and (mw != o or set(mpcs) != {"d"}):
            ctx.diverge("threads:senders", {"op": l[:300]}, m[:200], o[:200])
        switches = sum(1 for a, b_ in zip(eff, eff[1:]) if a != b_)
        ctx.case(key=l, nontrivial=switches > 1, cls=f"senders:threads={len(payloads)}:switches={'0-1' if switches <= 1 else '2-5' if switches <= 5 else '6+'}",
                 sample={"payload_lens": [len(p) for p in payloads], "accepts": acc, "schedule": eff[:30], "wire": wire.hex()[:80]}
                 if len(ctx.samples) < 7 and switches > 4 and len(payloads) == 3 else None)
        inp = {"op": "threads-send", "payloads": [p.hex()[:40] for p in payloads], "accepts": acc, "schedule": eff[:80]}
        # oracle: wire is a permutation of whole frames
        rest, seen = wire, []
        progress = True
        while rest and progress:
            progress = False
            for i, f in enumerate(frames):
                if i not in seen and rest.startswith(f):
                    seen.append(i)
                    rest = rest[len(f):]
                    progress = True
                    break
        if rest or len(seen) != len(frames):
            ctx.violate("whole-frames-in-some-serial-order", "interleaved-pieces", inp, "a concatenation of the whole frames in some order",
                        wire.hex()[:200], size=len(eff) + sum(len(p) for p in payloads))
        if any(excs):
            ctx.violate("whole-frames-in-some-serial-order", "send-raised", inp, "no exception", str(excs), size=len(eff))
        for r, f in zip(rets, frames):
            if r != len(f):
                ctx.violate("whole-frames-in-some-serial-order", "wrong-return", inp, str(len(f)), str(r), size=len(eff))
                break


def receiver_run(stream_chunks, nmsgs, nthreads, schedule, share):
    import websocket
    b = Baton()
    with library_locks(b):        # the library's own locks, scheduled (none assigned by the harness)
        ws = websocket.WebSocket()
        sock = simnet.SimSocket(stream_chunks)
        ws.sock = BatonSocket(sock, b)
        ws.connected = True
        ws.set_mask_key(lambda n: b"\x00" * n)
        got = {i: [] for i in range(nthreads)}

        def worker(i, k):
            for j in range(k):
                try:
                    # the three spellings of "receive one message": recv(), next(ws), iteration
                    got[i].append(ws.recv() if (i + j) % 3 == 0 else (ws.next() if (i + j) % 3 == 1 else next(iter(ws))))
                except Exception as e:  # noqa
                    got[i].append("X:" + common.canon_exc(e))
        for i in range(nthreads):
            b.spawn(i, (lambda i=i: worker(i, share[i])))
        eff = b.run(schedule)
    return got, eff, bytes(sock.sent), list(ws.readlock.log)


def polling_receiver_run(stream_events, nthreads, schedule, share, budget):
    """receivers that POLL: the socket has a timeout, a recv() that times out is simply called again (up to `budget`
    time-outs per thread) until the thread has its share of messages."""
    import websocket
    b = Baton()
    with library_locks(b):
        ws = websocket.WebSocket()
        sock = simnet.SimSocket(stream_events, tail="timeout")
        sock.timeout = 0.5
        ws.sock = BatonSocket(sock, b)
        ws.connected = True
        ws.set_mask_key(lambda n: b"\x00" * n)
        got = {i: [] for i in range(nthreads)}
        timeouts = {i: 0 for i in range(nthreads)}

        def worker(i, k):
            while len(got[i]) < k and timeouts[i] < budget:
                try:
                    got[i].append(ws.recv())
                except Exception as e:  # noqa
                    x = common.canon_exc(e)
                    if x == "TIMEOUT":
                        timeouts[i] += 1
                    else:
                        got[i].append("X:" + x)
        for i in range(nthreads):
            b.spawn(i, (lambda i=i: worker(i, share[i])))
        eff = b.run(schedule)
    return got, eff, timeouts


def run_polling_receivers(ctx):
    """(c') receivers that poll with a socket timeout: silences between (and inside) the frames of fragmented messages;
    a time-out is not a loss — every message still reaches exactly one receiver, intact.  Oracle only."""
    rnd = ctx.rng("polling-receivers")
    n = 900 if ctx.thorough() else 150
    for it in range(n):
        nthreads = rnd.randint(1, 3)
        nmsgs = rnd.randint(nthreads, 4)
        msgs, frames = [], []
        for m in range(nmsgs):
            data = bytes([0x41 + m]) * rnd.choice([1, 2, 5, 130])
            mop = rnd.choice([1, 2])
            msgs.append(data.decode("ascii") if mop == 1 else data)
            frames += rx.message(rnd, mop, data, rnd.randint(1, 3), ctrl_between=rnd.choice([0, 1]))
        evs, nsil = [], 0
        for f in frames:
            enc = f.enc()
            if rnd.random() < 0.5:
                evs.append(("timeout",))
                nsil += 1
            if len(enc) > 2 and rnd.random() < 0.25:
                k = rnd.randint(1, len(enc) - 1)
                evs += [("chunk", enc[:k]), ("timeout",), ("chunk", enc[k:])]
                nsil += 1
            else:
                evs.append(("chunk", enc))
        share = [1] * nthreads
        for _ in range(nmsgs - nthreads):
            share[rnd.randrange(nthreads)] += 1
        sched = [rnd.randrange(nthreads) for _ in range(rnd.randint(0, 150))]
        got, eff, touts = polling_receiver_run(evs, nthreads, sched, share, budget=nsil + 2)
        ctx.case(key=("rxpoll", it, tuple(eff[:40])), nontrivial=nsil > 0, cls=f"polling-receivers:threads={nthreads}:silences={min(nsil, 4)}")
        delivered = [x for v in got.values() for x in v]
        inp = {"op": "threads-recv with a socket timeout (a timed-out recv() is called again)", "frames": [f.desc() for f in frames],
               "events": [e[0] if e[0] != "chunk" else len(e[1]) for e in evs], "threads": nthreads, "share": share, "schedule": eff[:120]}
        if sorted(map(repr, delivered)) != sorted(map(repr, msgs)):
            ctx.violate("each-message-intact-to-exactly-one-receiver", "message-lost-or-refused-after-a-receive-timeout", inp,
                        [(type(m).__name__, len(m)) for m in msgs],
                        [(type(x).__name__, x[:24] if isinstance(x, str) else x.hex()[:20]) for x in delivered], size=len(eff) + len(frames) + nsil)


def run_wrapped_dispatcher(ctx):
    """sends on an object equipped with `WrappedDispatcher` (an external, rel-style event loop that QUEUES writes and drains
    the queue when the socket is writable), the transport accepting bytes in pieces: several sends before and between the
    drains — once everything is drained the wire is the frames, whole, in the order they were sent.  Oracle only."""
    import websocket
    from websocket import _dispatcher
    rnd = ctx.rng("wrapped-dispatcher")

    class QueueLoop:
        """the write side of a rel-like loop: buffwrite() queues; drain() writes what is queued, as far as the socket takes it"""

        def __init__(self):
            self.q = bytearray()
            self.sock = None
            self.send = None

        def signal(self, *a):
            pass

        def abort(self):
            pass

        def buffwrite(self, sock, data, send, on_error):
            self.sock, self.send = sock, send
            self.q += data

        def drain(self, max_calls):
            n = 0
            while self.q and n < max_calls:
                k = self.send(self.sock, bytes(self.q))
                n += 1
                if k:
                    del self.q[:k]

    key = b"\x21\x43\x65\x87"
    for it in range(300 if ctx.thorough() else 60):
        acc = rnd.choice([None, [7], [46, 3], [1, 1, 1], [200, 10], [3, 1000]])
        payloads = [bytes([0x61 + j]) * rnd.choice([0, 1, 5, 40, 126, 300]) for j in range(rnd.randint(2, 4))]
        sock = simnet.SimSocket([], accepts=acc)
        sock.timeout = 5.0
        ws = websocket.WebSocket()
        ws.sock, ws.connected = sock, True
        ws.set_mask_key(lambda n: key)
        loop = QueueLoop()
        ws.dispatcher = _dispatcher.WrappedDispatcher(None, None, loop, lambda *a: None)
        rets = []
        try:
            for j, p in enumerate(payloads):
                rets.append(ws.send_binary(p))
                if rnd.random() < 0.4:
                    loop.drain(rnd.randint(1, 3))          # the loop gets to run for a moment between two sends
            loop.drain(10000)
            res = "ok"
        except Exception as e:  # noqa
            res = "X:" + common.canon_exc(e)
        want = b"".join(client_frame(p, key) for p in payloads)
        ctx.case(key=("wrapped", it, str(acc), tuple(len(p) for p in payloads)), nontrivial=bool(acc), cls=f"wrapped-dispatcher:pieces={int(bool(acc))}:n={len(payloads)}")
        if res != "ok" or bytes(sock.sent) != want or rets != [len(client_frame(p, key)) for p in payloads]:
            ctx.violate("one-intact-frame-under-short-writes", "frames-reordered-or-torn-through-the-external-dispatcher's-write-queue",
                        {"op": "send_binary x n on an object with WrappedDispatcher (queued writes), drains in between", "payload_lens": [len(p) for p in payloads],
                         "accepts": acc}, want.hex()[:160], f"{res}; wire {bytes(sock.sent).hex()[:240]}; returned {rets}", size=len(payloads) + (len(acc) if acc else 0))


def frame_receiver_run(stream_chunks, nframes, nthreads, schedule, share):
    """workers call recv_frame() directly (no read lock there: only the frame buffer's own lock protects the parse state)."""
    import websocket
    b = Baton()
    with library_locks(b):        # the library's own locks, scheduled (none assigned by the harness)
        ws = websocket.WebSocket()
        sock = simnet.SimSocket(stream_chunks)
        ws.sock = BatonSocket(sock, b)
        ws.connected = True
        got = {i: [] for i in range(nthreads)}

        def worker(i, k):
            for _ in range(k):
                try:
                    f = ws.recv_frame()
                    got[i].append((f.opcode, f.fin, bytes(f.data)))
                except Exception as e:  # noqa
                    got[i].append("X:" + common.canon_exc(e))
        for i in range(nthreads):
            b.spawn(i, (lambda i=i: worker(i, share[i])))
        eff = b.run(schedule)
    return got, eff


def run_frame_receivers(ctx):
    rnd = ctx.rng("frame-receivers")
    n = 900 if ctx.thorough() else 160
    for it in range(n):
        nthreads = rnd.randint(2, 3)
        nfr = rnd.randint(nthreads, 5)
        frames = [F(rnd.choice([1, 2]), bytes([0x61 + m]) * rnd.choice([0, 1, 5, 130]), mask=rnd.choice([None, b"\x01\x02\x03\x04"]))
                  for m in range(nfr)]
        stream = b"".join(f.enc() for f in frames)
        chunks = [("chunk", c) for c in rx.partitions(stream, rnd, 1)[-1]]
        share = [1] * nthreads
        for _ in range(nfr - nthreads):
            share[rnd.randrange(nthreads)] += 1
        if it % 2:
            sched = [rnd.randrange(nthreads) for _ in range(rnd.randint(0, 80))]
        else:
            a, b_ = rnd.sample(range(nthreads), 2)
            sched = [a] * rnd.randint(0, 30) + [b_] * 300
        got, eff = frame_receiver_run(chunks, nfr, nthreads, sched, share)
        switches = sum(1 for x, y in zip(eff, eff[1:]) if x != y)
        ctx.case(key=("rxf", it, tuple(eff[:40])), nontrivial=switches > 1, cls=f"frame-receivers:threads={nthreads}:frames={nfr}")
        want = sorted(repr((f.op, 1, f.data)) for f in frames)
        have = sorted(repr(x) for v in got.values() for x in v)
        if want != have:
            ctx.violate("each-message-intact-to-exactly-one-receiver", "frame-torn-between-recv_frame-callers",
                        {"op": "threads-recv_frame", "frames": [f.desc() for f in frames], "threads": nthreads, "share": share, "schedule": eff[:120]},
                        [f.desc() for f in frames], [x if isinstance(x, str) else (x[0], x[1], len(x[2])) for v in got.values() for x in v],
                        size=len(eff) + nfr)


def run_receivers(ctx):
    rnd = ctx.rng("receivers")
    cosim = []
    n = 2400 if ctx.thorough() else 450
    for it in range(n):
        nthreads = rnd.randint(2, 3)
        nmsgs = rnd.randint(nthreads, 5)
        msgs, frames = [], []
        for m in range(nmsgs):
            data = bytes([0x41 + m]) * rnd.choice([1, 2, 5, 130])
            # text and binary messages side by side: what a receiver gets back (str / bytes) is decided by ITS message
            mop = rnd.choice([1, 2])
            msgs.append(data.decode("ascii") if mop == 1 else data)
            frames += rx.message(rnd, mop, data, rnd.randint(1, 3), ctrl_between=rnd.choice([0, 1]))
        stream = b"".join(f.enc() for f in frames)
        chunks = [("chunk", c) for c in rx.partitions(stream, rnd, 1)[-1]]
        share = [1] * nthreads
        for _ in range(nmsgs - nthreads):
            share[rnd.randrange(nthreads)] += 1
        mode = it % 3
        if mode == 0:
            sched = [rnd.randrange(nthreads) for _ in range(rnd.randint(0, 120))]
        elif mode == 1:
            # bursty: each thread runs for a while before the next one is scheduled
            sched = []
            while len(sched) < 150:
                sched += [rnd.randrange(nthreads)] * rnd.randint(1, 25)
        else:
            # one preemption: thread a runs k steps, then thread b runs to completion, then the rest
            a, b_ = rnd.sample(range(nthreads), 2)
            sched = [a] * rnd.randint(0, 40) + [b_] * 400
        got, eff, wire, acq = receiver_run(chunks, nmsgs, nthreads, sched, share)
        # (C) the Lean interleaving model of the receivers, driven by the OBSERVED order of read-lock acquisitions:
        # task k = the k-th recv() call to get the lock; other tasks' entries inside its run are blocked no-ops
        L = 2 * len(frames) + 2
        msched = []
        for k in range(len(acq)):
            blk = [k] * L
            for _ in range(rnd.randint(0, 4)):
                blk.insert(rnd.randint(1, 2), rnd.choice([j for j in range(len(acq)) if j != k] or [k]))   # another task, while k certainly still holds the lock
            msched += blk
        mline = ("m-threads-recv " + ".".join(f"{f.fin}:{f.op}:{f.data.hex() or '-'}" for f in frames) + " "
                 + (".".join(map(str, msched)) or "-"))
        seen_calls = {i: 0 for i in range(nthreads)}
        expect = []
        for k, t in enumerate(acq):
            j = seen_calls[t]
            seen_calls[t] += 1
            x = got[t][j] if j < len(got[t]) else "X:missing"
            expect.append(f"{k}:2:{common.summarize(x)}" if isinstance(x, (bytes, bytearray)) else
                          f"{k}:{x}" if x.startswith("X:") else f"{k}:1:{common.summarize(x.encode())}")
        cosim.append((mline, ",".join(expect) + f"|0|-|1", {"frames": [f.desc() for f in frames], "acquisitions": acq, "schedule": eff[:120]}))
        switches = sum(1 for a, b_ in zip(eff, eff[1:]) if a != b_)
        ctx.case(key=("rx", it, tuple(eff[:40])), nontrivial=switches > 1,
                 cls=f"receivers:threads={nthreads}:msgs={nmsgs}:fragmented={int(len(frames) > nmsgs)}",
                 sample={"msgs": [len(m) for m in msgs], "frames": [f.desc() for f in frames], "schedule": eff[:30],
                         "delivered": {k: [x if isinstance(x, str) else len(x) for x in v] for k, v in got.items()}}
                 if len(ctx.samples) < 9 and switches > 6 and len(frames) > nmsgs else None)
        delivered = [x for v in got.values() for x in v]
        inp = {"op": "threads-recv", "frames": [f.desc() for f in frames], "threads": nthreads, "share": share, "schedule": eff[:120]}
        if sorted(map(repr, delivered)) != sorted(map(repr, msgs)):
            ctx.violate("each-message-intact-to-exactly-one-receiver", "lost-duplicated-mixed-or-wrong-type", inp,
                        [(type(m).__name__, len(m)) for m in msgs],
                        [(type(x).__name__, x[:20] if isinstance(x, str) else x.hex()[:20]) for x in delivered], size=len(eff) + len(frames))
            continue
        for v in got.values():
            idx = [msgs.index(x) for x in v]
            if idx != sorted(idx):
                ctx.violate("each-message-intact-to-exactly-one-receiver", "per-thread-order", inp, "stream order", str(idx), size=len(eff))
    mo = common.run_driver_parallel([c[0] for c in cosim])
    for (mline, expect, inp), m in zip(cosim, mo):
        ctx.traces_vs_impl += 1
        if m != expect:
            ctx.diverge("threads:receivers", dict(inp, op=mline[:300]), m[:300], expect[:300])


def nz(acc):
    """an accept pattern (cyclic) must make progress: at least one positive entry."""
    return acc if any(acc) else acc + [1]


def mixed_run(stream_chunks, payloads, keys, schedule, accepts, ops=None):
    """thread 0 receives (and so answers the pings in the stream); threads 1.. send."""
    import websocket
    b = Baton()
    with library_locks(b):        # the library's own locks, scheduled (none assigned by the harness)
        ws = websocket.WebSocket()
        sock = simnet.SimSocket(stream_chunks, accepts=accepts)
        ws.sock = BatonSocket(sock, b)
        ws.connected = True
        klist = list(keys)
        ws.set_mask_key(lambda n: klist.pop(0))
        drawn = []
        orig = ws.get_mask_key

        by_thread = {}

        def rec_key(n):
            import threading
            # the key is drawn inside format(), BEFORE the send lock is taken: a yield point of its own (a frame object
            # shared between calls can be rewritten by another thread right here)
            b.yield_point("key")
            k = orig(n)
            drawn.append(k)
            t = b.by_ident.get(threading.get_ident())
            by_thread.setdefault(t.tid if t is not None else -1, []).append(k)
            b.yield_point("key-drawn")
            return k
        ws.get_mask_key = rec_key
        got = []

        def reader():
            try:
                got.append(ws.recv())
            except Exception as e:  # noqa
                got.append("X:" + common.canon_exc(e))
        b.spawn(0, reader)
        for i, p in enumerate(payloads):
            # a sender: a data frame, or the application's own keepalive ping / heartbeat pong (`ops[i]`)
            op = (ops or {}).get(i, 2)
            b.spawn(i + 1, (lambda p=p, op=op: ws.send_binary(p) if op == 2 else ws.ping(p) if op == 9 else ws.pong(p)))
        eff = b.run(schedule, prestart=False)
    # the steps of the SEND side: the yield points of the send lock and the transport writes
    send_steps = [tid for tid, at, lk in b.steps if at == "send" or (at in ("acquire", "release", "released") and lk is ws.lock)]
    mixed_run.last = (send_steps, by_thread)
    return bytes(sock.sent), eff, got, drawn


def run_mixed(ctx):
    """a receiver answering pings while other threads send under short writes: the pong is a send like any other."""
    rnd = ctx.rng("mixed")
    n = 1200 if ctx.thorough() else 260
    cos = []
    for it in range(n):
        ns = rnd.randint(1, 2)
        payloads = [rx.payload(rnd, rnd.choice([1, 5, 20, 126, 300]), "bin") for _ in range(ns)]
        # every third run: the senders are the application's own control frames (ws.ping / ws.pong from another thread,
        # as a keepalive does) — short payloads, different from the server's pings
        sops = {}
        if it % 3 == 2:
            for i in range(ns):
                sops[i] = rnd.choice([9, 10])
                payloads[i] = bytes([0x41 + i]) * rnd.choice([0, 3, 14, 125])
        pings = [bytes([0x70 + j]) * rnd.choice([0, 1, 30, 125]) for j in range(rnd.randint(1, 3))]
        frames = [F(9, p) for p in pings] + [F(2, b"M")]
        stream = b"".join(f.enc() for f in frames)
        chunks = [("chunk", c) for c in rx.partitions(stream, rnd, 1)[-1]]
        acc = nz([rnd.choice([0, 1, 2, 3, 7, 50]) for _ in range(rnd.randint(1, 4))])
        keys = [bytes([0x10 + i, 0x20 + i, 0x30 + i, 0x40 + i]) for i in range(ns + len(pings))]
        if it % 2 == 0:
            sched = [rnd.randrange(ns + 1) for _ in range(rnd.randint(0, 200))]
        else:
            sched = []
            while len(sched) < 200:
                sched += [rnd.randrange(ns + 1)] * rnd.randint(1, 12)
        wire, eff, got, drawn = mixed_run(chunks, payloads, keys, sched, acc, ops=sops)
        # (C) co-simulation with the Lean programs model (C12_programs): the receiving thread is a thread whose program is the
        # pongs, in the order of the pings; only the steps taken at send-side yield points count (its reads are not steps of
        # the send-side model)
        msched, by_thread = mixed_run.last
        progs = [[simnet.srv_frame(10, p, 1, 0, k) for p, k in zip(pings, by_thread.get(0, []))]] + \
                [[simnet.srv_frame(sops.get(i, 2), p, 1, 0, k)] for i, p in enumerate(payloads) for k in by_thread.get(i + 1, [])[:1]]
        if len(progs) == ns + 1 and len(progs[0]) == len(pings) and 0 not in acc:
            cos.append(("m-threads-prog " + ".".join(",".join(f.hex() for f in fs) or "-" for fs in progs) + " " +
                        (".".join(map(str, msched)) or "-") + " " + ".".join(map(str, acc)), common.summarize(wire),
                        {"pings": [p.hex()[:20] for p in pings], "schedule": eff[:120]}))
        switches = sum(1 for a, b_ in zip(eff, eff[1:]) if a != b_)
        ctx.case(key=("mixed", it), nontrivial=switches > 1, cls=f"mixed:senders={ns}:pings={len(pings)}",
                 sample={"pings": [len(p) for p in pings], "payload_lens": [len(p) for p in payloads], "accepts": acc, "schedule": eff[:30]}
                 if len(ctx.samples) < 11 and switches > 6 else None)
        inp = {"op": "threads-mixed", "pings": [p.hex()[:20] for p in pings], "payloads": [p.hex()[:40] for p in payloads],
               "accepts": acc, "schedule": eff[:200]}
        # whole frames: each sender's frame and one pong per ping, every one under one of the drawn keys
        rest, nframes, ok = wire, 0, True
        want = sorted([(sops.get(i, 2), p) for i, p in enumerate(payloads)] + [(10, p) for p in pings])
        seen = []
        while rest:
            if len(rest) < 2:
                ok = False
                break
            b0, b1 = rest[0], rest[1]
            ln = b1 & 0x7F
            off = 2
            if ln == 126:
                ln = int.from_bytes(rest[2:4], "big")
                off = 4
            if not (b1 & 0x80) or len(rest) < off + 4 + ln:
                ok = False
                break
            key = rest[off:off + 4]
            body = bytes(x ^ key[i % 4] for i, x in enumerate(rest[off + 4:off + 4 + ln]))
            seen.append((b0 & 0x0F, body))
            if b0 & 0x70 or not (b0 & 0x80):
                ok = False
                break
            rest = rest[off + 4 + ln:]
        if not ok or sorted(seen) != want:
            ctx.violate("whole-frames-in-some-serial-order", "pong-interleaved-with-a-send", inp,
                        "the senders' frames and one pong per ping, each whole", wire.hex()[:240], size=len(eff) + len(wire))
        elif got != [b"M"]:
            ctx.violate("each-message-intact-to-exactly-one-receiver", "receiver-disturbed-by-senders", inp, "[b'M']", str(got)[:120], size=len(eff))
    mo = common.run_driver_parallel([c[0] for c in cos])
    for (mline, wsum, inp), m in zip(cos, mo):
        ctx.traces_vs_impl += 1
        mw, morder, mpcs = m.split("|")
        if mw != wsum or set(mpcs) - {"d"}:
            ctx.diverge("threads:mixed", dict(inp, op=mline[:300]), m[:300], wsum[:200])


def close_crossing_run(stream_chunks, schedule, accepts):
    """thread 0 receives (and so replies to the server's close frame); thread 1 calls close()."""
    import websocket
    b = Baton()
    with library_locks(b):
        ws = websocket.WebSocket()
        sock = simnet.SimSocket(stream_chunks, accepts=accepts)
        ws.sock = BatonSocket(sock, b)
        ws.connected = True
        ws.set_mask_key(lambda n: b"\x00" * n)
        got = []

        def reader():
            for _ in range(3):
                try:
                    got.append(ws.recv())
                except Exception as e:  # noqa
                    got.append("X:" + common.canon_exc(e))
                    break

        def closer():
            try:
                ws.close(1001, b"going away", timeout=1)
            except Exception as e:  # noqa
                got.append("close-raised:" + common.canon_exc(e))
        b.spawn(0, reader)
        b.spawn(1, closer)
        eff = b.run(schedule, prestart=False)
    return bytes(sock.sent), eff, got


def run_close_crossing(ctx):
    """C08's clause "at most one close frame on the client's own initiative" under THREAD schedules: a reader thread takes the
    server's close frame while another thread is inside close() (crossing close frames), every interleaving at the yield
    points (locks, transport reads and writes).  Oracle only (zero-key frames on the wire are counted)."""
    rnd = ctx.rng("close-crossing")
    n = 400 if ctx.thorough() else 150
    for it in range(n):
        pre = [F(1, b"hi")] if it % 2 else []
        stream = b"".join(f.enc() for f in pre + [F(8, b"\x03\xe8")])
        chunks = [("chunk", c) for c in rx.partitions(stream, rnd, 1)[-1]]
        acc = nz([rnd.choice([1, 2, 3, 50]) for _ in range(rnd.randint(1, 3))])
        if it % 3 == 0:
            sched = [1] * rnd.randint(1, 12) + [0] * rnd.randint(1, 30) + [rnd.randrange(2) for _ in range(40)]
        else:
            sched = [rnd.randrange(2) for _ in range(rnd.randint(0, 80))]
        wire, eff, got = close_crossing_run(chunks, sched, acc)
        rest, closes, ok = wire, [], True
        while rest:
            if len(rest) < 6:
                ok = False
                break
            ln = rest[1] & 0x7F
            if ln > 125 or len(rest) < 6 + ln:
                ok = False
                break
            if rest[0] & 0x0F == 8:
                closes.append(rest[6:6 + ln])
            rest = rest[6 + ln:]
        switches = sum(1 for a, b_ in zip(eff, eff[1:]) if a != b_)
        ctx.case(key=("close-crossing", it), nontrivial=switches > 1, cls=f"close-crossing:closes={len(closes)}")
        inp = {"op": "threads-close-crossing", "stream": stream.hex(), "accepts": acc, "schedule": eff[:120]}
        # (a frame cut short at the END of the wire is not judged: the reader may release the transport — end of stream — while
        #  the other thread is still writing; whole frames before it are counted)
        if len(closes) > 1:
            ctx.violate("at-most-one-own-close-frame", "second-close-frame@reader-vs-close()", inp, "at most one close frame written by the client",
                        [c.hex() for c in closes], size=len(eff))


def run(ctx):
    ctx.rule = ("(a) every composition of the frame length as an accept pattern for frames of 6..10 bytes, sampled patterns for 125..100000 "
                "bytes; (b) 2 threads x every schedule of length 9 (11), 3 threads x every schedule of length 6 (8), random 2-4 threads with "
                "random payloads/patterns/schedules, co-simulated with the Lean interleaving model; (c) 2-3 receiver threads, fragmented "
                "messages with control frames, random schedules, the Lean receivers model driven by the observed lock-acquisition order; (c') 1-3 receivers polling with a socket timeout, silences between and inside the frames of fragmented messages (oracle only); (d) one receiver answering 1-3 pings while 1-2 threads send under short writes, co-simulated with the Lean programs model (the receiver = a thread whose program is the pongs); (a'') the write loop over the transport glue: every list of up to 3 `_socket.send` worlds (short writes incl. 0 and over-long, would-block with the wait expiring or not, timeouts, SSL EOF, OS errors) x blocking/non-blocking, against Model.SendGlue.sendLoop; (a''') sends through `WrappedDispatcher` with a queueing external loop and a transport that takes bytes in pieces; (a') the short-write sends again on an object equipped with a dispatcher; (b') 2-4 threads each sending 0-3 frames (send_binary / ping / pong), 2 threads x every schedule of length 10 (12), co-simulated with the Lean programs model at yield-point granularity; the library's own locks are scheduled (none assigned by the harness). (e) a reader thread and a thread inside close() with crossing close frames: at most one close frame written by the client (oracle only). non-trivial = more than one piece / more than one context switch")
    run_short_writes(ctx)
    run_eagain(ctx)
    from props import c12_glue
    c12_glue.run_sendloop(ctx)
    run_wrapped_dispatcher(ctx)
    run_senders(ctx)
    run_programs(ctx)
    run_receivers(ctx)
    run_polling_receivers(ctx)
    run_frame_receivers(ctx)
    run_mixed(ctx)
    run_close_crossing(ctx)


def search(ctx):
    run(ctx)


def replay(ctx, data):
    sub = common.Ctx(ctx.prop, "quick", ctx.seed)
    run(sub)
    for v in sub.violations:
        if v["clause"] == data["clause"] and v["cause"] == data["cause"]:
            ctx.violations.append(v)
            return False
    return True
