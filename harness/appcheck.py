"""Shared evaluation loop of C13-C16: run scenarios on the real code (process pool, every run under the
simsched guards), on the Lean model (`m-app`) and through the Lean Spec (`s-app` on the REAL trace)."""
import json
import multiprocessing
import os
import sys
import time

import common
import appsim

_CTX = multiprocessing.get_context("fork")


def _one(sc):
    t0 = time.time()
    try:
        r = appsim.run_real(sc, wall_s=sc.get("wall_s", 15.0))
        return {"trace": r.trace, "alive": r.alive, "leaked": r.leaked, "outcome": list(r.outcome),
                "abort": r.abort, "stalls": len(r.select_stalls), "badframes": len(r.badframes),
                "live_max": r.live_max, "lines": r.lines, "fired_at": r.fired_at, "wall": time.time() - t0}
    except BaseException as e:  # noqa  (a crash of the harness itself is reported as a case, not hidden)
        return {"trace": "", "alive": [], "leaked": [], "outcome": ["harness-error", repr(e)], "abort": "harness",
                "stalls": 0, "badframes": 0, "live_max": 0, "lines": 0, "fired_at": None, "wall": time.time() - t0}


def _init_worker():
    # the forked worker inherits the parent's heap (all scenarios): keep it out of every later gc.collect()
    import gc
    gc.collect()
    gc.freeze()


def run_real_many(scs, jobs=None):
    jobs = jobs or min(16, os.cpu_count() or 4)
    if len(scs) < 40 or jobs <= 1:
        return [_one(sc) for sc in scs]
    with _CTX.Pool(jobs, initializer=_init_worker) as pool:
        return pool.map(_one, scs, chunksize=max(1, min(64, len(scs) // (jobs * 4))))


def spec_line(sc, trace, exact):
    ml = appsim.model_line(sc).split(" ")
    return "s-app " + " ".join(ml[1:4]) + f" {int(bool(exact))} " + (trace or "-")


def size_of(sc):
    n = 0
    for run in sc["runs"]:
        for d in run:
            n += 1 + (len(d[1]) if d[0] == "E" else 0)
    n += sum(len(v) for v in sc.get("plan", {}).values())
    n += len(sc.get("sched") or "") + (2 if sc.get("iv") else 0) + (2 if sc.get("rc") else 0)
    return n


def evaluate(ctx, prop, scs, exact_of=lambda sc: False, cls_of=lambda sc: "scenario", model=True,
             extra_check=None, nontrivial_of=None):
    """run every scenario on both sides; record divergences (C) and Spec violations of `prop` (O).
    Returns the list of per-scenario dicts (real result + model trace + spec verdict)."""
    if not scs:
        return []
    real = run_real_many(scs)
    lines = []
    if model:
        lines += [appsim.model_line(sc) for sc in scs]
    lines += [spec_line(sc, r["trace"], exact_of(sc)) for sc, r in zip(scs, real)]
    out = common.run_driver_parallel(lines)
    mo = out[:len(scs)] if model else [None] * len(scs)
    so = out[len(scs):] if model else out
    res = []
    for sc, r, m, s in zip(scs, real, mo, so):
        key = json.dumps(sc, sort_keys=True)
        nt = nontrivial_of(sc) if nontrivial_of else (size_of(sc) > 2)
        ctx.case(key=key, nontrivial=nt, cls=cls_of(sc),
                 sample={"scenario": sc, "real_trace": r["trace"][:400]} if len(ctx.samples) < 6 and size_of(sc) > 4 else None)
        if r["outcome"][0] in ("harness-error",) or r["abort"] in ("wall-clock", "steps"):
            # a stuck or crashed scenario is a reported case, never a hung check
            ctx.violate("terminates", "stuck-" + str(r["abort"]), sc, "the run finishes or is cut at the horizon",
                        f"outcome={r['outcome']} abort={r['abort']}", size=size_of(sc))
        if model:
            pm = appsim.project_model(m)
            if pm != appsim.project(r["trace"]):
                ctx.diverge("m-app", sc, pm, r["trace"])
            ctx.traces_vs_impl += 1
        if s.startswith("bad-"):
            ctx.diverge("s-app", sc, s, r["trace"])
            verdict = []
        else:
            verdict = [] if s == "ok" else s.split(" ")
        for v in verdict:
            p, clause, cause = v.split(":", 2)
            if p != prop:
                continue
            ctx.violate(clause, cause, sc, "Spec.AppTrace clause holds", f"{v} on real trace {r['trace'][:600]}",
                        size=size_of(sc))
        if extra_check:
            extra_check(ctx, sc, r)
        res.append({"sc": sc, "real": r, "model": m, "spec": verdict})
    return res


def replay_scenario(ctx, prop, data, exact_of=lambda sc: False, extra_check=None):
    """re-run one recorded scenario; True = the recorded (clause, cause) no longer shows."""
    sc = data["input"]
    sub = common.Ctx(ctx.prop, "quick", ctx.seed)
    evaluate(sub, prop, [sc], exact_of=exact_of, model=False, extra_check=extra_check)
    for v in sub.violations:
        if v["clause"] == data["clause"] and v["cause"] == data["cause"]:
            ctx.violations.append(v)
            return False
    return True


def replay_nofail(ctx, data, run_fn):
    """replay of a `no-failing-input-found` record: re-run the property's check; True = it is clean again
    (no model/implementation divergence on the recorded operations, no violation)."""
    sub = common.Ctx(ctx.prop, data.get("tier", "quick"), data.get("seed", ctx.seed))
    run_fn(sub)
    ops = set(data.get("correspondence_not_checking") or [])
    bad = [d for d in sub.divergences if d and (not ops or d["op"] in ops)]
    for d in bad[:3]:
        ctx.violations.append({"clause": "correspondence", "cause": d["op"], "input": d["input"],
                               "expected": d["model"], "observed": d["impl"], "size": 0})
    return not bad


def corpus(prop):
    """recorded failing scenarios (run first)."""
    d = os.path.join(common.VERIF, "corpus", prop)
    out = []
    if os.path.isdir(d):
        for f in sorted(os.listdir(d)):
            if f.endswith(".json"):
                with open(os.path.join(d, f)) as fh:
                    out.append(json.load(fh))
    return out
