"""Shared evaluation loop of C13-C16: run scenarios on the real code (process pool, every run under the
simsched guards), on the Lean model (`m-app`) and through the Lean Spec (`s-app` on the REAL trace)."""
import json
import multiprocessing
import os
import sys
import time

import common
import appsim

_CTX = multiprocessing.get_context("fork")


def qualify(cause, sc):
    """finding signatures name the specific trigger (call site / configuration), so that a known finding hides only
    the history class it was recorded for and a different violation with the same Spec clause is still reported."""
    kind = str(sc.get("kind", ""))
    plan = sc.get("plan") or {}
    if kind == "closer-line":
        # another thread calls close() while the loop thread is at a given executed LINE (possibly inside read(), between its
        # test of keep_running and the end of the receive)
        trig = "second-thread-close-at-line"
    elif kind.startswith("closer"):
        # ... while the loop thread waits in select (scripted tick)
        trig = "second-thread-close"
    elif any("c" in str(v) for k, v in plan.items() if k in ("on_open", "on_reconnect")) or (
            "c" in str(plan.get("on_error", "")) and any("r" in str(v) for k, v in plan.items() if k in ("on_open", "on_reconnect"))):
        # close() while the connection is being set up: from on_open/on_reconnect, or from on_error reporting their failure
        trig = "close-in-open-callback"
    elif any("c" in str(v) for v in plan.values()):
        trig = "close-in-callback"
    else:
        trig = "no-app-close"
    disp = "external-dispatcher" if sc.get("ext") else "builtin-dispatcher"
    return f"{cause}@{trig}@{disp}"


def _one(sc):
    t0 = time.time()
    try:
        r = appsim.run_real(sc, wall_s=sc.get("wall_s", 15.0))
        return {"trace": r.trace, "alive": r.alive, "leaked": r.leaked, "outcome": list(r.outcome),
                "abort": r.abort, "stalls": len(r.select_stalls), "badframes": len(r.badframes),
                "live_max": r.live_max, "lines": r.lines, "fired_at": r.fired_at, "wall": time.time() - t0,
                "requests": r.requests}
    except BaseException as e:  # noqa  (a crash of the harness itself is reported as a case, not hidden)
        return {"trace": "", "alive": [], "leaked": [], "outcome": ["harness-error", repr(e)], "abort": "harness",
                "stalls": 0, "badframes": 0, "live_max": 0, "lines": 0, "fired_at": None, "wall": time.time() - t0}


def _init_worker():
    # the forked worker inherits the parent's heap (all scenarios): keep it out of every later gc.collect()
    import gc
    gc.collect()
    gc.freeze()


def run_real_many(scs, jobs=None):
    jobs = jobs or min(16, os.cpu_count() or 4)
    if len(scs) < 40 or jobs <= 1:
        return [_one(sc) for sc in scs]
    # bounded: once many scenarios got stuck (a spinning or hanging implementation) the remaining ones are skipped —
    # the stuck ones are already reported as violations, and the check must end in minutes, not hours
    out, stuck = [], 0
    with _CTX.Pool(jobs, initializer=_init_worker) as pool:
        step = max(256, jobs * 32)
        for i in range(0, len(scs), step):
            chunk = scs[i:i + step]
            if stuck > 48:
                out += [dict(SKIPPED) for _ in chunk]
                continue
            part = pool.map(_one, chunk, chunksize=max(1, min(64, len(chunk) // (jobs * 2))))
            stuck += sum(1 for r in part if r["abort"] in ("steps", "wall-clock", "harness"))
            out += part
    return out


SKIPPED = {"trace": "", "alive": [], "leaked": [], "outcome": ["skipped"], "abort": "skipped", "stalls": 0, "badframes": 0,
           "live_max": 0, "lines": 0, "fired_at": None, "wall": 0.0}


def spec_line(sc, trace, exact):
    ml = appsim.model_line(sc).split(" ")
    return "s-app " + " ".join(ml[1:4]) + f" {int(bool(exact))} " + (trace or "-")


def size_of(sc):
    n = 0
    for run in sc["runs"]:
        for d in run:
            n += 1 + (len(d[1]) if d[0] == "E" else 0)
    n += sum(len(v) for v in sc.get("plan", {}).values())
    n += len(sc.get("sched") or "") + (2 if sc.get("iv") else 0) + (2 if sc.get("rc") else 0)
    return n


def evaluate(ctx, prop, scs, exact_of=lambda sc: False, cls_of=lambda sc: "scenario", model=True,
             extra_check=None, nontrivial_of=None):
    """run every scenario on both sides; record divergences (C) and Spec violations of `prop` (O).
    Returns the list of per-scenario dicts (real result + model trace + spec verdict)."""
    if not scs:
        return []
    real = run_real_many(scs)
    lines = []
    if model:
        lines += [appsim.model_line(sc) for sc in scs]
    lines += [spec_line(sc, r["trace"], exact_of(sc)) for sc, r in zip(scs, real)]
    out = common.run_driver_parallel(lines)
    mo = out[:len(scs)] if model else [None] * len(scs)
    so = out[len(scs):] if model else out
    res = []
    for sc, r, m, s in zip(scs, real, mo, so):
        if r["abort"] == "skipped":
            continue
        key = json.dumps(sc, sort_keys=True)
        nt = nontrivial_of(sc) if nontrivial_of else (size_of(sc) > 2)
        ctx.case(key=key, nontrivial=nt, cls=cls_of(sc),
                 sample={"scenario": sc, "real_trace": r["trace"][:400]} if len(ctx.samples) < 6 and size_of(sc) > 4 else None)
        if r["outcome"][0] in ("harness-error",) or r["abort"] in ("wall-clock", "steps"):
            # a stuck or crashed scenario is a reported case, never a hung check
            ctx.violate("terminates", "stuck-" + str(r["abort"]), sc, "the run finishes or is cut at the horizon",
                        f"outcome={r['outcome']} abort={r['abort']}", size=size_of(sc))
        if model:
            pm = appsim.project_model(m)
            if pm != appsim.project(r["trace"]):
                ctx.diverge("m-app", sc, pm, r["trace"])
            ctx.traces_vs_impl += 1
        if s.startswith("bad-"):
            ctx.diverge("s-app", sc, s, r["trace"])
            verdict = []
        else:
            verdict = [] if s == "ok" else s.split(" ")
        for v in verdict:
            p, clause, cause = v.split(":", 2)
            if p != prop:
                continue
            cause = qualify(cause, sc)
            ctx.violate(clause, cause, sc, "Spec.AppTrace clause holds", f"{v} on real trace {r['trace'][:600]}",
                        size=size_of(sc))
        if extra_check:
            extra_check(ctx, sc, r)
        res.append({"sc": sc, "real": r, "model": m, "spec": verdict})
    return res


def replay_scenario(ctx, prop, data, exact_of=lambda sc: False, extra_check=None):
    """re-run one recorded scenario; True = the recorded (clause, cause) no longer shows."""
    sc = data["input"]
    sub = common.Ctx(ctx.prop, "quick", ctx.seed)
    evaluate(sub, prop, [sc], exact_of=exact_of, model=False, extra_check=extra_check)
    for v in sub.violations:
        if v["clause"] == data["clause"] and v["cause"] == data["cause"]:
            ctx.violations.append(v)
            return False
    return True


def replay_nofail(ctx, data, run_fn):
    """replay of a `no-failing-input-found` record: re-run the property's check; True = it is clean again
    (no model/implementation divergence on the recorded operations, no violation)."""
    sub = common.Ctx(ctx.prop, data.get("tier", "quick"), data.get("seed", ctx.seed))
    run_fn(sub)
    ops = set(data.get("correspondence_not_checking") or [])
    bad = [d for d in sub.divergences if d and (not ops or d["op"] in ops)]
    for d in bad[:3]:
        ctx.violations.append({"clause": "correspondence", "cause": d["op"], "input": d["input"],
                               "expected": d["model"], "observed": d["impl"], "size": 0})
    return not bad


def corpus(prop):
    """recorded failing scenarios (run first)."""
    d = os.path.join(common.VERIF, "corpus", prop)
    out = []
    if os.path.isdir(d):
        for f in sorted(os.listdir(d)):
            if f.endswith(".json"):
                with open(os.path.join(d, f)) as fh:
                    out.append(json.load(fh))
    return out
