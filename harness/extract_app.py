"""Extraction plug-in of op group App: shape facts and constants of websocket/_app.py, _dispatcher.py
that the App-layer model (lean/WS/Model/App.lean) branches on and the C13-C16 theorems fix by `decide`.

Every fact is a syntactic pattern; a pattern that matches neither the known "defective" nor the
"repaired" shape raises ExtractError (treated by the check like a broken proof obligation).
"""
import ast


def _calls(node, fname):
    """all Call nodes inside `node` whose callee is the bare name `fname`."""
    return [n for n in ast.walk(node) if isinstance(n, ast.Call) and isinstance(n.func, ast.Name)
            and n.func.id == fname]


def _is_self_attr(n, attr):
    return isinstance(n, ast.Attribute) and n.attr == attr and isinstance(n.value, ast.Name) and n.value.id == "self"


def _own_statements(fn):
    """statements of fn's body, descending into compound statements but not into nested defs."""
    out = []
    todo = list(fn.body)
    while todo:
        st = todo.pop(0)
        out.append(st)
        if isinstance(st, (ast.FunctionDef, ast.ClassDef, ast.AsyncFunctionDef)):
            continue
        for fld in ("body", "orelse", "finalbody", "handlers"):
            for ch in getattr(st, fld, []) or []:
                if isinstance(ch, ast.ExceptHandler):
                    todo.extend(ch.body)
                elif isinstance(ch, ast.stmt):
                    todo.append(ch)
    return out


def extend(repo, T, ex):
    app = ex._parse(repo, "_app.py")
    wa = ex._find(app.body, ast.ClassDef, "WebSocketApp")
    rf = ex._find(wa.body, ast.FunctionDef, "run_forever")
    inner = {n.name: n for n in rf.body if isinstance(n, ast.FunctionDef)}
    for need in ("teardown", "setSock", "read", "check", "closed", "handleDisconnect"):
        if need not in inner:
            raise ex.ExtractError(f"run_forever: nested function {need} not found")

    # ---- read(): where does a close frame go?   `if op_code == ABNF.OPCODE_CLOSE: return X(frame)`
    rd = inner["read"]
    route = None
    for n in ast.walk(rd):
        if isinstance(n, ast.If) and isinstance(n.test, ast.Compare) and \
                isinstance(n.test.left, ast.Name) and n.test.left.id == "op_code" and \
                isinstance(n.test.comparators[0], ast.Attribute) and n.test.comparators[0].attr == "OPCODE_CLOSE":
            st = n.body[0]
            if isinstance(st, ast.Return) and isinstance(st.value, ast.Call) and isinstance(st.value.func, ast.Name) \
                    and len(st.value.args) == 1 and isinstance(st.value.args[0], ast.Name) and st.value.args[0].id == "frame":
                route = st.value.func.id
    if route not in ("closed", "teardown"):
        raise ex.ExtractError(f"read(): close-frame routing not recognised ({route})")
    T["appCloseFrameToTeardown"] = route == "teardown"

    # ---- read(): third argument of the on_data callback for a complete message
    third = None
    order = []
    for c in ast.walk(rd):
        if isinstance(c, ast.Call) and isinstance(c.func, ast.Attribute) and c.func.attr == "_callback" and c.args:
            if _is_self_attr(c.args[0], "on_data") and len(c.args) == 4 and \
                    isinstance(c.args[3], ast.Constant) and c.args[3].value is True:
                a = c.args[2]
                if isinstance(a, ast.Name) and a.id == "op_code":
                    third = "op_code"
                elif isinstance(a, ast.Attribute) and a.attr == "opcode" and isinstance(a.value, ast.Name) \
                        and a.value.id == "frame":
                    third = "frame.opcode"
    if third is None:
        raise ex.ExtractError("read(): _callback(self.on_data, data, <opcode>, True) not recognised")
    T["appOnDataMsgOpcode"] = third == "op_code"
    # order of the two message callbacks in the final else branch: on_data before on_message
    for n in ast.walk(rd):
        if isinstance(n, ast.If):
            last = n
            while last.orelse and len(last.orelse) == 1 and isinstance(last.orelse[0], ast.If):
                last = last.orelse[0]
            names = []
            for st in last.orelse:
                if isinstance(st, ast.Expr) and isinstance(st.value, ast.Call) and \
                        isinstance(st.value.func, ast.Attribute) and st.value.func.attr == "_callback":
                    a0 = st.value.args[0]
                    if isinstance(a0, ast.Attribute):
                        names.append(a0.attr)
            if names:
                order = names
    if sorted(order) != ["on_data", "on_message"]:
        raise ex.ExtractError(f"read(): message callbacks not recognised ({order})")
    T["appDataBeforeMessage"] = order == ["on_data", "on_message"]

    # ---- run_forever prologue: which fields are reset
    resets = set()
    for st in _own_statements(rf):
        if isinstance(st, ast.Assign) and len(st.targets) == 1 and isinstance(st.targets[0], ast.Attribute) \
                and _is_self_attr(st.targets[0], st.targets[0].attr) and isinstance(st.value, ast.Constant):
            resets.add((st.targets[0].attr, st.value.value))
    if ("has_done_teardown", False) not in resets or ("keep_running", True) not in resets:
        raise ex.ExtractError("run_forever: prologue resets of has_done_teardown / keep_running not found")
    T["appResetsHasErrored"] = ("has_errored", False) in resets

    # ---- teardown(): once-guard, stop ping thread, on_close is the last statement
    td = inner["teardown"]
    guard = False
    for n in ast.walk(td):
        if isinstance(n, ast.With):
            for st in n.body:
                if isinstance(st, ast.If) and _is_self_attr(st.test, "has_done_teardown") and \
                        any(isinstance(b, ast.Return) for b in st.body):
                    guard = True
    T["appTeardownGuard"] = guard
    stops = [n for n in ast.walk(td) if isinstance(n, ast.Call) and isinstance(n.func, ast.Attribute)
             and n.func.attr == "_stop_ping_thread"]
    T["appTeardownStopsPing"] = bool(stops)
    last = td.body[-1]
    T["appOnCloseLast"] = bool(isinstance(last, ast.Expr) and isinstance(last.value, ast.Call)
                               and isinstance(last.value.func, ast.Attribute) and last.value.func.attr == "_callback"
                               and _is_self_attr(last.value.args[0], "on_close"))

    # ---- handleDisconnect(): sets has_errored, stops the ping thread
    hd = inner["handleDisconnect"]
    T["appDisconnectSetsErrored"] = any(
        isinstance(st, ast.Assign) and _is_self_attr(st.targets[0], "has_errored")
        and isinstance(st.value, ast.Constant) and st.value.value is True for st in ast.walk(hd))
    T["appDisconnectStopsPing"] = any(
        isinstance(n, ast.Call) and isinstance(n.func, ast.Attribute) and n.func.attr == "_stop_ping_thread"
        for n in ast.walk(hd))

    # ---- setSock(): the WebSocket the application drives is built with real locks (`enable_multithread=True`, a literal):
    #      app.send() from any thread, the ping thread and the loop's own replies share one transport
    ss = inner["setSock"]
    mt = None
    for n in ast.walk(ss):
        if isinstance(n, ast.Call) and getattr(n.func, "id", "") == "WebSocket":
            for k in n.keywords:
                if k.arg == "enable_multithread":
                    mt = isinstance(k.value, ast.Constant) and k.value.value is True
    if mt is None:
        raise ex.ExtractError("setSock: WebSocket(... enable_multithread=...) not found")
    T["appSockMultithread"] = mt

    # ---- setSock(): a reconnect that comes due after the application has closed is not made:
    #      `if reconnecting and not self.keep_running: teardown(); return` as the FIRST statement
    def _reconnect_guard(st):
        if not isinstance(st, ast.If) or st.orelse:
            return False
        t = st.test
        if not (isinstance(t, ast.BoolOp) and isinstance(t.op, ast.And) and len(t.values) == 2):
            return False
        a, b = t.values
        ok_a = isinstance(a, ast.Name) and a.id == "reconnecting"
        ok_b = isinstance(b, ast.UnaryOp) and isinstance(b.op, ast.Not) and _is_self_attr(b.operand, "keep_running")
        body_ok = (len(st.body) == 2 and isinstance(st.body[0], ast.Expr) and isinstance(st.body[0].value, ast.Call)
                   and getattr(st.body[0].value.func, "id", "") == "teardown" and not st.body[0].value.args
                   and isinstance(st.body[1], ast.Return) and st.body[1].value is None)
        return ok_a and ok_b and body_ok
    ss_stmts = [st for st in ss.body if not (isinstance(st, ast.Expr) and isinstance(st.value, ast.Constant))]
    T["appReconnectGuard"] = bool(ss_stmts) and _reconnect_guard(ss_stmts[0])

    # ---- WebSocketApp.close(): `self.keep_running = False` is the FIRST statement — before the closing handshake, whose wait
    #      for the server's reply lets the ping thread and other threads run (`Model.App.appClose` clears it first)
    cl = ex._find(wa.body, ast.FunctionDef, "close")
    cl_stmts = [st for st in cl.body if not (isinstance(st, ast.Expr) and isinstance(st.value, ast.Constant))] if cl is not None else []
    first = cl_stmts[0] if cl_stmts else None
    T["appCloseClearsFirst"] = bool(isinstance(first, ast.Assign) and len(first.targets) == 1 and _is_self_attr(first.targets[0], "keep_running")
                                    and isinstance(first.value, ast.Constant) and first.value.value is False)

    # ---- handleDisconnect(): an exception met while the application is closing (keep_running already False) is not an error
    #      of the run: `if not self.keep_running and not isinstance(e, (KeyboardInterrupt, SystemExit)): teardown(); return`
    #      as the FIRST statement (before has_errored is set and before anything is reported)
    def _close_guard(st):
        if not isinstance(st, ast.If) or st.orelse:
            return False
        t = st.test
        if not (isinstance(t, ast.BoolOp) and isinstance(t.op, ast.And) and len(t.values) == 2):
            return False
        a, b = t.values
        ok_a = isinstance(a, ast.UnaryOp) and isinstance(a.op, ast.Not) and _is_self_attr(a.operand, "keep_running")
        ok_b = (isinstance(b, ast.UnaryOp) and isinstance(b.op, ast.Not) and isinstance(b.operand, ast.Call)
                and getattr(b.operand.func, "id", "") == "isinstance" and len(b.operand.args) == 2
                and getattr(b.operand.args[0], "id", "") == "e" and isinstance(b.operand.args[1], ast.Tuple)
                and sorted(getattr(x, "id", "?") for x in b.operand.args[1].elts) == ["KeyboardInterrupt", "SystemExit"])
        body_ok = (len(st.body) == 2 and isinstance(st.body[0], ast.Expr) and isinstance(st.body[0].value, ast.Call)
                   and getattr(st.body[0].value.func, "id", "") == "teardown" and not st.body[0].value.args
                   and isinstance(st.body[1], ast.Return) and st.body[1].value is None)
        return ok_a and ok_b and body_ok
    stmts = [st for st in hd.body if not (isinstance(st, ast.Expr) and isinstance(st.value, ast.Constant))]
    guard = bool(stmts) and _close_guard(stmts[0])
    if not guard and any(_is_self_attr(n, "keep_running") for n in ast.walk(hd)):
        raise ex.ExtractError("handleDisconnect: keep_running is consulted in a shape the model does not know")
    T["appCloseGuard"] = guard

    # ---- run_forever: `finally: if not custom_dispatcher: teardown()`
    fin = False
    for st in rf.body:
        if isinstance(st, ast.Try) and st.finalbody:
            fin = bool(_calls(ast.Module(body=st.finalbody, type_ignores=[]), "teardown"))
    T["appFinallyTeardown"] = fin

    # ---- _stop_ping_thread: join(N)
    sp = ex._find(wa.body, ast.FunctionDef, "_stop_ping_thread")
    jn = None
    for n in ast.walk(sp):
        if isinstance(n, ast.Call) and isinstance(n.func, ast.Attribute) and n.func.attr == "join" and n.args:
            jn = ex.ConstEval().ev(n.args[0])
    if jn is None:
        raise ex.ExtractError("_stop_ping_thread: join(N) not found")
    T["appPingJoinTimeout"] = jn

    # ---- validation of (ping_interval, ping_timeout): the three comparison operators
    ops = []
    for st in rf.body:
        if isinstance(st, ast.If) and any(isinstance(b, ast.Raise) for b in st.body):
            for n in ast.walk(st.test):
                if isinstance(n, ast.Compare) and isinstance(n.left, ast.Name) and \
                        n.left.id in ("ping_timeout", "ping_interval") and not isinstance(n.ops[0], (ast.Is, ast.IsNot)):
                    rhs = n.comparators[0]
                    rv = rhs.id if isinstance(rhs, ast.Name) else ex.ConstEval().ev(rhs)
                    ops.append(f"{n.left.id} {type(n.ops[0]).__name__} {rv}")
    T["appArgChecks"] = ops

    # ---- check(): the comparison operators, in source order
    ck = inner["check"]
    cops = []
    for n in ast.walk(ck):
        if isinstance(n, ast.Compare):
            cops.append(type(n.ops[0]).__name__)
    T["appCheckOps"] = cops
    # ---- check() reads `self.last_ping_tm` (written concurrently by the ping thread) exactly once: its three tests and the
    #      guard then judge ONE ping, which is what lets the model treat check() as atomic (F19)
    T["appCheckReadsPingOnce"] = sum(1 for n in ast.walk(ck) if _is_self_attr(n, "last_ping_tm")) == 1

    # ---- _send_ping: last_ping_tm is written before the ping is sent, only when a socket exists
    spg = ex._find(wa.body, ast.FunctionDef, "_send_ping")
    waits = [n for n in ast.walk(spg) if isinstance(n, ast.Call) and isinstance(n.func, ast.Attribute)
             and n.func.attr == "wait"]
    T["appPingWaits"] = len(waits)

    # ---- the two keepalive stamps.
    #   _send_ping:  `if self.last_pong_tm >= self.last_ping_tm: self.last_ping_tm = time.time()`  (an unanswered ping keeps
    #                its stamp)  or the unconditional assignment of the pinned commit
    #   read():      `if self.last_pong_tm < self.last_ping_tm: self.last_pong_tm = time.time()`   (only the answer to the
    #                outstanding ping is timed)  or the unconditional assignment
    def _cmp(test, left, op, right):
        return (isinstance(test, ast.Compare) and len(test.ops) == 1 and isinstance(test.ops[0], op)
                and _is_self_attr(test.left, left) and _is_self_attr(test.comparators[0], right))

    def _stamp_shape(fn, attr, left, op, right):
        """True = guarded as described, False = unconditional; anything else is an ExtractError."""
        hits = []

        def walk(stmts, guards):
            for st in stmts:
                if isinstance(st, ast.Assign) and any(_is_self_attr(t, attr) for t in st.targets):
                    hits.append(list(guards))
                for fld in ("body", "orelse", "finalbody"):
                    sub = getattr(st, fld, None)
                    if isinstance(sub, list) and not isinstance(st, (ast.FunctionDef, ast.ClassDef)):
                        walk(sub, guards + ([st] if isinstance(st, ast.If) and fld == "body" else
                                            [("else", st)] if isinstance(st, ast.If) else []))
                for h in getattr(st, "handlers", []) or []:
                    walk(h.body, guards)
        walk(fn.body, [])
        if len(hits) != 1:
            raise ex.ExtractError(f"{fn.name}: {len(hits)} assignments to {attr}")
        ifs = [g for g in hits[0] if isinstance(g, ast.If) and any(_is_self_attr(n, "last_ping_tm") or _is_self_attr(n, "last_pong_tm")
                                                                    for n in ast.walk(g.test))]
        if any(isinstance(g, tuple) for g in hits[0]) and any(
                _is_self_attr(n, "last_ping_tm") or _is_self_attr(n, "last_pong_tm") for g in hits[0] if isinstance(g, tuple)
                for n in ast.walk(g[1].test)):
            raise ex.ExtractError(f"{fn.name}: {attr} assigned in an else-branch over the stamps")
        if not ifs:
            return False
        if len(ifs) == 1 and _cmp(ifs[0].test, left, op, right) and not ifs[0].orelse:
            return True
        raise ex.ExtractError(f"{fn.name}: {attr} is guarded in a shape the model does not know")
    T["appPingStampWhenAnswered"] = _stamp_shape(spg, "last_ping_tm", "last_pong_tm", ast.GtE, "last_ping_tm")
    T["appPongStampWhenOutstanding"] = _stamp_shape(inner["read"], "last_pong_tm", "last_pong_tm", ast.Lt, "last_ping_tm")
