"""Extraction plug-in of group H2 (C09 C10 C11, head-phase part of C17).

Boolean / numeric *shape facts* about the handshake code, read from the AST.  The models in
lean/WS/Model/{Http,Handshake,Connect}.lean branch on them, the property theorems need the
repaired shape (`theorem … : Gen.h2… = true := by decide`), so that reverting a repair breaks
a proof as well as the correspondence.

  h2RedirectFinalCheck   WebSocket.connect raises when the response left after the redirect loop
                         is still a redirect                                            (F6)
  h2AcceptCaseFold       _validate lower-cases both sides of the accept comparison      (F7)
  h2ConnectionNamed      the `connection` option is sent as `Connection: <value>`       (F15)
  h2DecodeGuard          read_headers maps UnicodeDecodeError to WebSocketException     (F8)
  iterationIsRecv        WebSocket.__iter__ / __next__ / next are exactly `while True: yield self.recv()` / `return self.recv()` / `return self.__next__()`
  recvDecodeGuard        WebSocket.recv() maps UnicodeDecodeError of data.decode("utf-8") to WebSocketPayloadException
  h2StatusGuard          read_headers maps IndexError/ValueError of the status line     (F8)
  h2LocationGuard        connect() does not index headers["location"] unguarded         (F8)
  h2LocationParseGuard   connect() validates the redirect target with parse_url and maps its
                         ValueError to WebSocketException                               (F8)
  h2ContentLengthGuard   _get_resp_headers guards int(Content-Length)                   (F8)
  h2BodyReadCap          upper bound of the error-body recv (0 = the peer's number)     (F8)
  h2HeadRecvSize         the size recv_line asks the transport for (1)
  h2TlsClientCertKeys    sslopt keys read by _wrap_sni_socket / _ssl_socket (sorted; a new key
                         that influences the context must be looked at)
"""
import ast


def _calls(node, attr=None, name=None):
    for n in ast.walk(node):
        if isinstance(n, ast.Call):
            if attr is not None and isinstance(n.func, ast.Attribute) and n.func.attr == attr:
                yield n
            if name is not None and isinstance(n.func, ast.Name) and n.func.id == name:
                yield n


def _handler_names(h):
    t = h.type
    if t is None:
        return {"*"}
    if isinstance(t, ast.Tuple):
        return {getattr(e, "id", getattr(e, "attr", "?")) for e in t.elts}
    return {getattr(t, "id", getattr(t, "attr", "?"))}


def _raises_ws(h):
    for n in ast.walk(h):
        if isinstance(n, ast.Raise) and n.exc is not None:
            f = n.exc.func if isinstance(n.exc, ast.Call) else n.exc
            nm = getattr(f, "id", getattr(f, "attr", ""))
            if nm.startswith("WebSocket") and nm.endswith("Exception"):
                return True
    return False


def _guarded(fn, pred, need, must_raise_ws=True):
    """is the (unique) node satisfying pred inside a Try body whose handlers catch all of `need`
    (or a superclass listed in WIDER) and raise a WebSocket*Exception?  returns True/False;
    raises if the node is not found."""
    WIDER = {"UnicodeDecodeError": {"UnicodeError", "ValueError", "Exception", "*"},
             "ValueError": {"Exception", "*"}, "IndexError": {"LookupError", "Exception", "*"},
             "KeyError": {"LookupError", "Exception", "*"}}
    found = False
    for n in ast.walk(fn):
        if pred(n):
            found = True
    if not found:
        return None
    for t in ast.walk(fn):
        if isinstance(t, ast.Try):
            inside = any(pred(m) for b in t.body for m in ast.walk(b))
            if not inside:
                continue
            caught = set()
            ok_handlers = []
            for h in t.handlers:
                names = _handler_names(h)
                if not must_raise_ws or _raises_ws(h):
                    caught |= names
                    ok_handlers.append(h)
            if all((x in caught) or (WIDER.get(x, set()) & caught) for x in need):
                return True
    return False


def extend(repo, T, ex):
    core = ex._parse(repo, "_core.py")
    ws = ex._find(core.body, ast.ClassDef, "WebSocket")
    f = ex._find(ws.body, ast.FunctionDef, "connect")

    # ---- F6: after the `for … in range(redirect_limit)` loop inside the try
    tries = [n for n in ast.walk(f) if isinstance(n, ast.Try)]
    outer = None
    for t in tries:
        if any(isinstance(s, ast.For) for s in t.body):
            outer = t
    if outer is None:
        raise ex.ExtractError("WebSocket.connect: try/for redirect loop not found")
    idx = [i for i, s in enumerate(outer.body) if isinstance(s, ast.For)][0]
    after = outer.body[idx + 1:]
    sets_connected = any(isinstance(s, ast.Assign) and isinstance(s.targets[0], ast.Attribute)
                         and s.targets[0].attr == "connected" for s in after)
    if not sets_connected:
        raise ex.ExtractError("WebSocket.connect: `self.connected = True` after the loop not found")
    final_check = False
    for s in after:
        if isinstance(s, ast.Assign):
            break       # the check must precede `self.connected = True`
        if isinstance(s, ast.If) and isinstance(s.test, ast.Compare) and \
           isinstance(s.test.ops[0], ast.In) and \
           getattr(s.test.comparators[0], "id", "") == "SUPPORTED_REDIRECT_STATUSES":
            for r in ast.walk(s):
                if isinstance(r, ast.Raise) and isinstance(r.exc, ast.Call) and \
                   getattr(r.exc.func, "id", "") == "WebSocketBadStatusException":
                    final_check = True
    T["h2RedirectFinalCheck"] = final_check

    # ---- F8: headers["location"] vs guarded lookup
    loop = outer.body[idx]
    sub = [n for n in ast.walk(loop) if isinstance(n, ast.Subscript)
           and isinstance(n.slice, ast.Constant) and n.slice.value == "location"]
    get = [n for n in _calls(loop, attr="get")
           if n.args and isinstance(n.args[0], ast.Constant) and n.args[0].value == "location"]
    if sub and not get:
        T["h2LocationGuard"] = False
    elif get and not sub:
        # `.get("location")` must be followed by a raise of a WebSocket exception on a falsy value
        ok = False
        for n in ast.walk(loop):
            if isinstance(n, ast.If) and isinstance(n.test, ast.UnaryOp) and isinstance(n.test.op, ast.Not) \
               and _raises_ws(n):
                ok = True
        if not ok:
            raise ex.ExtractError("connect: `.get('location')` without `if not url: raise WebSocket…`")
        T["h2LocationGuard"] = True
    else:
        raise ex.ExtractError("connect: redirect target lookup not recognised")

    # ---- redirect target validated before it is dialled (ValueError of parse_url mapped)
    def is_parse_url(n):
        return isinstance(n, ast.Call) and getattr(n.func, "id", "") == "parse_url"
    g = _guarded(loop, is_parse_url, ["ValueError"])
    T["h2LocationParseGuard"] = bool(g)

    # ---- F7
    hs = ex._parse(repo, "_handshake.py")
    f = ex._find(hs.body, ast.FunctionDef, "_validate")
    lowered_result = lowered_hash = False
    for n in ast.walk(f):
        if isinstance(n, ast.Assign) and isinstance(n.targets[0], ast.Name):
            tgt = n.targets[0].id
            has_lower = any(True for _ in _calls(n.value, attr="lower"))
            if tgt == "result" and has_lower:
                lowered_result = True
            if tgt == "hashed" and has_lower:
                lowered_hash = True
    if lowered_result != lowered_hash:
        raise ex.ExtractError("_validate: only one side of the accept comparison is lower-cased")
    T["h2AcceptCaseFold"] = lowered_result
    cmp_ok = any(True for _ in _calls(f, attr="compare_digest")) or any(
        isinstance(n, ast.Compare) and isinstance(n.ops[0], ast.Eq) and
        {getattr(n.left, "id", ""), getattr(n.comparators[0], "id", "")} == {"hashed", "result"}
        for n in ast.walk(f))
    if not cmp_ok:
        raise ex.ExtractError("_validate: comparison of `hashed` with `result` not found")

    # ---- F15
    f = ex._find(hs.body, ast.FunctionDef, "_get_handshake_headers")
    named = None
    for n in ast.walk(f):
        if isinstance(n, ast.If) and isinstance(n.test, ast.UnaryOp) and isinstance(n.test.op, ast.Not):
            c = n.test.operand
            if isinstance(c, ast.Call) and isinstance(c.func, ast.Attribute) and c.func.attr == "get" \
               and c.args and isinstance(c.args[0], ast.Constant) and c.args[0].value == "connection":
                if len(n.orelse) != 1 or not isinstance(n.orelse[0], ast.Expr):
                    raise ex.ExtractError("_get_handshake_headers: connection else-branch not recognised")
                call = n.orelse[0].value
                if not (isinstance(call, ast.Call) and getattr(call.func, "attr", "") == "append"):
                    raise ex.ExtractError("_get_handshake_headers: connection else-branch is not an append")
                a = call.args[0]
                if isinstance(a, ast.Subscript):
                    named = False
                elif isinstance(a, ast.JoinedStr) and len(a.values) == 2 and \
                        isinstance(a.values[0], ast.Constant) and a.values[0].value == "Connection: " and \
                        isinstance(a.values[1], ast.FormattedValue):
                    named = True
                else:
                    raise ex.ExtractError("_get_handshake_headers: connection header form not recognised")
    if named is None:
        raise ex.ExtractError("_get_handshake_headers: `if not options.get('connection')` not found")
    T["h2ConnectionNamed"] = named

    # ---- F8: _get_resp_headers
    f = ex._find(hs.body, ast.FunctionDef, "_get_resp_headers")
    ce = ex.ConstEval()
    ce.assign_all(hs.body)

    def is_int_cl(n):
        return isinstance(n, ast.Call) and getattr(n.func, "id", "") == "int" and n.args and \
            getattr(n.args[0], "id", "") == "content_len"
    g = _guarded(f, is_int_cl, ["ValueError"], must_raise_ws=False)
    if g is None:
        raise ex.ExtractError("_get_resp_headers: int(content_len) not found")
    T["h2ContentLengthGuard"] = g
    cap = 0
    recvs = [n for n in _calls(f, attr="recv")]
    if len(recvs) != 1:
        raise ex.ExtractError("_get_resp_headers: expected exactly one sock.recv call")
    arg = recvs[0].args[0]
    if isinstance(arg, ast.Call) and getattr(arg.func, "id", "") == "min":
        for a in arg.args:
            try:
                v = ce.ev(a)
                if isinstance(v, int):
                    cap = v
            except ex.ExtractError:
                pass
        if cap == 0:
            raise ex.ExtractError("_get_resp_headers: min(...) without a constant bound")
    T["h2BodyReadCap"] = cap

    # ---- F8: read_headers
    ht = ex._parse(repo, "_http.py")
    f = ex._find(ht.body, ast.FunctionDef, "read_headers")

    def is_decode(n):
        return isinstance(n, ast.Call) and isinstance(n.func, ast.Attribute) and n.func.attr == "decode"

    def is_int_status(n):
        return isinstance(n, ast.Call) and getattr(n.func, "id", "") == "int" and n.args and \
            isinstance(n.args[0], ast.Subscript) and getattr(n.args[0].value, "id", "") == "status_info"
    g = _guarded(f, is_decode, ["UnicodeDecodeError"])
    if g is None:
        raise ex.ExtractError("read_headers: line.decode(...) not found")
    T["h2DecodeGuard"] = g

    # ---- WebSocket.recv(): the text payload is decoded; an undecodable one must surface as WebSocketPayloadException
    rf = ex._find(ws.body, ast.FunctionDef, "recv")
    decs = [n for n in ast.walk(rf) if is_decode(n)]
    if not decs:
        raise ex.ExtractError("WebSocket.recv: data.decode(...) not found")
    for d in decs:
        if d.args[1:] or any(k.arg == "errors" for k in d.keywords):
            raise ex.ExtractError("WebSocket.recv: decode() with an error handler is not modelled")
    guard = True
    for d in decs:
        ok = False
        for t in ast.walk(rf):
            if isinstance(t, ast.Try) and any(m is d for b in t.body for m in ast.walk(b)):
                for h in t.handlers:
                    names = _handler_names(h)
                    raises_payload = any(isinstance(n, ast.Raise) and n.exc is not None and
                                         getattr((n.exc.func if isinstance(n.exc, ast.Call) else n.exc), "id", "") ==
                                         "WebSocketPayloadException" for n in ast.walk(h))
                    if names & {"UnicodeDecodeError", "UnicodeError", "ValueError"} and raises_payload:
                        ok = True
        guard = guard and ok
    T["recvDecodeGuard"] = guard

    # ---- the other spellings of "receive one message": `__iter__` is `while True: yield self.recv()`, `__next__` is
    #      `return self.recv()`, `next` is `return self.__next__()` — nothing else (no test of the value, no try/except):
    #      the model has ONE receive operation for all of them
    def _is_self_call(n, name):
        return (isinstance(n, ast.Call) and not n.args and not n.keywords and isinstance(n.func, ast.Attribute)
                and n.func.attr == name and getattr(n.func.value, "id", "") == "self")

    def _body(fn):
        return [st for st in fn.body if not (isinstance(st, ast.Expr) and isinstance(st.value, ast.Constant))]
    it = ex._find(ws.body, ast.FunctionDef, "__iter__")
    nx = ex._find(ws.body, ast.FunctionDef, "__next__")
    nx2 = ex._find(ws.body, ast.FunctionDef, "next")
    ok_iter = False
    b = _body(it) if it is not None else []
    if len(b) == 1 and isinstance(b[0], ast.While) and isinstance(b[0].test, ast.Constant) and b[0].test.value is True \
            and not b[0].orelse and len(b[0].body) == 1 and isinstance(b[0].body[0], ast.Expr) \
            and isinstance(b[0].body[0].value, ast.Yield) and _is_self_call(b[0].body[0].value.value, "recv"):
        ok_iter = True
    b = _body(nx) if nx is not None else []
    ok_next = len(b) == 1 and isinstance(b[0], ast.Return) and _is_self_call(b[0].value, "recv")
    b = _body(nx2) if nx2 is not None else []
    ok_next2 = len(b) == 1 and isinstance(b[0], ast.Return) and _is_self_call(b[0].value, "__next__")
    T["iterationIsRecv"] = bool(ok_iter and ok_next and ok_next2)
    g = _guarded(f, is_int_status, ["IndexError", "ValueError"])
    if g is None:
        raise ex.ExtractError("read_headers: int(status_info[1]) not found")
    T["h2StatusGuard"] = g

    # ---- recv_line asks for one byte at a time
    so = ex._parse(repo, "_socket.py")
    f = ex._find(so.body, ast.FunctionDef, "recv_line")
    sz = None
    for n in _calls(f, name="recv"):
        if len(n.args) == 2 and isinstance(n.args[1], ast.Constant):
            sz = n.args[1].value
    if sz is None:
        raise ex.ExtractError("recv_line: recv(sock, <const>) not found")
    T["h2HeadRecvSize"] = sz

    # ---- sslopt keys consulted by the TLS wrapper (a new key must be looked at)
    keys = set()
    for fn in ("_wrap_sni_socket", "_ssl_socket"):
        f = ex._find(ht.body, ast.FunctionDef, fn)
        for n in ast.walk(f):
            if isinstance(n, ast.Call) and isinstance(n.func, ast.Attribute) and n.func.attr == "get" \
               and getattr(n.func.value, "id", "") in ("sslopt", "user_sslopt") and n.args \
               and isinstance(n.args[0], ast.Constant):
                keys.add(n.args[0].value)
            if isinstance(n, ast.Subscript) and getattr(n.value, "id", "") in ("sslopt", "user_sslopt") \
               and isinstance(n.slice, ast.Constant):
                keys.add(n.slice.value)
            if isinstance(n, ast.Compare) and isinstance(n.ops[0], ast.In) and \
               getattr(n.comparators[0], "id", "") == "sslopt" and isinstance(n.left, ast.Constant):
                keys.add(n.left.value)
    T["h2SslOptKeys"] = sorted(keys)
    # is the wrap in _http.connect conditioned exactly on `is_secure`?
    f = ex._find(ht.body, ast.FunctionDef, "connect")
    wrap_if_secure = False
    for n in ast.walk(f):
        if isinstance(n, ast.If) and getattr(n.test, "id", "") == "is_secure":
            if any(True for _ in _calls(n, name="_ssl_socket")):
                wrap_if_secure = True
    outside = 0
    for n in _calls(f, name="_ssl_socket"):
        outside += 1
    T["h2WrapIffSecure"] = wrap_if_secure and outside == 1
    T["h2EnvBundleVar"] = _env_var(ht)
    _wrap_shape(ht, T, ex)


def _env_var(ht):
    for n in ast.walk(ht):
        if isinstance(n, ast.Call) and isinstance(n.func, ast.Attribute) and n.func.attr == "get" \
           and isinstance(n.func.value, ast.Attribute) and n.func.value.attr == "environ" and n.args \
           and isinstance(n.args[0], ast.Constant) and "CA_BUNDLE" in str(n.args[0].value):
            return n.args[0].value
    return ""


def _get_default(call, key, ex):
    """`sslopt.get(key, D)` -> D (a constant / ssl.X name)"""
    if isinstance(call, ast.Call) and isinstance(call.func, ast.Attribute) and call.func.attr == "get" \
       and len(call.args) == 2 and isinstance(call.args[0], ast.Constant) and call.args[0].value == key:
        return ex.ConstEval().ev(call.args[1])
    raise ex.ExtractError(f"_wrap_sni_socket: sslopt.get({key!r}, default) not where expected")


def _wrap_shape(ht, T, ex):
    """the verify-mode / host-name selection of _wrap_sni_socket:
         if sslopt.get("cert_reqs", A) != ssl.CERT_NONE: load CAs
         if sslopt.get("cert_reqs", B) == ssl.CERT_NONE and not sslopt.get("check_hostname", C):
             check_hostname = <bool const>; verify_mode = <ssl const>
         else:
             check_hostname = sslopt.get("check_hostname", D); verify_mode = sslopt.get("cert_reqs", E)
    """
    f = ex._find(ht.body, ast.FunctionDef, "_wrap_sni_socket")
    load = sel = None
    for n in ast.walk(f):
        if isinstance(n, ast.If) and isinstance(n.test, ast.Compare) and isinstance(n.test.ops[0], ast.NotEq):
            load = n
        if isinstance(n, ast.If) and isinstance(n.test, ast.BoolOp) and isinstance(n.test.op, ast.And) \
           and len(n.test.values) == 2 and isinstance(n.test.values[0], ast.Compare) \
           and isinstance(n.test.values[0].ops[0], ast.Eq) and isinstance(n.test.values[1], ast.UnaryOp):
            sel = n
    if load is None or sel is None:
        raise ex.ExtractError("_wrap_sni_socket: CA-loading test or verify-mode selection not found")
    T["h2WrapLoadCertDefault"] = _get_default(load.test.left, "cert_reqs", ex)
    if ex.ConstEval().ev(load.test.comparators[0]) != "ssl.CERT_NONE":
        raise ex.ExtractError("_wrap_sni_socket: CA-loading test does not compare with ssl.CERT_NONE")
    T["h2WrapCondCertDefault"] = _get_default(sel.test.values[0].left, "cert_reqs", ex)
    if ex.ConstEval().ev(sel.test.values[0].comparators[0]) != "ssl.CERT_NONE":
        raise ex.ExtractError("_wrap_sni_socket: selection does not compare with ssl.CERT_NONE")
    T["h2WrapCondCheckDefault"] = bool(_get_default(sel.test.values[1].operand, "check_hostname", ex))

    def assigns(body):
        d = {}
        order = []
        for s in body:
            if isinstance(s, ast.Assign) and isinstance(s.targets[0], ast.Attribute) and \
               getattr(s.targets[0].value, "id", "") == "context":
                d[s.targets[0].attr] = s.value
                order.append(s.targets[0].attr)
        return d, order
    b, bo = assigns(sel.body)
    e, eo = assigns(sel.orelse)
    if bo != ["check_hostname", "verify_mode"] or eo != ["check_hostname", "verify_mode"]:
        raise ex.ExtractError("_wrap_sni_socket: assignment order check_hostname, verify_mode expected")
    T["h2WrapBodyCheck"] = bool(ex.ConstEval().ev(b["check_hostname"]))
    T["h2WrapBodyVerify"] = ex.ConstEval().ev(b["verify_mode"])
    T["h2WrapElseCheckDefault"] = bool(_get_default(e["check_hostname"], "check_hostname", ex))
    T["h2WrapElseCertDefault"] = _get_default(e["verify_mode"], "cert_reqs", ex)
    # SNI: wrap_socket(..., server_hostname=hostname)
    sni = False
    for n in ast.walk(f):
        if isinstance(n, ast.Call) and getattr(n.func, "attr", "") == "wrap_socket":
            for kw in n.keywords:
                if kw.arg == "server_hostname" and getattr(kw.value, "id", "") == "hostname":
                    sni = True
    T["h2WrapSniIsHostname"] = sni
