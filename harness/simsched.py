"""Deterministic virtual-time world for running the REAL `WebSocketApp.run_forever` (DESIGN §3.2, App. A).

Real OS threads under a baton: exactly one simulated thread runs at any moment.  Blocking points
(`Event.wait`, `Lock.acquire`, `time.sleep`, `selector.select`, blocking socket `recv`, `Thread.join`)
hand the baton back together with a wake condition.  A blocking call whose condition already holds
does not yield.  When every thread is blocked the clock jumps to the earliest timed wake.  The choice
among several runnable threads is the *schedule*: a list of indices into the runnable list (ordered by
thread creation), consumed one per choice point, default 0 (= the oldest thread, i.e. main) when
exhausted -- generated, enumerated or replayed by the caller.

Time is an integer number of *ticks*; one tick is 1/1024 s ("binary millisecond"), so that every float
the code under test computes from `time.time()` and its second-valued arguments is exact and the
comparisons of `check()` are decided exactly as in the integer model.

Guards: a virtual-step watchdog (`max_steps` baton hand-overs), a virtual horizon (`horizon` ticks) and
a wall-clock guard (`wall_s`) turn a run that does not finish into a reported outcome
(`blocked:<why>`), never into a hung check.  Aborting raises `SimAbort` (a BaseException) at the next
blocking point of every simulated thread; the trace is frozen from that moment.
"""
import collections
import selectors as _real_selectors
import threading as _real_threading
import time as _real_time
import types

TICKS = 1024                      # ticks per second


def secs(ticks):
    """ticks -> the float number of seconds handed to the code under test (exact)."""
    return ticks / float(TICKS)


def ticks_of(seconds):
    """seconds (float/int) from the code under test -> integer ticks (must be exact)."""
    t = seconds * TICKS
    r = int(round(t))
    return r


class SimAbort(BaseException):
    """raised inside simulated threads to unwind them when a run is cut."""


class _T:
    __slots__ = ("name", "tid", "baton", "state", "cond", "deadline", "next_time", "real", "timed_out",
                 "target", "exc", "result", "daemon_obj")

    def __init__(self, name, tid):
        self.name = name
        self.tid = tid
        self.baton = _real_threading.Semaphore(0)
        self.state = "new"          # new | ready | running | waiting | dead
        self.cond = None
        self.deadline = None
        self.next_time = None
        self.real = None
        self.timed_out = False
        self.exc = None
        self.result = None


class Sched:
    def __init__(self, schedule=(), max_steps=4000, horizon=None, wall_s=20.0):
        self.now = 0
        self.threads = []
        self.current = None
        self.schedule = list(schedule)
        self.sched_i = 0
        self.choices = []            # (time, n_runnable, picked) at every choice point
        self.trace = []              # (time, event tuple) -- appended by emit()
        self.frozen = False
        self.aborting = False
        self.abort_reason = None
        self.steps = 0
        self.max_steps = max_steps
        self.horizon = horizon
        self.wall_s = wall_s
        self._mu = _real_threading.Lock()     # protects nothing under the baton; used for the wall guard
        self._done = _real_threading.Event()
        self.force_next = None
        self.thread_init = None      # called at the start of every simulated thread (line tracer)

    # ---------------------------------------------------------------- trace
    def emit(self, *ev):
        if not self.frozen:
            self.trace.append((self.now, tuple(ev)))

    # ---------------------------------------------------------------- threads
    def _me(self):
        return self.current

    def spawn(self, name, fn):
        """create a simulated thread (runnable immediately, first runs when the creator blocks)."""
        t = _T(name, len(self.threads))
        self.threads.append(t)

        def body():
            t.baton.acquire()
            try:
                if self.aborting:
                    raise SimAbort()
                t.state = "running"
                if self.thread_init:
                    self.thread_init(t)
                t.result = fn()
            except SimAbort:
                pass
            except BaseException as e:  # noqa
                t.exc = e
            finally:
                t.state = "dead"
                self.emit("threadExit", t.name)
                self._handover(None)

        t.real = _real_threading.Thread(target=body, name="sim-" + name, daemon=True)
        t.state = "ready"
        t.real.start()
        return t

    def _runnable(self, t):
        if t.state == "ready":
            return True
        if t.state == "waiting":
            if t.cond is not None and t.cond():
                return True
            if t.deadline is not None and t.deadline <= self.now:
                return True
        return False

    def _abort(self, why):
        if not self.aborting:
            self.aborting = True
            self.abort_reason = why
            self.frozen = True

    def _pick(self):
        """next thread to run (advancing the clock when everyone is blocked); None when all are dead."""
        while True:
            alive = [t for t in self.threads if t.state != "dead"]
            if not alive:
                return None
            if self.aborting:
                return alive[0]
            run = [t for t in alive if self._runnable(t)]
            if self.force_next is not None and self.force_next in run:
                t, self.force_next = self.force_next, None
                return t
            if run:
                if len(run) == 1:
                    return run[0]
                k = self.schedule[self.sched_i] if self.sched_i < len(self.schedule) else 0
                self.sched_i += 1
                k %= len(run)
                self.choices.append((self.now, len(run), k))
                return run[k]
            cands = []
            for t in alive:
                if t.state == "waiting":
                    if t.deadline is not None:
                        cands.append(t.deadline)
                    if t.next_time is not None:
                        nt = t.next_time()
                        if nt is not None:
                            cands.append(nt)
            cands = [c for c in cands if c > self.now]
            if not cands:
                self._abort("deadlock")
                continue
            nt = min(cands)
            if self.horizon is not None and nt > self.horizon:
                self._abort("horizon")
                continue
            self.now = nt

    def _handover(self, me):
        """called by the running thread when it blocks (me) or dies (None)."""
        self.steps += 1
        if self.steps > self.max_steps:
            self._abort("steps")
        nxt = self._pick()
        if nxt is None:
            self.current = None
            self._done.set()
            return
        if nxt is me:
            return
        self.current = nxt
        nxt.baton.release()
        if me is not None:
            me.baton.acquire()

    def block(self, cond=None, deadline=None, next_time=None):
        """block the calling simulated thread until cond() holds (-> True) or `deadline` ticks (-> False).
        A condition that already holds wins (data beats a simultaneous timeout) and does not yield."""
        me = self.current
        if self.aborting:
            raise SimAbort()
        if cond is not None and cond():
            return True
        if deadline is not None and deadline <= self.now:
            return False
        me.cond, me.deadline, me.next_time = cond, deadline, next_time
        me.state = "waiting"
        self._handover(me)
        me.state = "running"
        c = me.cond
        me.cond = me.deadline = me.next_time = None
        if self.aborting:
            raise SimAbort()
        return bool(c is not None and c())

    def yield_point(self):
        """voluntary preemption point (line-level preemption): the thread stays runnable."""
        me = self.current
        if self.aborting:
            raise SimAbort()
        others = [t for t in self.threads if t is not me and t.state != "dead" and self._runnable(t)]
        if not others:
            return
        me.state = "ready"
        self._handover(me)
        me.state = "running"
        if self.aborting:
            raise SimAbort()

    # ---------------------------------------------------------------- running a scenario
    def run(self, fn):
        """run fn() as the main simulated thread; returns ('ret', value) | ('exc', e) | ('blocked', why).
        `alive_at_return` lists the simulated threads still alive when main finished."""
        self.alive_at_return = []
        box = {}

        def main():
            try:
                box["ret"] = fn()
            except SimAbort:
                raise
            except BaseException as e:  # noqa
                box["exc"] = e
            finally:
                self.alive_at_return = [t.name for t in self.threads
                                        if t.state != "dead" and t is not self.current]
                self.emit("mainExit")
                # cut whatever is left (a leaked ping thread must not keep the world alive)
                self._abort(self.abort_reason or "main-finished")

        t = self.spawn("main", main)
        self.current = t
        t.baton.release()
        ok = self._done.wait(self.wall_s)
        if not ok:
            # wall-clock guard: freeze, make every blocking point raise, give the threads a moment
            self._abort("wall-clock")
            for th in self.threads:
                th.baton.release()
            self._done.wait(2.0)
            return ("blocked", "wall-clock")
        if "ret" in box:
            return ("ret", box["ret"])
        if "exc" in box:
            return ("exc", box["exc"])
        return ("blocked", self.abort_reason or "?")

    # ---------------------------------------------------------------- substitutes for the stdlib
    def time_module(self):
        s = self
        m = types.SimpleNamespace()
        m.time = lambda: secs(s.now)
        m.monotonic = m.time
        m.perf_counter = m.time

        def sleep(seconds):
            d = ticks_of(seconds)
            s.emit("sleep", d)
            if d > 0:
                s.block(None, s.now + d)
        m.sleep = sleep
        m.strftime = _real_time.strftime
        return m

    def threading_module(self):
        s = self

        class Event:
            def __init__(self):
                self._flag = False

            def is_set(self):
                return self._flag

            isSet = is_set

            def set(self):
                self._flag = True

            def clear(self):
                self._flag = False

            def wait(self, timeout=None):
                dl = None if timeout is None else s.now + ticks_of(timeout)
                s.block(lambda: self._flag, dl)
                return self._flag

        class Lock:
            def __init__(self):
                self._owner = None

            def acquire(self, blocking=True, timeout=-1):
                if self._owner is None:
                    self._owner = s.current
                    return True
                if not blocking:
                    return False
                dl = None if timeout is None or timeout < 0 else s.now + ticks_of(timeout)
                ok = s.block(lambda: self._owner is None, dl)
                if ok:
                    self._owner = s.current
                return ok

            def release(self):
                self._owner = None

            def locked(self):
                return self._owner is not None

            def __enter__(self):
                self.acquire()
                return self

            def __exit__(self, *a):
                self.release()

        class Thread:
            _n = [0]

            def __init__(self, group=None, target=None, name=None, args=(), kwargs=None, daemon=None):
                self._target, self._args, self._kwargs = target, args, kwargs or {}
                Thread._n[0] += 1
                self.name = name or f"Thread-{Thread._n[0]}"
                self.daemon = daemon
                self._t = None

            def run(self):
                if self._target:
                    self._target(*self._args, **self._kwargs)

            def start(self):
                s.emit("threadStart", self._label())
                self._t = s.spawn(self._label(), self.run)

            def _label(self):
                tg = self._target
                return getattr(tg, "__name__", None) or self.name

            def is_alive(self):
                return self._t is not None and self._t.state != "dead"

            isAlive = is_alive

            def join(self, timeout=None):
                if self._t is None:
                    raise RuntimeError("cannot join thread before it is started")
                dl = None if timeout is None else s.now + ticks_of(timeout)
                s.block(lambda: self._t.state == "dead", dl)

        m = types.SimpleNamespace()
        m.Event, m.Lock, m.Thread = Event, Lock, Thread
        m.RLock = Lock
        m.current_thread = lambda: types.SimpleNamespace(name=s.current.name if s.current else "?")
        m.main_thread = _real_threading.main_thread
        m.get_ident = lambda: s.current.tid if s.current else -1
        self.LockClass = Lock
        return m

    def selectors_module(self):
        s = self
        Key = _real_selectors.SelectorKey

        class Selector:
            def __init__(self):
                self._reg = {}

            def register(self, fileobj, events, data=None):
                if id(fileobj) in self._reg:
                    raise KeyError("already registered")
                k = Key(fileobj, getattr(fileobj, "fileno", lambda: -1)(), events, data)
                self._reg[id(fileobj)] = k
                return k

            def unregister(self, fileobj):
                return self._reg.pop(id(fileobj))

            def modify(self, fileobj, events, data=None):
                self.unregister(fileobj)
                return self.register(fileobj, events, data)

            def get_map(self):
                return {k.fd: k for k in self._reg.values()}

            def _ready(self):
                out = []
                for k in self._reg.values():
                    ev = 0
                    if k.events & _real_selectors.EVENT_READ and k.fileobj.sim_readable():
                        ev |= _real_selectors.EVENT_READ
                    if k.events & _real_selectors.EVENT_WRITE:
                        ev |= _real_selectors.EVENT_WRITE
                    if ev:
                        out.append((k, ev))
                return out

            def select(self, timeout=None):
                dl = None if timeout is None else s.now + max(0, ticks_of(timeout))

                def nt():
                    c = [k.fileobj.sim_next_time() for k in self._reg.values()]
                    c = [x for x in c if x is not None]
                    return min(c) if c else None
                unread = sum(getattr(k.fileobj, "unread_arrived", lambda: 0)() for k in self._reg.values())
                s.emit("select", None if timeout is None else ticks_of(timeout), bool(self._ready()), unread)
                s.block(lambda: bool(self._ready()), dl, nt)
                return self._ready()

            def close(self):
                self._reg = {}

            def __enter__(self):
                return self

            def __exit__(self, *a):
                self.close()

        m = types.SimpleNamespace()
        m.DefaultSelector = Selector
        m.SelectSelector = Selector
        m.EVENT_READ = _real_selectors.EVENT_READ
        m.EVENT_WRITE = _real_selectors.EVENT_WRITE
        m.SelectorKey = Key
        return m


class Patch:
    """substitute the scheduler's time/threading/selectors into the websocket modules; restore on exit."""

    def __init__(self, sched, extra=()):
        self.sched = sched
        self.extra = list(extra)       # (module, attr, value)
        self.saved = []

    def __enter__(self):
        import websocket
        from websocket import _abnf, _app, _core, _dispatcher, _socket
        s = self.sched
        tm, th, se = s.time_module(), s.threading_module(), s.selectors_module()
        subs = [(_app, "time", tm), (_app, "threading", th), (_app, "selectors", se),
                (_dispatcher, "time", tm), (_dispatcher, "selectors", se),
                (_core, "time", tm), (_core, "threading", th),
                (_abnf, "Lock", th.Lock), (_socket, "selectors", se)] + self.extra
        for mod, attr, val in subs:
            self.saved.append((mod, attr, getattr(mod, attr, _MISSING)))
            setattr(mod, attr, val)
        self.time, self.threading, self.selectors = tm, th, se
        return self

    def __exit__(self, *a):
        for mod, attr, old in reversed(self.saved):
            if old is _MISSING:
                delattr(mod, attr)
            else:
                setattr(mod, attr, old)
        self.saved = []
        return False


_MISSING = object()


class LinePreempt:
    """line-level preemption of the real code (C14 second-thread close): the `k`-th executed line of
    websocket/*.py in the main simulated thread triggers `action()` and yields to the other runnable
    threads (they run until they block; then main continues).  `k` counts from 0; `lines` records how
    many lines were executed so that a caller can enumerate every k."""

    def __init__(self, sched, k, action=None, prefix=None):
        import os
        self.s = sched
        self.k = k
        self.action = action
        self.count = 0
        self.occ = 0
        self.fired_at = None
        self.prefix = prefix

    def _local(self, frame, event, arg):
        if event == "line" and self.s.current is not None and self.s.current.name == "main" and not self.s.aborting:
            n = self.count
            self.count += 1
            if isinstance(self.k, (list, tuple)):
                # (file name, line number, occurrence): the occ-th time main reaches that line
                hit = False
                if frame.f_lineno == self.k[1] and frame.f_code.co_filename.endswith("/" + self.k[0]):
                    self.occ += 1
                    hit = self.occ == self.k[2] + 1
            else:
                hit = n == self.k
            if hit:
                self.fired_at = (frame.f_code.co_filename.rsplit("/", 1)[-1], frame.f_lineno)
                if self.action:
                    self.action()
                # hand the baton to whoever else can run; main stays runnable
                me = self.s.current
                others = [t for t in self.s.threads if t is not me and t.state != "dead" and self.s._runnable(t)]
                if others:
                    me.state = "ready"
                    self.s.force_next = others[0]
                    self.s._handover(me)
                    me.state = "running"
                    if self.s.aborting:
                        raise SimAbort()
        return self._local

    def _global(self, frame, event, arg):
        fn = frame.f_code.co_filename
        if self.prefix and fn.startswith(self.prefix):
            return self._local
        return None

    def install(self):
        import sys
        tracer = self

        def init(t):
            if t.name == "main":
                sys.settrace(tracer._global)
        self.s.thread_init = init

    def remove(self):
        self.s.thread_init = None
