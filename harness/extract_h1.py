"""Generated facts for op group H1 (C18, C19, C20): boolean "shape facts" about the code that
the models of WS.Model.{Url,NoProxy,Proxy,Cookie} assume.  Each is consumed by a `decide`
theorem in WS/Props/C18|C19|C20.lean, so that an edit which reverts one of the repaired
defects (or otherwise changes the shape) breaks a proof obligation, not only the
correspondence run.

    parseUrlUsesUrlsplit      parse_url calls urlsplit(...), not urlparse(...)
    parseUrlRequiresSlashes   parse_url raises ValueError when the text after ":" does not start with "//"
    noProxyLabelBoundary      _is_no_proxy_host tests `hostname == d or hostname.endswith("." + d)`
    proxyInfoNoProxyAlways    proxy_info.__init__ reads http_no_proxy outside `if self.proxy_host:`
    envProxyPasswordOrEmpty   get_proxy_info passes `proxy.password or ""` to unquote
    cookieLookupLowered       SimpleCookieJar.add lower-cases the domain before `self.jar.get(domain)`
    cookieSortsPairs          SimpleCookieJar.get sorts (name, value) tuples, not rendered strings
"""
import ast


def _calls(fn, name):
    for n in ast.walk(fn):
        if isinstance(n, ast.Call):
            f = n.func
            if (isinstance(f, ast.Name) and f.id == name) or (isinstance(f, ast.Attribute) and f.attr == name):
                yield n


def extend(repo, T, ex):
    url = ex._parse(repo, "_url.py")
    http = ex._parse(repo, "_http.py")
    jar = ex._parse(repo, "_cookiejar.py")

    # ---- parse_url
    f = ex._find(url.body, ast.FunctionDef, "parse_url")
    uses_split = any(True for _ in _calls(f, "urlsplit"))
    uses_parse = any(True for _ in _calls(f, "urlparse"))
    if uses_split == uses_parse:
        raise ex.ExtractError("parse_url: expected exactly one of urlsplit / urlparse")
    T["parseUrlUsesUrlsplit"] = uses_split
    req = False
    for n in ast.walk(f):
        if isinstance(n, ast.If) and isinstance(n.test, ast.UnaryOp) and isinstance(n.test.op, ast.Not):
            c = n.test.operand
            if isinstance(c, ast.Call) and isinstance(c.func, ast.Attribute) and c.func.attr == "startswith" \
                    and c.args and isinstance(c.args[0], ast.Constant) and c.args[0].value == "//" \
                    and any(isinstance(b, ast.Raise) for b in n.body):
                req = True
    T["parseUrlRequiresSlashes"] = req

    # ---- _is_no_proxy_host: the test inside `for domain in [...]`
    f = ex._find(url.body, ast.FunctionDef, "_is_no_proxy_host")
    boundary = None
    for n in ast.walk(f):
        if isinstance(n, ast.For):
            for m in ast.walk(n):
                if isinstance(m, ast.If):
                    ends = list(_calls(m.test, "endswith"))
                    if not ends:
                        continue
                    arg = ends[0].args[0] if ends[0].args else None
                    dotted = isinstance(arg, ast.BinOp) and isinstance(arg.op, ast.Add) and \
                        isinstance(arg.left, ast.Constant) and arg.left.value == "."
                    eq = isinstance(m.test, ast.BoolOp) and isinstance(m.test.op, ast.Or) and any(
                        isinstance(v, ast.Compare) and isinstance(v.ops[0], ast.Eq) for v in m.test.values)
                    boundary = bool(dotted and eq)
    if boundary is None:
        raise ex.ExtractError("_is_no_proxy_host: endswith test not found")
    T["noProxyLabelBoundary"] = boundary

    # ---- get_proxy_info: unquote(proxy.password or "")
    f = ex._find(url.body, ast.FunctionDef, "get_proxy_info")
    pw = None
    for c in _calls(f, "unquote"):
        a = c.args[0] if c.args else None
        if isinstance(a, ast.Attribute) and a.attr == "password":
            pw = False
        if isinstance(a, ast.BoolOp) and isinstance(a.op, ast.Or) and \
                isinstance(a.values[0], ast.Attribute) and a.values[0].attr == "password":
            pw = True
    if pw is None:
        raise ex.ExtractError("get_proxy_info: unquote(proxy.password…) not found")
    T["envProxyPasswordOrEmpty"] = pw

    # ---- proxy_info.__init__
    cls = ex._find(http.body, ast.ClassDef, "proxy_info")
    init = ex._find(cls.body, ast.FunctionDef, "__init__")

    def assigns_no_proxy_from_options(stmts):
        for s in stmts:
            if isinstance(s, ast.Assign) and isinstance(s.targets[0], ast.Attribute) and s.targets[0].attr == "no_proxy" \
                    and isinstance(s.value, ast.Call) and getattr(s.value.func, "attr", "") == "get":
                return True
        return False
    top = assigns_no_proxy_from_options(init.body)
    nested = any(assigns_no_proxy_from_options(n.body) for n in init.body if isinstance(n, ast.If))
    if not (top or nested):
        raise ex.ExtractError("proxy_info.__init__: self.no_proxy = options.get(...) not found")
    T["proxyInfoNoProxyAlways"] = bool(top)

    # ---- SimpleCookieJar
    cj = ex._find(jar.body, ast.ClassDef, "SimpleCookieJar")
    add = ex._find(cj.body, ast.FunctionDef, "add")
    lowered = False
    for n in ast.walk(add):
        if isinstance(n, ast.Assign) and isinstance(n.targets[0], ast.Name) and n.targets[0].id == "domain" \
                and isinstance(n.value, ast.Call) and getattr(n.value.func, "attr", "") == "lower":
            lowered = True
    store_plain = False
    for n in ast.walk(add):
        if isinstance(n, ast.Assign) and isinstance(n.targets[0], ast.Subscript):
            k = n.targets[0].slice
            store_plain = isinstance(k, ast.Name) and k.id == "domain"
    T["cookieLookupLowered"] = bool(lowered and store_plain)
    get = ex._find(cj.body, ast.FunctionDef, "get")
    sorts = list(_calls(get, "sorted"))
    if not sorts:
        raise ex.ExtractError("SimpleCookieJar.get: sorted(...) not found")
    arg = sorts[0].args[0]
    elt = getattr(arg, "elt", None)
    T["cookieSortsPairs"] = isinstance(elt, ast.Tuple)
