"""Shared machinery of the checks: driver I/O, PRNG, canonicalisation, result bookkeeping."""
import collections
import hashlib
import json
import os
import random
import subprocess
import sys
import tempfile
import time

HERE = os.path.dirname(os.path.abspath(__file__))
VERIF = os.path.dirname(HERE)
LEAN = os.path.join(VERIF, "lean")
DRIVER = os.path.join(LEAN, ".lake", "build", "bin", "wsdriver")
STATE = os.path.join(VERIF, ".state")
REPO = os.environ.get("WSVERIF_REPO", "/repo")

ALLOWED_AXIOMS = {"propext", "Classical.choice", "Quot.sound"}

TRUSTED_BASE = [
    "Lean 4.33.0 kernel; axioms allowed in property theorems: propext, Classical.choice, Quot.sound (audited by #print axioms on every run)",
    "no sorry/admit/native_decide/bv_decide/own axioms (grep on every run); `decide +kernel` only for generated finite tables",
    "Spec files lean/WS/Spec/*.lean are the reading of the property",
    "harness/extract.py (AST -> lean/WS/Gen/Tables.lean) and the correspondence harness (harness/*.py): model<->code agreement is tested on generated inputs, not proved",
    "CPython semantics of bytes/str/struct/int operations, socket/ssl/selectors/threading are modelled, not verified",
]


def rng(seed, prop, stream="main"):
    """every random choice of a check derives from (VERIF_SEED, property, stream)."""
    h = hashlib.sha256(f"{seed}:{prop}:{stream}".encode()).digest()
    return random.Random(int.from_bytes(h[:8], "big"))


# ---- helpers mirrored in lean/WS/Base/Bytes.lean ---------------------------------------

_GEN_BASE = bytes((131 * r) % 256 for r in range(256))
_SHIFT = [bytes((x + k) % 256 for x in range(256)) for k in range(256)]


def gen_bytes(length, seed):
    """b[i] = (31*seed + 131*i + i//256) % 256, block-wise (131*256*q vanishes mod 256)."""
    out = bytearray()
    q = 0
    while len(out) < length:
        out += _GEN_BASE.translate(_SHIFT[(31 * seed + q) % 256])
        q += 1
    return bytes(out[:length])


def fnv1a(bs):
    h = 14695981039346656037
    for b in bs:
        h = ((h ^ b) * 1099511628211) % 18446744073709551616
    return h


def summarize(bs):
    import zlib
    bs = bytes(bs)
    if len(bs) <= 64:
        return "h" + bs.hex()
    return f"L{len(bs)}:{zlib.crc32(bs)}:{bs[:32].hex()}:{bs[-32:].hex()}"


def hexarg(bs):
    bs = bytes(bs)
    return bs.hex() if bs else "-"


# ---- canonical exception classes (DESIGN §3.2) -----------------------------------------

def canon_exc(e):
    import socket
    import ssl
    import websocket
    from websocket import _exceptions as X
    if isinstance(e, X.WebSocketProtocolException):
        return "PROTO"
    if isinstance(e, X.WebSocketPayloadException):
        return "PAYLOAD"
    if isinstance(e, X.WebSocketConnectionClosedException):
        return "CLOSED"
    if isinstance(e, X.WebSocketTimeoutException):
        return "TIMEOUT"
    if isinstance(e, BlockingIOError):
        # only a simulated NON-BLOCKING socket raises it: "no data now" is that socket's form of the receive timeout
        # (the library passes it to the caller unchanged; state must be kept exactly as for a timeout)
        return "TIMEOUT"
    if isinstance(e, X.WebSocketBadStatusException):
        return f"BADSTATUS({e.status_code})"
    if isinstance(e, X.WebSocketProxyException):
        return "PROXY"
    if isinstance(e, X.WebSocketAddressException):
        return "ADDRESS"
    if isinstance(e, X.WebSocketException):
        return "WSGENERIC"
    if isinstance(e, (IndexError, KeyError, struct_error(), AttributeError, UnicodeDecodeError,
                      UnicodeEncodeError, TypeError, AssertionError, NameError, ZeroDivisionError)):
        return f"INTERNAL({type(e).__name__})"
    if isinstance(e, (ssl.SSLError, socket.timeout, socket.gaierror, OSError)):
        return "TRANSPORT"
    if isinstance(e, ValueError):
        return "VALUEERROR"
    return f"INTERNAL({type(e).__name__})"


def struct_error():
    import struct
    return struct.error


# ---- the Lean driver ---------------------------------------------------------------------

class DriverError(Exception):
    pass


def run_driver(lines, timeout=1800):
    """pipe op lines to the compiled model driver; returns the list of output lines."""
    if not lines:
        return []
    if not os.path.exists(DRIVER):
        raise DriverError(f"driver not built: {DRIVER}")
    data = ("\n".join(lines) + "\n").encode()
    with tempfile.TemporaryFile() as fin:
        fin.write(data)
        fin.seek(0)
        p = subprocess.run([DRIVER], stdin=fin, stdout=subprocess.PIPE, stderr=subprocess.PIPE,
                           timeout=timeout)
    out = p.stdout.decode().split("\n")
    if out and out[-1] == "":
        out.pop()
    if p.returncode != 0 or len(out) != len(lines):
        raise DriverError(f"driver rc={p.returncode} lines in={len(lines)} out={len(out)} "
                          f"stderr={p.stderr.decode()[:300]}")
    return out


def run_driver_parallel(lines, jobs=16, timeout=1800):
    """same, sharded over `jobs` driver processes (ops are independent lines)."""
    if len(lines) < 4000 or jobs <= 1:
        return run_driver(lines, timeout)
    from concurrent.futures import ThreadPoolExecutor
    n = len(lines)
    step = (n + jobs - 1) // jobs
    parts = [lines[i:i + step] for i in range(0, n, step)]
    with ThreadPoolExecutor(max_workers=jobs) as ex:
        outs = list(ex.map(lambda p: run_driver(p, timeout), parts))
    res = []
    for o in outs:
        res.extend(o)
    return res


# ---- bookkeeping ----------------------------------------------------------------------------

class Ctx:
    """what a property module sees."""

    def __init__(self, prop, tier, seed, deadline=None):
        self.prop = prop
        self.tier = tier
        self.seed = seed
        self.deadline = deadline
        self.evaluations = 0
        self.traces_vs_impl = 0
        self.nontrivial = set()
        self.samples = []
        self.dist = collections.Counter()
        self.divergences = []       # model != implementation
        self.violations = []        # implementation violates the Spec (oracle on real outputs)
        self.notes = []
        self.rule = ""

    def rng(self, stream="main"):
        return rng(self.seed, self.prop, stream)

    def thorough(self):
        return self.tier == "thorough"

    def out_of_time(self):
        return self.deadline is not None and time.time() > self.deadline

    def case(self, key=None, nontrivial=False, cls=None, sample=None):
        self.evaluations += 1
        if nontrivial and key is not None:
            self.nontrivial.add(key)
        if cls is not None:
            self.dist[cls] += 1
        if sample is not None and len(self.samples) < 12:
            self.samples.append(sample)

    def diverge(self, op, inp, model, impl):
        if len(self.divergences) < 50:
            self.divergences.append({"op": op, "input": inp, "model": model, "impl": impl})
        else:
            self.divergences.append(None)

    def violate(self, clause, cause, inp, expected, observed, size=None):
        """the real code broke the Spec on a concrete input. (clause, cause) is the signature."""
        v = {"clause": clause, "cause": cause, "input": inp, "expected": expected,
             "observed": observed, "size": size if size is not None else len(json.dumps(inp))}
        self.violations.append(v)


def compare_streams(ctx, op, inputs, model_out, impl_out):
    """diff two canonical output streams line by line."""
    assert len(inputs) == len(model_out) == len(impl_out)
    n = 0
    for i, m, r in zip(inputs, model_out, impl_out):
        if m != r:
            ctx.diverge(op, i, m, r)
            n += 1
    ctx.traces_vs_impl += len(inputs)
    return n
