"""Simulated world of the handshake side (group H2): scripted dials, TLS recorder, urandom recorder,
cookie-jar recorder.  Everything is substituted in the namespaces of the imported websocket
modules and restored on exit (no source hooks).

    with Net(dials=[DialSpec(...), ...], env={...}) as net:
        ws = websocket.WebSocket(sslopt=...)
        ws.connect(url, **options)
    net.trace()      # canonical event list, same rendering as lean/WS/Driver/OpsH2.lean `oEv`

One timeline for all sockets: D<i> dial, A<i> adopted caller socket, P<i>w/P<i>r<n> plain-text
tunnel I/O, W<i>:<policy>:<ok> TLS wrap, I<i>w/I<i>r<n> handshake I/O, C<i> close.
`i` numbers the `_http.connect` calls of one `WebSocket.connect`.
"""
import os as _real_os
import socket as _real_socket
import ssl as _real_ssl
import types

import common
from simnet import SimSocket


def hx(s):
    """text argument: hex of UTF-8, '-' = empty"""
    if isinstance(s, str):
        s = s.encode("utf-8", "surrogatepass")
    return bytes(s).hex() if s else "-"


def hopt(s):
    return "~" if s is None else hx(s)


def hlist(l):
    return "_" if not l else ",".join(hx(x) for x in l)


def events_arg(events):
    """script -> driver token"""
    items = []
    for e in events:
        if e[0] == "chunk":
            if e[1]:
                items.append(bytes(e[1]).hex())
        elif e[0] == "timeout":
            items.append("T")
        elif e[0] == "reset":
            items.append("R")
        elif e[0] == "eof":
            break
    return ",".join(items) if items else "_"


class DialSpec:
    """the world's answer to one `_http.connect` call"""

    def __init__(self, events=(), tail="eof", addr="ok", wrap="ok", rand=None, sends_left=None, jar=""):
        self.events = [tuple(e) for e in events]
        self.tail = tail            # "eof" | "timeout"
        self.addr = addr            # ok | ADDRESS | WSGENERIC | TRANSPORT
        self.wrap = wrap            # ok | TRANSPORT
        self.rand = rand if rand is not None else bytes(16)
        self.sends_left = sends_left
        self.jar = jar              # filled in after the run from the recorded jar lookups

    def arg(self):
        sl = "~" if self.sends_left is None else str(self.sends_left)
        return "!".join([self.addr, "E" if self.tail == "eof" else "T", events_arg(self.events), sl,
                         self.wrap, common.hexarg(self.rand), hx(self.jar)])


class H2Socket(SimSocket):
    def __init__(self, net, idx, spec):
        super().__init__(spec.events, tail=spec.tail,
                         send_fail_after=spec.sends_left)
        self.net = net
        self.idx = idx
        self.spec = spec
        self.connected_to = None
        self.wrapped = None

    def connect(self, address):
        if self.spec.addr == "TRANSPORT":
            raise ConnectionRefusedError(111, "Connection refused")
        self.connected_to = address
        self.net.dialled.append(self)
        self.net.timeline.append(f"D{self.idx}")

    def recv(self, n):
        if n < 0:
            raise ValueError("negative buffersize in recv")
        if n == 0:
            self.net.timeline.append(f"{self.net.phase}{self.idx}r0")
            self.recv_sizes.append(0)
            return b""
        self.net.timeline.append(f"{self.net.phase}{self.idx}r{n}")
        return super().recv(n)

    def send(self, data):
        self.net.timeline.append(f"{self.net.phase}{self.idx}w:{common.summarize(bytes(data))}")
        self.net.writes.append((self.idx, self.net.phase, bytes(data)))
        return super().send(data)

    def close(self):
        # a socket whose connect() failed was never handed to the caller: not part of the trace
        if self.connected_to is not None or self is self.net.user_socket:
            self.net.timeline.append(f"C{self.idx}")
        super().close()


def _cert(v):
    return {0: "N", 1: "O", 2: "R"}[int(v)]


class RecContext(_real_ssl.SSLContext):
    """a real SSLContext (so the attribute semantics of check_hostname / verify_mode are CPython's)
    whose I/O methods only record."""
    net = None

    def __new__(cls, protocol=_real_ssl.PROTOCOL_TLS_CLIENT, *a, **k):
        self = super().__new__(cls, protocol)
        self.rec_ca = "unset"
        self.rec_calls = []
        self.rec_user_id = None
        return self

    def load_verify_locations(self, cafile=None, capath=None, cadata=None):
        self.rec_ca = f"loc({hopt(cafile)},{hopt(capath)})"
        self.rec_calls.append(("load_verify_locations", cafile, capath))

    def load_default_certs(self, purpose=_real_ssl.Purpose.SERVER_AUTH):
        self.rec_ca = "default"
        self.rec_calls.append(("load_default_certs", str(purpose)))

    def load_cert_chain(self, *a, **k):
        self.rec_calls.append(("load_cert_chain",) + a)

    def set_ciphers(self, c):
        self.rec_calls.append(("set_ciphers", c))

    def wrap_socket(self, sock, server_side=False, do_handshake_on_connect=True,
                    suppress_ragged_eofs=True, server_hostname=None, session=None):
        net = RecContext.net
        if self.rec_user_id is not None:
            pol = f"user/{self.rec_user_id}/{hx(server_hostname or '')}"
            # a context the CALLER made is used as it is: whatever the library adds to its trust store shows in the policy
            touched = [c[0] for c in self.rec_calls if c[0] in ("load_default_certs", "load_verify_locations")]
            if touched:
                pol += "/trust-store-modified=" + "+".join(touched)
        else:
            pol = (f"fresh/{_cert(self.verify_mode)}/{int(bool(self.check_hostname))}/{self.rec_ca}/"
                   f"{hx(server_hostname or '')}")
        ok = getattr(sock, "spec", None) is None or sock.spec.wrap == "ok"
        if net is not None:
            net.timeline.append(f"W{getattr(sock, 'idx', '?')}:{pol}:{int(ok)}")
            net.wraps.append({"idx": getattr(sock, "idx", None), "policy": pol, "ok": ok,
                              "verify_mode": int(self.verify_mode), "check_hostname": bool(self.check_hostname),
                              "ca": self.rec_ca, "sni": server_hostname, "user": self.rec_user_id,
                              "calls": list(self.rec_calls)})
        if not ok:
            raise _real_ssl.SSLCertVerificationError(1, "certificate verify failed (scripted)")
        sock.wrapped = pol
        return sock


class _Shim:
    """module stand-in: overrides first, the real module otherwise."""

    def __init__(self, real, **over):
        self.__dict__["_real"] = real
        self.__dict__.update(over)

    def __getattr__(self, k):
        return getattr(self.__dict__["_real"], k)


class JarRecorder:
    def __init__(self, net, seed_cookies=()):
        from websocket._cookiejar import SimpleCookieJar
        self.inner = SimpleCookieJar()
        for c in seed_cookies:
            self.inner.add(c)
        self.net = net

    def add(self, set_cookie):
        self.net.jar_adds.append(set_cookie)
        return self.inner.add(set_cookie)

    def set(self, set_cookie):
        return self.inner.set(set_cookie)

    def get(self, host):
        r = self.inner.get(host)
        self.net.jar_gets.append((self.net.call_index, host, r))
        return r


class Net:
    def __init__(self, dials, env=None, isfile=(), isdir=(), seed_cookies=(), user_socket_spec=None):
        self.dials = list(dials)
        self.env = dict(env or {})
        self.isfile = set(isfile)
        self.isdir = set(isdir)
        self.seed_cookies = seed_cookies
        self.timeline = []
        self.dialled = []
        self.sockets = []
        self.writes = []
        self.wraps = []
        self.urandom_calls = []
        self.jar_gets = []
        self.jar_adds = []
        self.getaddrinfo_calls = []
        self.call_index = -1          # index of the current `_http.connect` call
        self.phase = "I"
        self.user_socket = None
        if user_socket_spec is not None:
            self.user_socket = H2Socket(self, 0, user_socket_spec)
            self.sockets.append(self.user_socket)
        self._saved = []

    # -- substitution -----------------------------------------------------------------------
    def _patch(self, mod, name, value):
        self._saved.append((mod, name, getattr(mod, name)))
        setattr(mod, name, value)

    def __enter__(self):
        import websocket
        from websocket import _core, _handshake, _http, _url
        net = self

        def spec_for(i):
            if 0 <= i < len(net.dials):
                return net.dials[i]
            return DialSpec(addr="TRANSPORT")

        def getaddrinfo(host, port, *a, **k):
            net.getaddrinfo_calls.append((net.call_index, host, port))
            sp = spec_for(net.call_index)
            if sp.addr == "ADDRESS":
                raise _real_socket.gaierror(-2, "Name or service not known")
            if sp.addr == "WSGENERIC":
                return []
            return [(_real_socket.AF_INET, _real_socket.SOCK_STREAM, 6, "", (host, port))]

        def mksocket(family=-1, type=-1, proto=-1, fileno=None):
            s = H2Socket(net, net.call_index, spec_for(net.call_index))
            net.sockets.append(s)
            return s

        sockshim = _Shim(_real_socket, getaddrinfo=getaddrinfo, socket=mksocket)
        self._patch(_http, "socket", sockshim)

        RecContext.net = net
        sslshim = _Shim(_real_ssl, SSLContext=RecContext)
        self._patch(_http, "ssl", sslshim)

        environ = dict(self.env)
        pathshim = _Shim(_real_os.path, isfile=lambda p: p in net.isfile, isdir=lambda p: p in net.isdir)
        osshim = _Shim(_real_os, environ=environ, path=pathshim)
        self._patch(_http, "os", osshim)
        self._patch(_url, "os", _Shim(_real_os, environ=environ))

        def urandom(n):
            i = len(net.urandom_calls)
            sp = spec_for(net.call_index)
            r = bytes(sp.rand)[:n] if len(sp.rand) >= n else bytes(sp.rand) + bytes(n - len(sp.rand))
            net.urandom_calls.append((net.call_index, n, r))
            return r

        self._patch(_handshake, "os", _Shim(_real_os, urandom=urandom))
        self.jar = JarRecorder(self, self.seed_cookies)
        self._patch(_handshake, "CookieJar", self.jar)

        real_connect = _http.connect

        def counting_connect(url, options, proxy, socket, *more, **kmore):
            # (further parameters a later version may pass between the library's own modules are handed through)
            net.call_index += 1
            net.phase = "P"
            if socket is not None and socket is net.user_socket:
                net.timeline.append(f"A{net.call_index}")
                socket.idx = net.call_index
            try:
                return real_connect(url, options, proxy, socket, *more, **kmore)
            finally:
                net.phase = "I"

        self._patch(_core, "connect", counting_connect)
        return self

    def __exit__(self, *a):
        for mod, name, val in reversed(self._saved):
            setattr(mod, name, val)
        self._saved = []
        RecContext.net = None
        return False

    # -- observations -----------------------------------------------------------------------
    def trace(self):
        """run-length compressed like OpsH2.rle"""
        out = []
        prev, k = None, 0
        for e in self.timeline:
            if e == prev:
                k += 1
            else:
                if prev is not None:
                    out.append(prev if k == 1 else f"{prev}*{k}")
                prev, k = e, 1
        if prev is not None:
            out.append(prev if k == 1 else f"{prev}*{k}")
        return ",".join(out) if out else "_"

    def fill_jars(self):
        """copy the recorded jar lookups into the dial specs (world input of the model)"""
        for idx, host, r in self.jar_gets:
            if 0 <= idx < len(self.dials):
                self.dials[idx].jar = r

    def dials_arg(self):
        return "/".join(d.arg() for d in self.dials) if self.dials else "_"
