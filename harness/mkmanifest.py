#!/usr/bin/env python3
"""Regenerates /verif/MANIFEST.json from the table below (kept valid against the schema)."""
import json
import os

VERIF = os.path.dirname(os.path.dirname(os.path.abspath(__file__)))

NOTE_COMMON = ("Trusted: Lean 4.33.0 kernel (axioms propext, Classical.choice, Quot.sound only; audited each run; "
               "no sorry/native_decide/bv_decide/own axioms); the Spec files; harness/extract.py and the correspondence "
               "harness (model<->code agreement tested on generated inputs, not proved); CPython/OS semantics modelled. ")

# property -> (technique, level text, extra note, design section)
CLAIMED = {
    "C06": ("Lean 4 theorem (validator = Unicode Table 3-7 for all byte strings, via generated DFA table, decide +kernel) "
            "+ regenerated table + model/implementation correspondence + Spec oracle on real outputs",
            "Proof: `C06_validate : forall bs, validateUtf8 bs = wellFormed bs` over the DFA table regenerated from "
            "_utils.py on every run; the final-state test of _validate_utf8 is a generated fact. Message-level clauses "
            "(fragmentation independence, validation off, close reasons) are tied by the correspondence/oracle runs over "
            "every string of length <= 2, boundary products, all prefixes of well-formed sequences and fragmentations.",
            "Not modelled: wsaccel fast path (absent).", "DESIGN.md §6 C06"),
}

PENDING_REASON = "not yet built in this session (work in progress, see DESIGN.md §8); no check is claimed until its theorem and correspondence exist"


def main():
    ids = [json.loads(l)["id"] for l in open(os.path.join(VERIF, "properties.jsonl"))]
    checks, na = [], []
    for pid in ids:
        if pid in CLAIMED:
            tech, text, note, ref = CLAIMED[pid]
            checks.append({
                "property_id": pid,
                "quick_cmd": f"./check {pid} --tier quick",
                "thorough_cmd": f"./check {pid} --tier thorough",
                "evidence_file": f"evidence/{pid}.json",
                "replay_cmd_template": f"./check {pid} --replay {{path}}",
                "engine": "lean-model",
                "level_claimed": {"category": "proof", "text": text, "design_ref": ref},
                "level_note": NOTE_COMMON + note,
                "technique": tech,
            })
        else:
            na.append({"property_id": pid, "reason": PENDING_REASON})
    m = {
        "version": 1,
        "setup_cmd": "./setup.sh",
        "hooks": {
            "guard": "WEBSOCKET_CLIENT_VERIF",
            "enable": "no source hooks: the harness substitutes transports/clocks/locks in the imported websocket modules from its own process; checks import /repo's working tree via sys.path",
            "baseline_off_cmd": "cd /repo && /venv/bin/python -m pytest -ra -q -p no:cacheprovider --timeout=900 --continue-on-collection-errors",
            "source_commits": [],
            "add_only": True,
        },
        "engines": [
            {"name": "lean-model", "path": "lean/", "serves_properties": sorted(CLAIMED),
             "kind_free_text": "Lean 4 model + Spec + theorems (lake project, no Mathlib in the model); compiled driver `wsdriver` speaks a line protocol"},
            {"name": "py-correspondence", "path": "harness/", "serves_properties": sorted(CLAIMED),
             "kind_free_text": "Python harness: AST translator for tables (extract.py), simulated transports, generators, differential comparison model vs real code, Spec oracle on real outputs"},
        ],
        "checks": checks,
        "not_applicable": na,
        "notes": "All checks: ./check Cxx --tier quick|thorough; seed from VERIF_SEED. Exit 2 = infrastructure failure (no VIOLATION line). known_findings.json lists recorded/fixed defects.",
    }
    with open(os.path.join(VERIF, "MANIFEST.json"), "w") as f:
        json.dump(m, f, indent=1)
    print(f"MANIFEST: {len(checks)} claimed, {len(na)} not_applicable")


if __name__ == "__main__":
    main()
