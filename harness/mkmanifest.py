#!/usr/bin/env python3
"""Regenerates /verif/MANIFEST.json from the table below (kept valid against the schema)."""
import json
import os

VERIF = os.path.dirname(os.path.dirname(os.path.abspath(__file__)))

NOTE_COMMON = ("Trusted: Lean 4.33.0 kernel (axioms propext, Classical.choice, Quot.sound only; audited each run; "
               "no sorry/native_decide/bv_decide/own axioms); the Spec files; harness/extract.py and the correspondence "
               "harness (model<->code agreement tested on generated inputs, not proved); CPython/OS semantics modelled. ")

# property -> (technique, level text, extra note, design section)
T_CORR = " + regenerated constants (extract.py) + model/implementation correspondence (compiled Lean driver vs real code on generated inputs) + Spec oracle on the real outputs"

CLAIMED = {
    "C01": ("Lean 4 theorems C01_wire (format output decodes to the requested frame, minimal length form, for all payloads/keys/opcodes) and C01_send (one key draw, that key on the wire, return value = bytes written, under every short-write pattern)" + T_CORR,
            "Proof: `C01_wire` — for every payload < 2^63 bytes, FIN in {0,1}, opcode in the generated table and 4-byte key, ABNF.format's "
            "output is read back by the RFC decoder as exactly that frame with MASK set, that key, the minimal length form, the payload, nothing "
            "left, and length = header+4+payload; masking = positional XOR and an involution; `C01_send`: one send draws exactly one key, the wire "
            "gains exactly that frame with that key, the return value is its length, for every short-write pattern. The default OS-randomness "
            "source, str payloads, trace on/off and API wrappers are tied by correspondence/oracle over every length "
            "0..300, 65400..65700 (thorough: 0..70000).", "Not modelled: latin-1 path for str payload with non-text opcode; non-ASCII str keys.", "DESIGN.md §6 C01"),
    "C02": ("Lean 4 theorems C02_decode / C02_stream (staged parser = RFC decoder over any chunking, exact consumption, any number of frames) + spec_decode_encode" + T_CORR,
            "Proof: `C02_decode` — from a cleared parser on a live connection, for every chunking of the pending bytes, if they start with a "
            "complete frame (any header byte, 7/16/64-bit length form minimal or not, masked or not) recv_frame returns exactly the RFC "
            "decoder's FIN/RSV/opcode/unmasked payload (or validate's protocol error) and leaves exactly the following bytes pending; "
            "`C02_stream` lifts it to any sequence of frames by induction; `spec_decode_encode` pins the decoder against the encoder for all "
            "frames. The model is tied to the real parser by correspondence on all 256 first bytes x length classes x masks and random "
            "multi-frame streams; the real outputs are judged by the same decoder.", "", "DESIGN.md §6 C02"),
    "C03": ("Lean 4 theorems C03_segmentation, C03_timeouts, C03_resume (outcomes depend only on the bytes: any chunking, a TIMEOUT at any byte position any number of times), C03d.C03_message_resume (timeout between the frames of a message), C03e.C03_nothing_parked" + T_CORR + " (metamorphic)",
            "Proof: `C03_recv_strict`/`C03_segmentation` (equal pending bytes, however split between buffer and chunks, give identical outcomes "
            "and identical pending bytes); `C03_timeouts` (after k calls that each raised TIMEOUT — inside header, extended length, mask key or "
            "payload — the stream from the start of the frame in progress, re-encoded from the stage fields ++ buffer ++ transport, is unchanged "
            "and the parser state consistent); `C03_resume` (the retried call returns exactly the frame the RFC decoder reads from the original "
            "bytes and leaves exactly the rest; uses `recvFrame_virt`: stage fields are a lossless encoding of the bytes consumed). The "
            "handshake/frames boundary and automatic replies under segmentation are held by correspondence on identical schedules and the "
            "metamorphic oracle on the real code.", "Not modelled: EAGAIN+select path, SSL 'timed out' message matching.", "DESIGN.md §6 C03"),
    "C04": ("Lean 4 theorems C04_reassembly and C04_messages (any sequence of messages, any fragmentation, interleaved control frames, concrete parser+transport model)" + T_CORR,
            "Proof: `C04_reassembly` — for every message (any number of fragments incl. empty ones, text/binary, any pings<=125/pongs before "
            "each fragment) over any chunking, one recv_data_frame() call returns it once with the first fragment's opcode and the in-order "
            "concatenation (or PAYLOAD for non-UTF-8 text), consumes exactly its frames and resets the reassembly state (so consecutive "
            "messages come in order: `C04_messages`, induction on the sequence). Per-fragment delivery (fire_cont_frame) is held by "
            "correspondence over every cut of short payloads into <= 4 fragments, control frames in every gap, and random lists.", "", "DESIGN.md §6 C04"),
    "C05": ("Lean 4 theorem C05_close_codes (code table = RFC ranges for every number)" + T_CORR,
            "Proof: `C05_close_codes` for every Nat (all 65536 wire values) over the generated tuple and range literals; C02_decode shows the "
            "frame handed to validate is the decoder's. Frame-level rejection (all 256 first bytes x length classes, close bodies of every "
            "UTF-8 class, every sequencing history to length 4/5 over {T0,T1,B0,B1,C0,C1,ping,pong}) is tied by correspondence and judged by "
            "Spec.frameLegal on the real outputs.", "", "DESIGN.md §6 C05"),
    "C06": ("Lean 4 theorems C06_validate (validator = Unicode Table 3-7 for all byte strings, via generated DFA table, decide +kernel) C06_message (delivery iff the reassembled payload is well-formed, any fragmentation) and C06_validate_scalars (accepted strings = concatenations of shortest-form encodings of scalar values: no overlongs, no surrogates, nothing above U+10FFFF, nothing cut short)" + T_CORR,
            "Proof: `C06_validate : forall bs, validateUtf8 bs = wellFormed bs` over the DFA table regenerated from "
            "_utils.py on every run; the final-state test of _validate_utf8 is a generated fact; C04_reassembly shows validity is judged on "
            "the reassembled payload. Message-level clauses (fragmentation independence, validation off, close reasons) are also tied by the "
            "correspondence/oracle runs over every string of length <= 2, boundary products, all prefixes of well-formed sequences.",
            "Not modelled: wsaccel fast path (absent).", "DESIGN.md §6 C06"),
    "C07": ("Lean 4 theorems C07_trace (writes = exactly the pongs of the pings, in order), C07_prompt (at pong time nothing beyond the ping has been taken from the transport) and C07_pong_bytes" + T_CORR,
            "Proof: `C07_trace` — along any message with pings/pongs at any position, over any chunking, the bytes the receive call writes are "
            "exactly one pong per ping, in ping order, nothing for pongs/data; `C07_pong_bytes` — each pong decodes to FIN=1/op 10/masked/same "
            "payload; `C07_prompt` — when the pong is written the client's buffer is empty and the transport still holds exactly the bytes after the ping (`recv_frame` never over-reads: WS.Lemmas.Exact). 'Before it reads any further' is additionally checked on the real read/write timeline of the simulated socket for every "
            "ping length 0..125, bursts, pings inside fragmented messages, byte-wise delivery.", "", "DESIGN.md §6 C07"),
    "C08": ("Lean 4 theorems C08_own_close_once (all call/event histories), C08_status_range_*, C08_inert_* (zero transport calls once released), C08_close_releases" + T_CORR,
            "Proof: `C08_own_close_once` — over every sequence of client calls and every server script, the close frames written by close() or "
            "the automatic reply (ghost counter) never exceed one and are zero while connected (invariant: both writers need connected, both "
            "clear it, nothing sets it again); out-of-range statuses refused with state untouched; once `sock is None` recv_frame / "
            "recv_data_frame / send make zero transport calls (WS.Lemmas.Released) and send raises CLOSED; close() on a connected object always "
            "ends in shutdown(). The time bound of close() and 'released after a loss' are held by correspondence/oracle over all call histories "
            "to length 3 (4) x 12 server scripts in virtual time + random histories to length 9.", "", "DESIGN.md §6 C08"),
    "C09": ("Lean 4 theorems C09_only_if / C09_failure_clean / C09_redirect_bound / C09_key_binding" + T_CORR,
            "Proof over every world (scripted dials, responses byte by byte with timeout/reset/EOF anywhere): connected only after a 101 with "
            "upgrade tokens, accept = acceptOf(key of that very request), offered subprotocol; at most limit+1 dials; any raise leaves the "
            "object unconnected with every transport closed.", "acceptOf (SHA-1+base64, written in Lean) is tested against hashlib on every run, not proved equal.", "DESIGN.md §6 C09"),
    "C10": ("Lean 4 theorems C10_request / C10_key / C10_one_write" + T_CORR,
            "Proof: the request text parses back (independent grammar) to exactly the expected request for all URL parts/options/jar contents "
            "without CR/LF; key = base64 of the 16 drawn bytes (round trip proved for all lengths); exactly one write before the first read. "
            "Oracle includes the independent `websockets` server.", "", "DESIGN.md §6 C10"),
    "C11": ("Lean 4 theorems C11_policy / C11_default / C11_only_own_check_* / C11_wrap_iff_wss / C11_before_data" + T_CORR,
            "Proof of the decision logic (policy = documented Spec for every sslopt/env/host) and of the ordering dial -> [CONNECT] -> wrap -> "
            "request over whole connect traces. That CPython/OpenSSL enforce verify_mode/check_hostname is trusted; thorough tier exercises "
            "loopback TLS servers with minted certificates.", "OpenSSL verification itself is not modelled.", "DESIGN.md §6 C11"),
    "C12": ("Lean 4 theorems C12_short_writes, C12_one_frame_per_send, C12_senders, C12b.C12_receivers, C12c.C12_programs, C12d.C12_glue_* (write loop over the real transport glue, would-block worlds) (all interleavings of any number of threads), generated lock-scope facts" + T_CORR + " (co-simulation under a baton scheduler)",
            "Proof: every short-write pattern puts exactly the frame on the wire; for any number of threads, frames, patterns and EVERY schedule "
            "the wire is whole frames in completion order (+ a prefix of the lock holder's frame), by an invariant preserved by every step; the "
            "lock scopes are generated facts. Real threads are co-simulated with the model on identical schedules (all schedules of length 9/11 "
            "for 2 threads, 6/8 for 3). Receivers: small-step model of concurrent recv() calls (C12_receivers: each message intact, in order, to exactly one call, every schedule); C12_programs: threads with whole programs of sends (a receiver answering pings is one of them); mixed real runs are replayed on the programs model.",
            "Lock acquire/release atomic; bytecode-level races inside a line not modelled.", "DESIGN.md §6 C12"),
    "C13": ("Lean 4 theorems C13_trace (callback trace = Spec trace for all legal histories, callback subsets, raising callbacks, plain/TLS), C13_open_first, C13_prompt, C13b.C13_keepalive_transparent (keepalive without a ping timeout changes nothing but its own events: projection commuting with every function of the model), C13b.C13_trace_keepalive" + T_CORR + " under a virtual-time baton scheduler (harness/simsched.py)",
            "Proof over the App model (run_forever, both built-in dispatchers, callbacks, close handshake): the ordered callback trace with "
            "ticks equals the Spec's for every history/gap/burst, every subset of callbacks and every raising plan; select returns at once when "
            "the next event has arrived. C13_trace/C13_open_first assume keepalive and reconnect off; C13_trace_keepalive lifts C13_trace to any ping interval without a ping timeout. The real "
            "run_forever runs under the scheduler on the same world/plan/schedule; traces must be identical; Spec predicates judge the real trace.",
            "The app consumes already-parsed events (byte level = C02-C07 layer); kernel/SSL buffering as simulated.", "DESIGN.md §6 C13"),
    "C14": ("Lean 4 theorems C14_once_last, C14_return_value, C14_clean, C14_rerun (all worlds/plans/schedules), C14_terminates, C14_close_args (one connection), C14e.C14_terminates_reconnecting (reconnecting runs over any mix of failed attempts and lost connections: returns, on_close last with the server's code and reason), C14_closing_is_not_an_error, C14b.C14_close_in_open_clean, C14_rerun_settings, C14c.C14_terminates_keepalive / C14_close_args_keepalive (keepalive without a ping timeout), C14d.C14_quiet_once_stopped (once keep_running is off every continuation of the run adds no dial and no error report)" + T_CORR + " incl. second-thread close at every executed line",
            "Proof: on_close once and last, return value, resources gone, re-run = first run, for every world, every callback plan (close / "
            "KeyboardInterrupt / raise anywhere) and schedule; termination and close arguments for one connection with legal traffic. "
            "Second-thread close (C14_async_close_safe) is NOT modelled: checked on real runs only (preemption at ticks and at every executed "
            "line). The former findings F13/F17 (close() inside on_open/on_reconnect; error reported after the application's own close; second-thread race in "
            "teardown) are repaired in /repo (fix: commits, known_findings.json `fixed`); no finding is open.", "", "DESIGN.md §6 C14"),
    "C15": ("Lean 4 theorems C15_resources (<=1 transport and <=1 ping thread at every prefix, fully general), C15_stops, C15_retry, C15_interval, C15c.C15_resumes (any mix of failed attempts and established-then-lost connections), C15b.C15_retry_keepalive, C14d.C15_no_attempt_after_close" + T_CORR,
            "Proof: resource bound for every world/plan/schedule; the reconnect loop does nothing once keep_running is cleared and a server "
            "close frame or close() clears it; retry skeleton and exact interval for failed first attempts followed by any number of failures; C15c.C15_resumes: any number of attempts that each fail OR are established, carry legal traffic and are lost (end of stream, reset, protocol / payload error), in any mix, then a connection the server closes: the exact network skeleton (sleep r starting at the tick of the loss, the transport a reset or refused frame left open released before the next dial, dial exactly r later, one connection at a time), return value True. "
            "The external dispatcher is not modelled (real runs + Spec only); the former findings F16 (exceptions under an external dispatcher) and F18 (close() from another thread during the reconnect delay was followed by one more connection attempt; /repo 8a1f51a, generated fact appReconnectGuard) are repaired in /repo.", "", "DESIGN.md §6 C15"),
    "C16": ("Lean 4 theorems C16_args (iff), C16_periodic, C16_no_false_positive (all arrival patterns/schedules), C16_detect (every accepted pair), C16b.C16_ping_payload (every ping of every run carries ping_payload), C16c.checkTorn_single / C16_single_read_* (check() reads the concurrently written stamp once: generated fact; = the modelled atomic predicate), C16c.C16_stamps_linearizable (the two guarded stamp writes commute with a preemption between test and assignment)" + T_CORR + " in virtual time, incl. the loop thread preempted at every line of check() at ping ticks",
            "Proof: argument validation exactly as documented and before connecting; pings at start+k*iv; a peer answering every ping within "
            "the timeout is never reported; a peer that stops answering is reported within (T+to, T+2*to] of the first unanswered ping T for "
            "every accepted pair; every PING written carries the configured payload (invariant through all functions of the App model). The "
            "former finding F12 (stamps overwritten by later pings / unsolicited pongs) is repaired in /repo (c89e1e8); its two counterexamples "
            "are re-executed on the repaired model. Former finding F19 (check() read last_ping_tm several times while the ping thread stamps it: a responsive peer reported when the loop thread is preempted inside check() at a ping tick) is repaired in /repo (7480a44; generated fact appCheckReadsPingOnce; C16c gives the torn-read model, its two counterexamples and the single-read theorems). The App/Keepalive models keep each thread atomic between blocking points; inside check()/the pong stamping this is justified by the single read, elsewhere it is exercised by real runs with line-level preemption only. Oracle-only scenario: ping thread descheduled right after a ping was written.", "", "DESIGN.md §6 C16"),
    "C17": ("Lean 4 theorems C17_frame_no_internal, C17_message_no_internal, C17_request_sizes (unconditional), C17_head_no_internal, C17b.C17_recv_no_internal, C17c.C17_glue_recv/_send (the _socket glue, exhaustive correspondence)" + T_CORR,
            "Proof: on arbitrary bytes in any chunking followed by eof/silence recv_frame returns a frame or PROTO/CLOSED/TIMEOUT, and "
            "recv_data_frame a value or PROTO/PAYLOAD/CLOSED/TIMEOUT/transport error — never an internal error, never out of fuel (each loop "
            "turn consumes >= 2 bytes or ends: progress); every size passed to the transport is <= 16384 for every state/script/declared "
            "length; head phase: read_headers/_get_resp_headers/handshake end only in documented exceptions and read 1 byte at a time (error "
            "body <= 16384). recv() with fire_cont_frame (a caller opt-in) is outside the quantifier — see DESIGN.md.", "", "DESIGN.md §6 C17"),
    "C18": ("Lean 4 theorems C18_parse/C18_reject/C18_total/C18_dial/C18_options/C18_dispatcher" + T_CORR,
            "Proof: parse_url = RFC 3986 split for every string of the modelled grammar, rejection of everything else with no network "
            "activity, address loop by induction on address lists of any length, socket options/timeout on every socket tried.",
            "urlparse/urlsplit modelled on an explicit ASCII alphabet only (driver answers `unmodelled` outside; oracle only there).", "DESIGN.md §6 C18"),
    "C19": ("Lean 4 theorems C19_exempt/C19_cidr/C19_domain/C19_decision/C19_connect_bytes/C19_gate/C19_order" + T_CORR,
            "Proof: exemption predicate for all hosts and lists (label-boundary suffix, CIDR arithmetic for every prefix 0..32), proxy "
            "decision from options/environment, CONNECT bytes parse back (base64 round trip proved), gate on status 200, ordering.",
            "inet_aton forms other than dotted-quad decimal are `unmodelled`; SOCKS proxies out of scope.", "DESIGN.md §6 C19"),
    "C20": ("Lean 4 theorem C20_refines (jar refines the domain-scoped store for all histories) + corollaries" + T_CORR,
            "Proof by induction on the history: the Cookie header is exactly the name-sorted covering entries, latest value winning, then "
            "the caller's cookie; cookies without Domain are dropped; confinement corollary.",
            "http.cookies.SimpleCookie's parser is not modelled (canonical Set-Cookie strings only).", "DESIGN.md §6 C20"),
}

PENDING_REASON = "not claimed"


def main():
    ids = [json.loads(l)["id"] for l in open(os.path.join(VERIF, "properties.jsonl"))]
    checks, na = [], []
    for pid in ids:
        if pid in CLAIMED:
            tech, text, note, ref = CLAIMED[pid]
            checks.append({
                "property_id": pid,
                "quick_cmd": f"./check {pid} --tier quick",
                "thorough_cmd": f"./check {pid} --tier thorough",
                "evidence_file": f"evidence/{pid}.json",
                "replay_cmd_template": f"./check {pid} --replay {{path}}",
                "engine": "lean-model",
                "level_claimed": {"category": "proof", "text": text, "design_ref": ref},
                "level_note": NOTE_COMMON + note,
                "technique": tech,
            })
        else:
            na.append({"property_id": pid, "reason": PENDING_REASON})
    m = {
        "version": 1,
        "setup_cmd": "./setup.sh",
        "hooks": {
            "guard": "WEBSOCKET_CLIENT_VERIF",
            "enable": "no source hooks: the harness substitutes transports/clocks/locks in the imported websocket modules from its own process; checks import /repo's working tree via sys.path",
            "baseline_off_cmd": "cd /repo && /venv/bin/python -m pytest -ra -q -p no:cacheprovider --timeout=900 --continue-on-collection-errors",
            "source_commits": [],
            "add_only": True,
        },
        "engines": [
            {"name": "lean-model", "path": "lean/", "serves_properties": sorted(CLAIMED),
             "kind_free_text": "Lean 4 model + Spec + theorems (lake project, no Mathlib in the model); compiled driver `wsdriver` speaks a line protocol"},
            {"name": "simsched", "path": "harness/simsched.py", "serves_properties": ["C13", "C14", "C15", "C16"],
             "kind_free_text": "deterministic virtual-time scheduler for the real WebSocketApp.run_forever (real threads under a baton, replayable schedules, line-level preemption)"},
            {"name": "py-correspondence", "path": "harness/", "serves_properties": sorted(CLAIMED),
             "kind_free_text": "Python harness: AST translator for tables (extract.py), simulated transports, generators, differential comparison model vs real code, Spec oracle on real outputs"},
        ],
        "checks": checks,
        "not_applicable": na,
        "notes": "All checks: ./check Cxx --tier quick|thorough; seed from VERIF_SEED. Exit 2 = infrastructure failure (no VIOLATION line). known_findings.json lists recorded/fixed defects.",
    }
    with open(os.path.join(VERIF, "MANIFEST.json"), "w") as f:
        json.dump(m, f, indent=1)
    print(f"MANIFEST: {len(checks)} claimed, {len(na)} not_applicable")


if __name__ == "__main__":
    main()
