#!/usr/bin/env python3
"""Regenerates /verif/MANIFEST.json from the table below (kept valid against the schema)."""
import json
import os

VERIF = os.path.dirname(os.path.dirname(os.path.abspath(__file__)))

NOTE_COMMON = ("Trusted: Lean 4.33.0 kernel (axioms propext, Classical.choice, Quot.sound only; audited each run; "
               "no sorry/native_decide/bv_decide/own axioms); the Spec files; harness/extract.py and the correspondence "
               "harness (model<->code agreement tested on generated inputs, not proved); CPython/OS semantics modelled. ")

# property -> (technique, level text, extra note, design section)
T_CORR = " + regenerated constants (extract.py) + model/implementation correspondence (compiled Lean driver vs real code on generated inputs) + Spec oracle on the real outputs"

CLAIMED = {
    "C01": ("Lean 4 theorem C01_wire (format output decodes to the requested frame, minimal length form, for all payloads/keys/opcodes)" + T_CORR,
            "Proof: `C01_wire` — for every payload < 2^63 bytes, FIN in {0,1}, opcode in the generated table and 4-byte key, ABNF.format's "
            "output is read back by the RFC decoder as exactly that frame with MASK set, that key, the minimal length form, the payload, nothing "
            "left, and length = header+4+payload; masking = positional XOR and an involution. Key drawn once per frame, return value, short "
            "writes, str payloads, trace on/off and API wrappers are tied by correspondence/oracle over every length 0..300, 65400..65700 "
            "(thorough: 0..70000).", "Not modelled: latin-1 path for str payload with non-text opcode; non-ASCII str keys.", "DESIGN.md §6 C01"),
    "C02": ("Lean 4 theorem spec_decode_encode (RFC decoder inverts RFC encoder for every header/length form/mask, exact rest)" + T_CORR,
            "Proof: the Spec decoder is proved to invert the encoder for all frames (so 'what an independent decoder extracts' is pinned for "
            "every frame); the staged parser model (frame_buffer) is tied to the real parser by correspondence on all 256 first bytes x "
            "length classes x masks and random multi-frame streams, and the real outputs are judged by that decoder. The refinement "
            "model-parser = Spec decoder is work in progress (WS.Lemmas.RecvStrict).", "", "DESIGN.md §6 C02"),
    "C03": ("model/implementation correspondence on identical schedules + metamorphic Spec oracle on the real code; Lean lemmas on recv_strict (in progress)",
            "Currently: correspondence of the resumable parser model with the real code on every partition of short streams, a timeout at "
            "every byte position (x1, x2), random schedules, and frames glued to the 101 response; metamorphic oracle on the real outputs. "
            "Lean: resumption lemmas for recv_strict/recv_frame are being proved; until then this check is correspondence-level for the "
            "segmentation clause.", "Not modelled: EAGAIN+select path, SSL 'timed out' message matching.", "DESIGN.md §6 C03"),
    "C04": ("model/implementation correspondence + Spec oracle; Lean lemma on continuous_frame.add (reassembly theorem in progress)",
            "Correspondence of the recv_data_frame loop model with the real code over every cut of short payloads into <= 4 fragments "
            "(empty ones included), text/binary, control frames in every gap, multi-message lists, fire_cont_frame and skip_utf8 on/off; "
            "oracle = concatenation in order with the first fragment's opcode. Lean reassembly theorem in progress.", "", "DESIGN.md §6 C04"),
    "C05": ("Lean 4 theorem C05_close_codes (code table = RFC ranges for every number)" + T_CORR,
            "Proof: `C05_close_codes` for every Nat (all 65536 wire values) over the generated tuple and range literals. Frame-level rejection "
            "(all 256 first bytes x length classes, close bodies of every UTF-8 class, every sequencing history to length 4/5 over "
            "{T0,T1,B0,B1,C0,C1,ping,pong}) is tied by correspondence and judged by Spec.frameLegal on the real outputs.", "", "DESIGN.md §6 C05"),
    "C06": ("Lean 4 theorem (validator = Unicode Table 3-7 for all byte strings, via generated DFA table, decide +kernel)" + T_CORR,
            "Proof: `C06_validate : forall bs, validateUtf8 bs = wellFormed bs` over the DFA table regenerated from "
            "_utils.py on every run; the final-state test of _validate_utf8 is a generated fact. Message-level clauses "
            "(fragmentation independence, validation off, close reasons) are tied by the correspondence/oracle runs over "
            "every string of length <= 2, boundary products, all prefixes of well-formed sequences and fragmentations.",
            "Not modelled: wsaccel fast path (absent).", "DESIGN.md §6 C06"),
    "C07": ("Lean 4 theorem C07_pong_bytes (pong frame decodes to FIN=1/op 10/masked/same payload for all payloads <= 125, all keys)" + T_CORR,
            "Proof of the bytes of every pong; the ordering discipline (pong immediately after the ping, before any further read, nothing "
            "written for pongs/data) is checked on the real read/write timeline of the simulated socket for every ping length 0..125, bursts, "
            "pings inside fragmented messages, byte-wise delivery; trace theorem in progress.", "", "DESIGN.md §6 C07"),
    "C18": ("Lean 4 theorems C18_parse/C18_reject/C18_total/C18_dial/C18_options/C18_dispatcher" + T_CORR,
            "Proof: parse_url = RFC 3986 split for every string of the modelled grammar, rejection of everything else with no network "
            "activity, address loop by induction on address lists of any length, socket options/timeout on every socket tried.",
            "urlparse/urlsplit modelled on an explicit ASCII alphabet only (driver answers `unmodelled` outside; oracle only there).", "DESIGN.md §6 C18"),
    "C19": ("Lean 4 theorems C19_exempt/C19_cidr/C19_domain/C19_decision/C19_connect_bytes/C19_gate/C19_order" + T_CORR,
            "Proof: exemption predicate for all hosts and lists (label-boundary suffix, CIDR arithmetic for every prefix 0..32), proxy "
            "decision from options/environment, CONNECT bytes parse back (base64 round trip proved), gate on status 200, ordering.",
            "inet_aton forms other than dotted-quad decimal are `unmodelled`; SOCKS proxies out of scope.", "DESIGN.md §6 C19"),
    "C20": ("Lean 4 theorem C20_refines (jar refines the domain-scoped store for all histories) + corollaries" + T_CORR,
            "Proof by induction on the history: the Cookie header is exactly the name-sorted covering entries, latest value winning, then "
            "the caller's cookie; cookies without Domain are dropped; confinement corollary.",
            "http.cookies.SimpleCookie's parser is not modelled (canonical Set-Cookie strings only).", "DESIGN.md §6 C20"),
}

PENDING_REASON = "not yet built in this session (work in progress, see DESIGN.md §8); no check is claimed until its theorem and correspondence exist"


def main():
    ids = [json.loads(l)["id"] for l in open(os.path.join(VERIF, "properties.jsonl"))]
    checks, na = [], []
    for pid in ids:
        if pid in CLAIMED:
            tech, text, note, ref = CLAIMED[pid]
            checks.append({
                "property_id": pid,
                "quick_cmd": f"./check {pid} --tier quick",
                "thorough_cmd": f"./check {pid} --tier thorough",
                "evidence_file": f"evidence/{pid}.json",
                "replay_cmd_template": f"./check {pid} --replay {{path}}",
                "engine": "lean-model",
                "level_claimed": {"category": "proof", "text": text, "design_ref": ref},
                "level_note": NOTE_COMMON + note,
                "technique": tech,
            })
        else:
            na.append({"property_id": pid, "reason": PENDING_REASON})
    m = {
        "version": 1,
        "setup_cmd": "./setup.sh",
        "hooks": {
            "guard": "WEBSOCKET_CLIENT_VERIF",
            "enable": "no source hooks: the harness substitutes transports/clocks/locks in the imported websocket modules from its own process; checks import /repo's working tree via sys.path",
            "baseline_off_cmd": "cd /repo && /venv/bin/python -m pytest -ra -q -p no:cacheprovider --timeout=900 --continue-on-collection-errors",
            "source_commits": [],
            "add_only": True,
        },
        "engines": [
            {"name": "lean-model", "path": "lean/", "serves_properties": sorted(CLAIMED),
             "kind_free_text": "Lean 4 model + Spec + theorems (lake project, no Mathlib in the model); compiled driver `wsdriver` speaks a line protocol"},
            {"name": "py-correspondence", "path": "harness/", "serves_properties": sorted(CLAIMED),
             "kind_free_text": "Python harness: AST translator for tables (extract.py), simulated transports, generators, differential comparison model vs real code, Spec oracle on real outputs"},
        ],
        "checks": checks,
        "not_applicable": na,
        "notes": "All checks: ./check Cxx --tier quick|thorough; seed from VERIF_SEED. Exit 2 = infrastructure failure (no VIOLATION line). known_findings.json lists recorded/fixed defects.",
    }
    with open(os.path.join(VERIF, "MANIFEST.json"), "w") as f:
        json.dump(m, f, indent=1)
    print(f"MANIFEST: {len(checks)} claimed, {len(na)} not_applicable")


if __name__ == "__main__":
    main()
