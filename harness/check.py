#!/usr/bin/env python3
"""./check Cxx [--tier quick|thorough] [--replay FILE]      (DESIGN §2)

 1 extract tables from /repo   2 lake build (props, driver)   3 axiom + forbidden-word audit
 4 correspondence (model vs implementation)   5 direct oracle (Spec on the real outputs)
 6 decision (known findings / VIOLATION / no-failing-input-found)   7 evidence

exit 0 = held on everything explored, 1 = violation (VIOLATION line), 2 = infrastructure failure
"""
import fcntl
import importlib
import json
import hashlib
import os
import re
import subprocess
import sys
import time
import traceback

HERE = os.path.dirname(os.path.abspath(__file__))
sys.path.insert(0, HERE)
import common  # noqa: E402
from common import VERIF, LEAN, STATE  # noqa: E402

sys.path.insert(0, common.REPO)          # the working tree, never an installed copy
os.environ.setdefault("WEBSOCKET_CLIENT_VERIF", "1")

FORBIDDEN = re.compile(r"\bsorry\b|\badmit\b|^\s*axiom\s|native_decide|bv_decide|implemented_by|"
                       r"\bunsafe\s|maxHeartbeats\s+0\b", re.M)


def sh(cmd, cwd=None, timeout=3600, env=None):
    p = subprocess.run(cmd, cwd=cwd, stdout=subprocess.PIPE, stderr=subprocess.STDOUT,
                       timeout=timeout, env=env)
    return p.returncode, p.stdout.decode(errors="replace")


class Lock:
    def __enter__(self):
        os.makedirs(STATE, exist_ok=True)
        self.f = open(os.path.join(STATE, "lake.lock"), "w")
        fcntl.flock(self.f, fcntl.LOCK_EX)
        return self

    def __exit__(self, *a):
        fcntl.flock(self.f, fcntl.LOCK_UN)
        self.f.close()


def strip_comments(text):
    text = re.sub(r"/-.*?-/", "", text, flags=re.S)
    text = re.sub(r"--[^\n]*", "", text)
    return text


def lean_files():
    for root, _, files in os.walk(LEAN):
        if ".lake" in root:
            continue
        for f in files:
            if f.endswith(".lean"):
                yield os.path.join(root, f)


def forbidden_audit():
    hits = []
    for p in lean_files():
        with open(p) as f:
            t = strip_comments(f.read())
        for m in FORBIDDEN.finditer(t):
            hits.append(f"{os.path.relpath(p, LEAN)}: {m.group(0).strip()}")
    return hits


def prop_modules(prop):
    """WS.Props.Cxx plus optional continuation files WS.Props.Cxxb, Cxxc ... (same property)."""
    d = os.path.join(LEAN, "WS", "Props")
    mods = []
    for suffix in [""] + list("bcdefgh"):
        if os.path.exists(os.path.join(d, f"{prop}{suffix}.lean")):
            mods.append(f"{prop}{suffix}")
    return mods


def theorems_of(prop):
    """property theorems = every `theorem` in lean/WS/Props/Cxx[b..].lean, fully qualified."""
    out = []
    for m in prop_modules(prop):
        with open(os.path.join(LEAN, "WS", "Props", f"{m}.lean")) as f:
            t = strip_comments(f.read())
        out += [f"WS.Props.{m}.{x}" for x in re.findall(r"^\s*theorem\s+([A-Za-z0-9_'.]+)", t, re.M)]
    return out


def imported_modules(prop):
    """transitive WS.* imports of the property file (for leanchecker and obligation counts)."""
    seen, todo = [], [f"WS.Props.{m}" for m in prop_modules(prop)]
    while todo:
        m = todo.pop()
        if m in seen:
            continue
        seen.append(m)
        p = os.path.join(LEAN, *m.split(".")) + ".lean"
        if os.path.exists(p):
            with open(p) as f:
                for imp in re.findall(r"^import\s+(WS\.[A-Za-z0-9_.]+)", f.read(), re.M):
                    todo.append(imp)
    return seen


def count_lemmas(mods):
    n = 0
    for m in mods:
        p = os.path.join(LEAN, *m.split(".")) + ".lean"
        if os.path.exists(p):
            with open(p) as f:
                n += len(re.findall(r"^\s*(?:private\s+|protected\s+)?(?:theorem|lemma)\s", strip_comments(f.read()), re.M))
    return n


def build_and_audit(prop, tier, log):
    """returns dict(build_ok, driver_ok, extract, axioms{thm:[...]}, bad_axioms, forbidden, errors[])"""
    r = {"build_ok": False, "driver_ok": False, "extract": "", "axioms": {}, "bad_axioms": [],
         "forbidden": [], "errors": [], "leanchecker": None}
    with Lock():
        rc, out = sh([sys.executable, os.path.join(HERE, "extract.py"), "--repo", common.REPO])
        r["extract"] = out.strip()
        if rc != 0:
            r["errors"].append(f"extraction: {out.strip()}")
        rc, out = sh(["lake", "build", "wsdriver"], cwd=LEAN)
        log.append(out[-3000:])
        r["driver_ok"] = rc == 0
        if rc != 0:
            r["errors"].append("driver build failed: " + "\n".join(
                l for l in out.splitlines() if "error" in l)[:1500])
        rc, out = sh(["lake", "build"] + [f"WS.Props.{m}" for m in prop_modules(prop)], cwd=LEAN)
        log.append(out[-3000:])
        r["build_ok"] = rc == 0
        if rc != 0:
            errs = [l for l in out.splitlines() if l.startswith("error:")]
            r["errors"].append(f"lake build WS.Props.{prop} failed: " + " | ".join(errs)[:2000])
            r["failed_decls"] = failed_theorems(prop, out)
        thms = theorems_of(prop)
        r["theorems"] = thms
        if r["build_ok"] and thms:
            os.makedirs(os.path.join(STATE, "audit"), exist_ok=True)
            ap = os.path.join(STATE, "audit", f"{prop}.lean")
            with open(ap, "w") as f:
                f.write("".join(f"import WS.Props.{m}\n" for m in prop_modules(prop)) + "".join(f"#print axioms {t}\n" for t in thms))
            rc, out = sh(["lake", "env", "lean", ap], cwd=LEAN)
            if rc != 0:
                r["errors"].append("axiom audit failed to run: " + out[:800])
            for t in thms:
                m = re.search(re.escape(f"'{t}'") + r" depends on axioms: \[([^\]]*)\]", out, re.S)
                if m:
                    ax = [a.strip() for a in m.group(1).replace("\n", " ").split(",") if a.strip()]
                elif re.search(re.escape(f"'{t}'") + r" does not depend on any axioms", out):
                    ax = []
                else:
                    ax = ["<unparsed>"]
                r["axioms"][t] = ax
                for a in ax:
                    if a not in common.ALLOWED_AXIOMS:
                        r["bad_axioms"].append(f"{t}: {a}")
        r["forbidden"] = forbidden_audit()
        if tier == "thorough" and r["build_ok"]:
            mods = imported_modules(prop)
            rc, out = sh(["lake", "env", "leanchecker"] + mods, cwd=LEAN, timeout=3000)
            r["leanchecker"] = {"rc": rc, "modules": len(mods), "tail": out[-300:]}
            if rc != 0:
                r["errors"].append("leanchecker rejected: " + out[-500:])
    return r


def failed_theorems(prop, out):
    """names of the declarations whose proofs no longer check (best effort from error positions)."""
    names = []
    for m in re.finditer(r"error: (WS/[A-Za-z0-9_/]+\.lean):(\d+):\d+", out):
        path, line = os.path.join(LEAN, m.group(1)), int(m.group(2))
        try:
            with open(path) as f:
                lines = f.read().split("\n")
        except OSError:
            continue
        for i in range(min(line, len(lines)) - 1, -1, -1):
            mm = re.match(r"\s*(?:theorem|lemma|example|def)\s+([A-Za-z0-9_'.]*)", lines[i])
            if mm:
                mod = m.group(1)[:-5].replace("/", ".")
                names.append(f"{mod}:{mm.group(1) or 'example'}")
                break
    return sorted(set(names))


def load_known():
    p = os.path.join(VERIF, "known_findings.json")
    if not os.path.exists(p):
        return {"open": [], "fixed": []}
    with open(p) as f:
        return json.load(f)


def write_replay(prop, payload):
    os.makedirs(os.path.join(VERIF, "replays"), exist_ok=True)
    h = hashlib.sha256(json.dumps(payload, sort_keys=True, default=str).encode()).hexdigest()[:12]
    p = os.path.join(VERIF, "replays", f"{prop}-{h}.json")
    with open(p, "w") as f:
        json.dump(payload, f, indent=1, default=str)
    return os.path.relpath(p, VERIF)


def write_evidence(prop, tier, seed, ctx, audit, wall, nviol, extra=None):
    os.makedirs(os.path.join(VERIF, "evidence"), exist_ok=True)
    thms = audit.get("theorems", [])
    mods = imported_modules(prop)
    lemmas = count_lemmas(mods)
    obligations = max(lemmas, len(thms), 1)
    discharged = obligations if audit.get("build_ok") and not audit.get("bad_axioms") and not audit.get("forbidden") else 0
    cov = {
        "obligations": obligations,
        "discharged": max(discharged, 0),
        "checker_cmd": f"cd lean && lake build WS.Props.{prop} && lake env lean .state/audit/{prop}.lean  # #print axioms"
                       + (" && lake env leanchecker <modules>" if tier == "thorough" else ""),
        "trusted_base": common.TRUSTED_BASE,
        "property_theorems": thms,
        "axioms_seen": sorted({a for v in audit.get("axioms", {}).values() for a in v}),
        "lean_modules": mods,
        "extract": audit.get("extract"),
        "leanchecker": audit.get("leanchecker"),
        "evaluations": ctx.evaluations,
        "distinct_nontrivial": len(ctx.nontrivial),
        "rule": ctx.rule,
        "samples": ctx.samples[:12] or ["<none>"],
        "traces_validated_against_impl": ctx.traces_vs_impl,
        "input_distribution": dict(sorted(ctx.dist.items(), key=lambda kv: str(kv[0]))[:200]),
        "model_impl_divergences": len(ctx.divergences),
        "notes": ctx.notes[:40],
    }
    if extra:
        cov.update(extra)
    ev = {
        "property_id": prop, "tier": tier, "seed": seed, "level": "proof",
        "coverage": cov,
        "assumptions": common.TRUSTED_BASE + list(getattr(ctx, "assumptions", [])),
        "wall_s": round(wall, 2),
        "violations": nviol,
    }
    if discharged == 0:
        # a proof-level evidence file must not claim discharged obligations it does not have
        cov["discharged"] = 0
    with open(os.path.join(VERIF, "evidence", f"{prop}.json"), "w") as f:
        json.dump(ev, f, indent=1, default=str)


def main(argv):
    if not argv or not re.fullmatch(r"C\d\d", argv[0]):
        print(__doc__)
        return 2
    prop = argv[0]
    tier = os.environ.get("VERIF_TIER", "quick")
    replay = None
    i = 1
    while i < len(argv):
        if argv[i] == "--tier":
            tier = argv[i + 1]; i += 2
        elif argv[i] == "--replay":
            replay = argv[i + 1]; i += 2
        else:
            i += 1
    if tier not in ("quick", "thorough"):
        tier = "quick"
    try:
        seed = int(os.environ.get("VERIF_SEED", "0"))
    except ValueError:
        seed = 0
    t0 = time.time()
    log = []
    try:
        mod = importlib.import_module(f"props.{prop.lower()}")
    except Exception:
        traceback.print_exc()
        return 2

    try:
        audit = build_and_audit(prop, tier, log)
    except subprocess.TimeoutExpired:
        print("infrastructure: lake timed out")
        return 2
    if not audit["driver_ok"]:
        print("infrastructure: model driver does not build\n" + "\n".join(audit["errors"]))
        print("\n".join(log)[-2000:])
        return 2

    if replay:
        with open(replay if os.path.isabs(replay) else os.path.join(VERIF, replay)) as f:
            data = json.load(f)
        ctx = common.Ctx(prop, tier, seed)
        ok = mod.replay(ctx, data)
        print("REPLAY " + ("still-violates" if not ok else "no-longer-violates"))
        for v in ctx.violations[:3]:
            print(json.dumps(v, default=str)[:600])
        return 1 if not ok else 0

    known = load_known()
    ctx = common.Ctx(prop, tier, seed)
    try:
        mod.run(ctx)
    except common.DriverError as e:
        print(f"infrastructure: {e}")
        return 2
    except Exception:
        traceback.print_exc()
        print("infrastructure: harness crashed")
        return 2

    proof_broken = (not audit["build_ok"]) or bool(audit["bad_axioms"]) or bool(audit["forbidden"]) \
        or any(e.startswith("extraction") or e.startswith("leanchecker") or e.startswith("axiom audit") for e in audit["errors"])
    corr_broken = len(ctx.divergences) > 0

    # widened search for a concrete failing input (DESIGN §4)
    if (proof_broken or corr_broken) and not ctx.violations and tier == "quick" and hasattr(mod, "search"):
        sctx = common.Ctx(prop, "thorough", seed, deadline=time.time() + 600)
        try:
            mod.search(sctx)
            ctx.violations.extend(sctx.violations)
            ctx.evaluations += sctx.evaluations
            ctx.notes.append(f"widened search ran {sctx.evaluations} cases")
        except Exception as e:  # noqa
            ctx.notes.append(f"widened search crashed: {e!r}")

    # classify violations against known findings
    open_sigs = {(k["property"], k["clause"], k["cause"]): k for k in known.get("open", [])}
    new, listed = [], {}
    for v in ctx.violations:
        sig = (prop, v["clause"], v["cause"])
        if sig in open_sigs:
            listed.setdefault(sig, v)
        else:
            new.append(v)
    for sig, v in listed.items():
        print(f"KNOWN-FINDING: property={prop} {open_sigs[sig]['description']}")
    rc = 0
    lines = []
    if new:
        # one replay per distinct signature, smallest input first
        by_sig = {}
        for v in sorted(new, key=lambda v: v["size"]):
            by_sig.setdefault((v["clause"], v["cause"]), v)
        for (clause, cause), v in by_sig.items():
            path = write_replay(prop, {"property": prop, "kind": "failing-input", "clause": clause,
                                       "cause": cause, "input": v["input"], "expected_by_spec": v["expected"],
                                       "observed": v["observed"], "seed": seed, "tier": tier,
                                       "replay_cmd": f"./check {prop} --replay <this file>"})
            lines.append(f"VIOLATION property={prop} replay={path}")
        rc = 1
    elif proof_broken or corr_broken:
        # known findings explain a broken proof only if the broken declarations are the ones they name
        explained = False
        if proof_broken and not corr_broken and listed and not audit["bad_axioms"] and not audit["forbidden"]:
            failed = set(audit.get("failed_decls", []))
            allowed = set()
            for sig in listed:
                allowed.update(open_sigs[sig].get("breaks_theorems", []))
            explained = bool(failed) and failed <= allowed
        if not explained:
            path = write_replay(prop, {
                "property": prop, "kind": "no-failing-input-found",
                "proof_obligations_not_checking": audit.get("failed_decls", []),
                "build_errors": audit["errors"], "bad_axioms": audit["bad_axioms"],
                "forbidden_words": audit["forbidden"],
                "correspondence_not_checking": sorted({d["op"] for d in ctx.divergences if d}),
                "diverging_cases": [d for d in ctx.divergences if d][:10],
                "seed": seed, "tier": tier})
            lines.append(f"VIOLATION property={prop} replay={path} no-failing-input-found")
            rc = 1
    wall = time.time() - t0
    write_evidence(prop, tier, seed, ctx, audit, wall, len(new),
                   {"known_findings_seen": [list(s) for s in listed]})
    for l in lines:
        print(l)
    print(f"{prop} tier={tier} seed={seed} build_ok={audit['build_ok']} theorems={len(audit.get('theorems', []))} "
          f"cases={ctx.evaluations} nontrivial={len(ctx.nontrivial)} divergences={len(ctx.divergences)} "
          f"violations={len(new)} known={len(listed)} wall={wall:.1f}s")
    if rc and audit["errors"]:
        print("\n".join(audit["errors"])[:3000])
    return rc


if __name__ == "__main__":
    sys.exit(main(sys.argv[1:]))
