"""Simulated transport for the correspondence runs (DESIGN §3.2).

SimSocket is a scripted peer: a list of incoming events
    ("chunk", bytes) | ("timeout",) | ("eof",) | ("reset",)
consumed by recv(); when the script is exhausted recv() behaves like `tail`
("eof" = returns b"" forever, "timeout" = raises socket.timeout forever).
Writes are accepted according to a short-write pattern and logged.  Every call is
logged on one timeline so that read/write order can be checked.
"""
import socket


class Spin(BaseException):
    """raised by the simulated socket when a caller keeps reading an ended stream (progress watchdog,
    counted in virtual steps, no wall clock)."""


class Stuck(BaseException):
    """raised INTO a library call that has not returned after STUCK_S seconds of WALL time although every simulated
    transport call returns at once (a thread waiting for a lock it holds itself, say): the harness's own watchdog."""


STUCK_S = 4.0
_stuck_seen = 0


class stuck_guard:
    """`with stuck_guard():` around one library call — main thread of the process only (signals); elsewhere a no-op."""

    def __enter__(self):
        import signal
        import threading
        self.on = threading.current_thread() is threading.main_thread()
        if self.on:
            def h(sig, frm):
                global _stuck_seen
                _stuck_seen += 1
                raise Stuck()
            self.old = signal.signal(signal.SIGALRM, h)
            # (after a few calls that never returned the point is made: the rest of the run waits less for each)
            signal.setitimer(signal.ITIMER_REAL, STUCK_S if _stuck_seen < 2 else 0.05)
        return self

    def __exit__(self, *a):
        if self.on:
            import signal
            signal.setitimer(signal.ITIMER_REAL, 0)
            signal.signal(signal.SIGALRM, self.old)
        return False


class Deadline(BaseException):
    """a deadline / cancellation raised INTO the running call by the caller's framework (not an Exception)."""


class SimSocket:
    SPIN_LIMIT = 2000

    def __init__(self, events=(), tail="eof", accepts=None, send_fail_after=None, eagain=None):
        self.events = [tuple(e) for e in events]
        self.tail = tail
        self.accepts = list(accepts) if accepts else None   # short-write pattern (cyclic)
        self.acc_i = 0
        self.send_fail_after = send_fail_after             # raise on the n-th send call (0-based)
        self.eagain = set(eagain or ())                    # send calls (0-based) that find the send buffer full: EAGAIN
        self.log = []            # ("recv", n, result) / ("send", data, accepted) / ("close",) ...
        self.sent = bytearray()
        self.recv_sizes = []
        self.closed = False
        self.shutdown_called = False
        self.timeout = None
        self.timeout_history = []
        self.sockopts = []
        self.send_calls = 0
        self.close_calls = 0
        self.consumed = 0        # bytes handed to the client
        self.empty_reads = 0     # consecutive end-of-stream reads (progress watchdog)
        self.clock = 0           # virtual milliseconds
        self.calls = 0           # transport calls of any kind (recv, send, close, shutdown)
        self.step_recvs = []     # number of recv calls so far, recorded by session.run_impl after every step

    def _no_data(self):
        """what a real socket raises when nothing arrives: socket.timeout after the timeout, or — on a NON-BLOCKING
        socket (timeout 0) — BlockingIOError(EAGAIN) at once."""
        if self.timeout == 0:
            import errno
            return BlockingIOError(errno.EAGAIN, "Resource temporarily unavailable")
        return socket.timeout("timed out")

    def timeout_ms(self):
        return None if self.timeout is None else int(round(self.timeout * 1000))

    # --- socket API used by websocket-client
    def gettimeout(self):
        return self.timeout

    def settimeout(self, t):
        self.timeout = t
        self.timeout_history.append(t)

    def setsockopt(self, *a):
        self.sockopts.append(a)

    def fileno(self):
        return 99

    def pending(self):
        return 0

    def readable(self):
        """what select() would say: data, end of stream or a reset is there."""
        if self.closed:
            return False
        evs = [e for e in self.events if not (e[0] == "chunk" and not e[1])]
        if not evs:
            return self.tail == "eof"
        return evs[0][0] in ("chunk", "eof", "reset")

    def recv(self, n):
        if self.closed:
            self.calls += 1
            self.recv_sizes.append(n)
            self.log.append(("recv", n, "EBADF"))
            raise OSError(9, "Bad file descriptor")
        while self.events:
            ev = self.events[0]
            if ev[0] == "chunk" and not ev[1]:
                self.events.pop(0)
            elif ev[0] == "wait":
                t = self.timeout_ms()
                if t is not None and ev[1] >= t:
                    if ev[1] - t == 0:
                        self.events.pop(0)
                    else:
                        self.events[0] = ("wait", ev[1] - t)
                    self.calls += 1
                    self.recv_sizes.append(n)
                    self.clock += t
                    self.log.append(("recv", n, "timeout"))
                    raise self._no_data()
                self.clock += ev[1]
                self.events.pop(0)
            else:
                break
        self.calls += 1
        self.recv_sizes.append(n)
        if not self.events:
            if self.tail == "timeout":
                self.clock += self.timeout_ms() or 0
                self.log.append(("recv", n, "timeout"))
                raise self._no_data()
            self.log.append(("recv", n, b""))
            self.empty_reads += 1
            if self.empty_reads > self.SPIN_LIMIT:
                raise Spin(f"{self.empty_reads} reads of an ended stream")
            return b""
        ev = self.events[0]
        if ev[0] == "chunk":
            data = ev[1][:n]
            rest = ev[1][n:]
            if rest:
                self.events[0] = ("chunk", rest)
            else:
                self.events.pop(0)
            self.consumed += len(data)
            self.log.append(("recv", n, bytes(data)))
            return bytes(data)
        self.events.pop(0)
        if ev[0] == "timeout":
            self.clock += self.timeout_ms() or 0
            self.log.append(("recv", n, "timeout"))
            raise self._no_data()
        if ev[0] == "eof":
            self.events = []
            self.tail = "eof"
            self.log.append(("recv", n, b""))
            return b""
        if ev[0] == "reset":
            self.events = []
            self.tail = "eof"
            self.log.append(("recv", n, "reset"))
            raise ConnectionResetError(104, "Connection reset by peer")
        if ev[0] == "wantread":
            import ssl as _ssl
            self.log.append(("recv", n, "want-read"))
            self.calls -= 1             # (not a transport call of the model's world: the read is simply made again)
            self.recv_sizes.pop()
            raise _ssl.SSLWantReadError(_ssl.SSL_ERROR_WANT_READ, "The operation did not complete (read)")
        if ev[0] == "interrupt":
            # the caller's own interruption lands in this read: KeyboardInterrupt / SystemExit / a BaseException of a
            # green-thread or deadline library (gevent.Timeout, asyncio.CancelledError are BaseExceptions)
            self.log.append(("recv", n, "interrupt:" + ev[1]))
            raise {"ki": KeyboardInterrupt, "exit": SystemExit, "deadline": Deadline}[ev[1]]()
        raise AssertionError(ev)

    def send(self, data):
        i = self.send_calls
        self.send_calls += 1
        self.calls += 1
        if self.closed:
            self.log.append(("send", bytes(data), "EBADF"))
            raise OSError(9, "Bad file descriptor")
        if i in self.eagain:
            import errno
            self.log.append(("send", b"", "EAGAIN"))
            raise BlockingIOError(errno.EAGAIN, "Resource temporarily unavailable")
        if self.send_fail_after is not None and i >= self.send_fail_after:
            self.log.append(("send", bytes(data), "EPIPE"))
            raise BrokenPipeError(32, "Broken pipe")
        n = len(data)
        if self.accepts:
            a = self.accepts[self.acc_i % len(self.accepts)]
            self.acc_i += 1
            # (a pattern entry 0 = this write accepts nothing; entries are otherwise clamped to 1..len)
            n = (0 if a == 0 else max(1, min(n, a))) if len(data) else 0
        self.sent += data[:n]
        self.log.append(("send", bytes(data[:n]), n))
        return n

    def sendall(self, data):
        self.send(data)

    def shutdown(self, how):
        self.calls += 1
        self.shutdown_called = True
        self.log.append(("shutdown", how))

    def close(self):
        self.calls += 1
        self.close_calls += 1
        self.closed = True
        self.log.append(("close",))

    # --- helpers for the harness
    def writes(self):
        return [e for e in self.log if e[0] == "send"]


_XOR = [bytes(x ^ k for x in range(256)) for k in range(256)]


def srv_frame(opcode, payload=b"", fin=1, rsv=0, mask=None, lenform=None):
    """encode a server->client frame. lenform in {None(minimal),7,16,64}; mask = 4-byte key or None."""
    n = len(payload)
    b0 = (fin << 7) | (rsv << 4) | opcode
    if lenform is None:
        lenform = 7 if n <= 125 else (16 if n <= 0xFFFF else 64)
    mbit = 0x80 if mask is not None else 0
    if lenform == 7:
        hdr = bytes([b0, mbit | n])
    elif lenform == 16:
        hdr = bytes([b0, mbit | 126]) + n.to_bytes(2, "big")
    else:
        hdr = bytes([b0, mbit | 127]) + n.to_bytes(8, "big")
    if mask is not None:
        body = bytearray(payload)
        for r in range(4):                       # XOR each residue class with its key byte (table look-up)
            body[r::4] = bytes(body[r::4]).translate(_XOR[mask[r]])
        return hdr + bytes(mask) + bytes(body)
    return hdr + bytes(payload)


def connect_again(ws, events=(), tail="eof"):
    """`ws.connect(url, socket=...)` on an EXISTING object (its second or later connection): the opening handshake really
    happens on a fresh scripted transport; returns that transport with its counters reset."""
    import base64
    import hashlib
    import os
    key_raw = bytes(range(16))
    acc_ = base64.b64encode(hashlib.sha1(base64.b64encode(key_raw) + b"258EAFA5-E914-47DA-95CA-C5AB0DC85B11").digest()).decode()
    head = (f"HTTP/1.1 101 Switching Protocols\r\nUpgrade: websocket\r\nConnection: Upgrade\r\n"
            f"Sec-WebSocket-Accept: {acc_}\r\n\r\n").encode()
    sock = SimSocket([("chunk", head)] + list(events), tail=tail)
    old = os.urandom
    os.urandom = lambda k: key_raw[:k]
    try:
        ws.connect("ws://example.test/", socket=sock)
    finally:
        os.urandom = old
    del sock.sent[:]
    sock.log.clear()
    sock.calls = sock.send_calls = sock.consumed = 0
    del sock.recv_sizes[:]
    return sock


def make_ws_factory(events=(), tail="eof", accepts=None, mask_key=None, **kw):
    """a connected WebSocket object made by the documented factory `create_connection(url, socket=...)`: the opening
    handshake really happens (scripted 101 response), then the transport's counters are reset.  Options whose value is
    falsy are LEFT OUT of the call (their documented default is off)."""
    import base64
    import hashlib
    import os
    import websocket
    key_raw = bytes(range(16))
    acc_ = base64.b64encode(hashlib.sha1(base64.b64encode(key_raw) + b"258EAFA5-E914-47DA-95CA-C5AB0DC85B11").digest()).decode()
    head = (f"HTTP/1.1 101 Switching Protocols\r\nUpgrade: websocket\r\nConnection: Upgrade\r\n"
            f"Sec-WebSocket-Accept: {acc_}\r\n\r\n").encode()
    sock = SimSocket([("chunk", head)] + list(events), tail=tail, accepts=None)
    opts = {k: v for k, v in kw.items() if v}
    old = os.urandom
    os.urandom = lambda k: key_raw[:k]
    try:
        ws = websocket.create_connection("ws://example.test/", socket=sock, **opts)
    finally:
        os.urandom = old
    del sock.sent[:]
    sock.log.clear()
    sock.calls = sock.send_calls = sock.consumed = 0
    del sock.recv_sizes[:]
    sock.accepts, sock.acc_i = (list(accepts) if accepts else None), 0
    if mask_key is not None:
        ws.set_mask_key(lambda n: mask_key)
    return ws, sock


def make_ws(events=(), tail="eof", accepts=None, mask_key=None, **kw):
    """a connected WebSocket object on a SimSocket (handshake skipped)."""
    import websocket
    ws = websocket.WebSocket(**kw)
    sock = SimSocket(events, tail=tail, accepts=accepts)
    ws.sock = sock
    ws.connected = True
    if mask_key is not None:
        ws.set_mask_key(lambda n: mask_key)
    return ws, sock


class _WritableSelector:
    """stands in for selectors.DefaultSelector inside websocket._socket: the socket becomes writable at once."""

    def register(self, sock, events):
        self.sock = sock

    def select(self, timeout=None):
        return [(None, 2)]

    def close(self):
        pass

    def __enter__(self):
        return self

    def __exit__(self, *a):
        return False


import contextlib


@contextlib.contextmanager
def writable_selector():
    """the would-block / retry path of `_socket.send` on simulated sockets (which have no real descriptor)."""
    import types
    import websocket._socket as S
    saved = S.selectors
    S.selectors = types.SimpleNamespace(DefaultSelector=_WritableSelector, EVENT_WRITE=saved.EVENT_WRITE, EVENT_READ=saved.EVENT_READ)
    try:
        yield
    finally:
        S.selectors = saved
