"""Run a scripted session on the real WebSocket object and render it exactly like the Lean
driver's `m-session` op (lean/WS/Driver/OpsCore.lean).

cfg   : dict(fire, skip, tail, acc(list), keys(list of bytes), to(ms|None), fail(int|None), conn)
events: list of ("chunk", bytes) | ("timeout",) | ("wait", ms) | ("eof",) | ("reset",)
ops   : list of op strings (same syntax as the driver)
"""
import fractions

import common
from common import summarize
import simnet


class FakeTime:
    """stands in for the `time` module inside websocket._core: virtual clock of the SimSocket."""

    def __init__(self):
        self.sock = None

    def time(self):
        return fractions.Fraction(self.sock.clock if self.sock else 0, 1000)

    def sleep(self, s):
        if self.sock:
            self.sock.clock += int(round(s * 1000))


def cfg_arg(cfg):
    if not cfg:
        return "-"
    parts = []
    for k in ("fire", "skip", "conn"):
        if k in cfg:
            parts.append(f"{k}={int(bool(cfg[k]))}")
    if "tail" in cfg:
        parts.append(f"tail={cfg['tail']}")
    if cfg.get("acc"):
        parts.append("acc=" + ".".join(str(a) for a in cfg["acc"]))
    if cfg.get("keys"):
        parts.append("keys=" + ".".join(k.hex() for k in cfg["keys"]))
    if "to" in cfg:
        parts.append("to=" + ("none" if cfg["to"] is None else str(cfg["to"])))
    if cfg.get("fail") is not None:
        parts.append(f"fail={cfg['fail']}")
    return ",".join(parts) if parts else "-"


def events_arg(events):
    if not events:
        return "-"
    out = []
    for e in events:
        if e[0] == "chunk":
            out.append("c:" + (e[1].hex() if e[1] else "-"))
        elif e[0] == "timeout":
            out.append("t")
        elif e[0] == "wait":
            out.append(f"w:{e[1]}")
        elif e[0] == "eof":
            out.append("e")
        elif e[0] == "reset":
            out.append("r")
    return "|".join(out)


def canon_op(op):
    """the model's name for an op: wrappers and alternative spellings of the public API are ONE operation there."""
    a = op.split(":")
    if a[0] in ("next", "iter"):
        return "recv"
    if a[0] in ("sendbin", "sendbytes"):
        return "send:2:" + ":".join(a[1:])
    if a[0] == "sendtext":
        return "sendt:" + a[1]
    if a[0] in ("sendfo", "sendfp"):
        return "sendf:" + ":".join(a[1:])      # one frame object re-used / rendered by the caller first: still one fresh frame per write
    return op


def alias_ops(ops, salt):
    """rewrite some ops into their alternative public spellings (deterministically from `salt`): recv -> next / iteration,
    send:2 -> send_binary / send_bytes, sendt -> send_text.  The model line keeps the canonical op (`canon_op`)."""
    import zlib
    out = []
    for i, op in enumerate(ops):
        h = zlib.crc32(f"{salt}:{i}:{op[:40]}".encode())
        a = op.split(":")
        if a[0] == "recv" and h % 3:
            op = ("next", "iter")[h % 2]
        elif a[0] == "send" and len(a) >= 3 and a[1] == "2" and h % 3:
            op = ("sendbin:", "sendbytes:")[h % 2] + ":".join(a[2:])
        elif a[0] == "sendt" and h % 2:
            op = "sendtext:" + a[1]
        out.append(op)
    return out


def line(cfg, events, ops):
    return f"m-session {cfg_arg(cfg)} {events_arg(events)} {'|'.join(canon_op(o) for o in ops) if ops else '-'}"


def parse_bytes(s):
    if s == "-":
        return b""
    if s.startswith("gen:"):
        _, l, sd = s.split(":")
        return common.gen_bytes(int(l), int(sd))
    return bytes.fromhex(s)


_SPELL = [0]


def run_impl(cfg, events, ops, trace=False, payload_type=bytes, keymode="script", extra=None):
    """returns (rendered string, ws, sock).  keymode: script (set_mask_key with bytes),
    strkey (set_mask_key returning an ASCII str), urandom (default key source; os.urandom is
    wrapped by a recorder that serves cfg keys).  extra: dict filled with side observations."""
    import logging
    import os
    import websocket
    from websocket import _core
    cfg = cfg or {}
    # "mt": False = the single-threaded configuration (enable_multithread=False: dummy locks); implementation-side only —
    # what a call returns, raises and writes must not depend on it
    sock = simnet.SimSocket(events, tail=cfg.get("tail", "eof"), accepts=cfg.get("acc"),
                            send_fail_after=cfg.get("fail"), eagain=cfg.get("eagain"))
    if keymode == "factory":
        # the connection is made by the documented factory, the key source given as its keyword argument
        import base64
        import hashlib
        import os as _os
        key_raw = bytes(range(16))
        acc_ = base64.b64encode(hashlib.sha1(base64.b64encode(key_raw) + b"258EAFA5-E914-47DA-95CA-C5AB0DC85B11").digest()).decode()
        head = (f"HTTP/1.1 101 Switching Protocols\r\nUpgrade: websocket\r\nConnection: Upgrade\r\n"
                f"Sec-WebSocket-Accept: {acc_}\r\n\r\n").encode()
        sock.events.insert(0, ("chunk", head))
        saved_acc, sock.accepts = sock.accepts, None
        saved_fail, sock.send_fail_after = sock.send_fail_after, None
        saved_eagain, sock.eagain = sock.eagain, set()
        _keys = list(cfg.get("keys") or [])
        _fdraws = []

        def _fkey(n):
            _fdraws.append(n)
            return _keys.pop(0) if _keys else b"\x00" * n
        _old = _os.urandom
        _os.urandom = lambda k: key_raw[:k]
        try:
            # an option that is off is LEFT OUT (the documented default of both is False); one that is on is passed
            _fopts = {}
            _SPELL[0] += 1
            if cfg.get("fire"):
                _fopts["fire_cont_frame"] = 1 if _SPELL[0] % 2 else True
            if cfg.get("skip"):
                _fopts["skip_utf8_validation"] = 1 if _SPELL[0] % 2 else True
            ws = websocket.create_connection("ws://example.test/", socket=sock, get_mask_key=_fkey, **_fopts)
        finally:
            _os.urandom = _old
        del sock.sent[:]
        sock.log.clear()
        sock.calls = 0
        sock.send_calls = 0
        del sock.recv_sizes[:]
        sock.accepts, sock.acc_i = saved_acc, 0
        sock.send_fail_after, sock.eagain = saved_fail, saved_eagain
    else:
        # (boolean options are documented as truthy / falsy switches: every other object gets them as 1 / 0 instead of
        #  True / False — what the option does must not depend on which spelling of "on" was used)
        _SPELL[0] += 1
        _b = (lambda v: (1 if v else 0)) if _SPELL[0] % 2 else bool
        ws = websocket.WebSocket(fire_cont_frame=_b(cfg.get("fire")), skip_utf8_validation=_b(cfg.get("skip")),
                                 enable_multithread=bool(cfg.get("mt", True)))
    if cfg.get("to") is not None:
        sock.timeout = cfg["to"] / 1000.0
    ws.sock = sock
    if cfg.get("dispatcher"):
        # the object as WebSocketApp drives it: writes go through the dispatcher's send (implementation-side only;
        # the model's `_send` is the transport send — a dispatcher must not change what a send puts on the wire)
        from websocket import _dispatcher
        ws.dispatcher = {"plain": _dispatcher.Dispatcher, "ssl": _dispatcher.SSLDispatcher}[cfg["dispatcher"]](None, None)
    ws.connected = bool(cfg.get("conn", True))
    keys = list(cfg.get("keys") or [])
    draws = [0]

    draw_args = []

    def get_key(n):
        draws[0] += 1
        draw_args.append(n)
        return keys.pop(0) if keys else b"\x00" * n
    old_urandom = os.urandom
    if keymode == "factory":
        keys = _keys          # (the factory's key source serves the scripted keys; its draws are the ones counted)
        draw_args = _fdraws
        draws = _FactoryDraws(_fdraws)
    elif keymode == "script":
        ws.set_mask_key(get_key)
    elif keymode == "strkey":
        ws.set_mask_key(lambda n: get_key(n).decode("ascii"))
    else:
        os.urandom = get_key
    lg = websocket._logging._logger
    old_level, old_handlers = lg.level, lg.handlers[:]
    if trace:
        websocket.enableTrace(True, handler=logging.NullHandler())
    instrument_recv(ws)
    ft = FakeTime()
    ft.sock = sock
    # (a tree whose _core no longer imports `time` simply has nothing to substitute: not a reason for the harness to stop)
    old_time = getattr(_core, "time", None)
    if old_time is not None:
        _core.time = ft
    outs = []
    _FRAMES.pop(id(ws), None)
    # a TLS-like transport: some reads first report a record that has only partly arrived (SSLWantReadError); the library
    # waits for readability and reads again — the wait is answered "readable" at once (implementation side only: the
    # model sees the same chunks without the interruptions)
    _sel_cm = simnet.writable_selector() if any(e[0] == "wantread" for e in events) else None
    if _sel_cm is not None:
        _sel_cm.__enter__()
    try:
        for op in ops:
            before = len(sock.sent)
            a = op.split(":")
            idle = False
            if a[0] == "sel":
                # a select-driven caller: the call is made only when the TRANSPORT is readable (what the library holds in its
                # own buffers is invisible to select)
                a = a[1:]
                idle = not (ws.sock is not None and sock.readable())
            _guard = simnet.stuck_guard()
            try:
                _guard.__enter__()
                if idle:
                    res = "IDLE"
                elif a[0] in ("recv", "next", "iter"):
                    # the three spellings of "receive the next message" (the model has one)
                    r = ws.recv() if a[0] == "recv" else (ws.next() if a[0] == "next" else next(iter(ws)))
                    if isinstance(r, str):
                        res = "E" if (r == "" and not _last_was_text(ws)) else "T:" + summarize(r.encode("utf-8"))
                    else:
                        res = "B:" + summarize(r)
                elif a[0] == "recvdata":
                    o, d = ws.recv_data(a[1] == "1")
                    res = f"D:{o}:{summarize(d)}"
                elif a[0] == "rdf":
                    o, f = ws.recv_data_frame(a[1] == "1")
                    res = f"R:{o}:{f.fin}:{summarize(f.data)}"
                elif a[0] == "rf":
                    f = ws.recv_frame()
                    res = f"F:{f.opcode}:{f.fin}:{f.rsv1}{f.rsv2}{f.rsv3}:{summarize(f.data)}"
                elif a[0] == "send":
                    p = payload_type(parse_bytes(":".join(a[2:])))
                    res = f"N:{ws.send(p, int(a[1]))}"
                elif a[0] in ("sendbin", "sendbytes"):
                    # send_binary(payload) / send_bytes(data): the documented wrappers of send(…, OPCODE_BINARY)
                    p = payload_type(parse_bytes(":".join(a[1:])))
                    res = f"N:{ws.send_binary(p) if a[0] == 'sendbin' else ws.send_bytes(p)}"
                elif a[0] == "sendtext":
                    text = "".join(chr(int(x)) for x in a[1].split(".")) if a[1] != "-" else ""
                    res = f"N:{ws.send_text(text)}"
                elif a[0] == "sendf":
                    p = payload_type(parse_bytes(":".join(a[3:])))
                    fr = websocket.ABNF.create_frame(p, int(a[2]), int(a[1]))
                    res = f"N:{ws.send_frame(fr)}"
                elif a[0] == "sendfo":
                    # send_frame() with ONE frame object re-used for every write (the docstring of send_frame does that): its
                    # fin / opcode / data are reassigned in between; each write is a fresh frame with a freshly drawn key
                    p = payload_type(parse_bytes(":".join(a[3:])))
                    fr = _FRAMES.get(id(ws))
                    if fr is None:
                        fr = _FRAMES[id(ws)] = websocket.ABNF.create_frame(p, int(a[2]), int(a[1]))
                    else:
                        fr.fin, fr.opcode, fr.data = int(a[1]), int(a[2]), (p.encode("utf-8") if isinstance(p, str) else p)
                    res = f"N:{ws.send_frame(fr)}"
                elif a[0] == "sendfp":
                    # the application renders the frame itself first (to measure or log it), then hands it to send_frame()
                    p = payload_type(parse_bytes(":".join(a[3:])))
                    fr = websocket.ABNF.create_frame(p, int(a[2]), int(a[1]))
                    if keymode != "urandom":
                        fr.format()
                    res = f"N:{ws.send_frame(fr)}"
                elif a[0] in ("sendt", "pingt", "pongt"):
                    # a str payload given by its code points (surrogates included: they cannot be encoded)
                    text = "".join(chr(int(x)) for x in a[1].split(".")) if a[1] != "-" else ""
                    if a[0] == "sendt":
                        res = f"N:{ws.send(text)}"
                    else:
                        getattr(ws, a[0][:4])(text)
                        res = "ok"
                elif a[0] == "ping":
                    ws.ping(parse_bytes(":".join(a[1:])))
                    res = "ok"
                elif a[0] == "pong":
                    ws.pong(parse_bytes(":".join(a[1:])))
                    res = "ok"
                elif a[0] == "sclose":
                    ws.send_close(int(a[1]), parse_bytes(a[2]))
                    res = "ok"
                elif a[0] == "close":
                    ws.close(int(a[1]), parse_bytes(a[2]), None if a[3] == "none" else int(a[3]) / 1000.0)
                    res = "ok"
                elif a[0] == "shutdown":
                    ws.shutdown()
                    res = "ok"
                elif a[0] == "abort":
                    ws.abort()
                    res = "ok"
                elif a[0] == "settimeout":
                    sock.timeout = None if a[1] == "none" else int(a[1]) / 1000.0
                    res = "ok"
                else:
                    raise AssertionError(op)
            except simnet.Spin:
                res = "X:SPIN"
            except simnet.Stuck:
                res = "X:STUCK"
            except Exception as e:  # noqa
                res = "X:" + common.canon_exc(e)
            finally:
                _guard.__exit__(None, None, None)
            delta = bytes(sock.sent[before:])
            sock.step_recvs.append(len(sock.recv_sizes))      # side channel for oracles (not part of the compared line)
            outs.append(f"{res}|{int(bool(ws.connected))}{int(ws.sock is not None)}{int(sock.closed)}|"
                        f"{sock.calls}|{sock.clock}|{summarize(delta)}")
    finally:
        if _sel_cm is not None:
            _sel_cm.__exit__(None, None, None)
        if old_time is not None:
            _core.time = old_time
        os.urandom = old_urandom
        websocket._logging._traceEnabled = False
        lg.setLevel(old_level)
        lg.handlers[:] = old_handlers
    if extra is not None:
        extra["draw_args"] = draw_args
    left = len([e for e in sock.events if not (e[0] == 'chunk' and not e[1])])
    buf = sum(len(x) for x in ws.frame_buffer.recv_buffer)
    outs.append(f"END|keys={draws[0]}|maxrecv={max(sock.recv_sizes) if sock.recv_sizes else 0}|left={left}|buf={buf}")
    return ";".join(outs), ws, sock


import contextlib


@contextlib.contextmanager
def tracing(on=True):
    """enableTrace(True) with a handler that discards the lines; restored afterwards."""
    import logging
    import websocket
    lg = websocket._logging._logger
    old_level, old_handlers = lg.level, lg.handlers[:]
    if on:
        websocket.enableTrace(True, handler=logging.NullHandler())
    try:
        yield
    finally:
        websocket._logging._traceEnabled = False
        lg.setLevel(old_level)
        lg.handlers[:] = old_handlers


class _FactoryDraws:
    """draws[0] = number of keys the factory-configured source has handed out."""

    def __init__(self, lst):
        self.lst = lst

    def __getitem__(self, i):
        return len(self.lst)


_LAST = {}
_FRAMES = {}


def _last_was_text(ws):
    # recv() returns "" both for an empty text message and for a non-data opcode; the model
    # distinguishes them.  We recover the distinction from the last frame's opcode, recorded by
    # wrapping recv_data once per object.
    return getattr(ws, "_verif_last_opcode", None) == 1


def instrument_recv(ws):
    orig = ws.recv_data

    def wrapped(control_frame=False):
        r = orig(control_frame)
        ws._verif_last_opcode = r[0]
        return r
    ws.recv_data = wrapped
