#!/usr/bin/env python3
"""Translator (T): /repo/websocket/*.py  --ast-->  lean/WS/Gen/Tables.lean

Parses the sources with `ast` (never imports them) and emits every finite table or
constant a theorem depends on.  A pattern that no longer matches raises ExtractError
(handled by the check like a broken proof obligation).  Usage:
    extract.py [--repo /repo] [--out lean/WS/Gen/Tables.lean] [--check]
Writes the file only when its content changes (so lake does not rebuild needlessly).
"""
import ast
import http
import os
import sys

HERE = os.path.dirname(os.path.abspath(__file__))
VERIF = os.path.dirname(HERE)


class ExtractError(Exception):
    pass


def _parse(repo, name):
    path = os.path.join(repo, "websocket", name)
    with open(path, "r", encoding="utf-8") as f:
        return ast.parse(f.read(), filename=path)


def _find(nodes, kind, name):
    for n in nodes:
        if isinstance(n, kind) and getattr(n, "name", None) == name:
            return n
    raise ExtractError(f"{kind.__name__} {name} not found")


class ConstEval:
    """evaluates the tiny constant-expression language used by the tables."""

    def __init__(self, env=None):
        self.env = dict(env or {})

    def ev(self, node):
        if isinstance(node, ast.Constant):
            return node.value
        if isinstance(node, ast.Name):
            if node.id in self.env:
                return self.env[node.id]
            raise ExtractError(f"unknown name {node.id}")
        if isinstance(node, ast.Attribute):
            base = node.value
            if isinstance(base, ast.Name) and base.id == "HTTPStatus":
                return int(getattr(http.HTTPStatus, node.attr))
            if isinstance(base, ast.Name) and base.id in ("ABNF",):
                return self.env[node.attr]
            if isinstance(base, ast.Name) and base.id in ("ssl", "socket", "errno"):
                return f"{base.id}.{node.attr}"
            raise ExtractError(f"unsupported attribute {ast.dump(node)}")
        if isinstance(node, (ast.Tuple, ast.List)):
            return [self.ev(e) for e in node.elts]
        if isinstance(node, ast.BinOp):
            a, b = self.ev(node.left), self.ev(node.right)
            if isinstance(node.op, ast.LShift):
                return a << b
            if isinstance(node.op, ast.Add):
                return a + b
            if isinstance(node.op, ast.Mult):
                return a * b
            if isinstance(node.op, ast.BitOr):
                return a | b
            raise ExtractError(f"unsupported binop {ast.dump(node.op)}")
        if isinstance(node, ast.UnaryOp) and isinstance(node.op, ast.USub):
            return -self.ev(node.operand)
        if isinstance(node, ast.Dict):
            return {self.ev(k): self.ev(v) for k, v in zip(node.keys, node.values)}
        if isinstance(node, ast.Call) and isinstance(node.func, ast.Name) and node.func.id == "float":
            return self.ev(node.args[0])
        raise ExtractError(f"unsupported expression {ast.dump(node)[:120]}")

    def assign_all(self, body):
        for n in body:
            if isinstance(n, ast.Assign) and len(n.targets) == 1 and isinstance(n.targets[0], ast.Name):
                try:
                    self.env[n.targets[0].id] = self.ev(n.value)
                except ExtractError:
                    pass
            elif isinstance(n, ast.AnnAssign) and isinstance(n.target, ast.Name) and n.value is not None:
                try:
                    self.env[n.target.id] = self.ev(n.value)
                except ExtractError:
                    pass


def _compare_consts(fn, what):
    """all (op, constant) pairs of Compare nodes inside fn, in source order."""
    out = []
    for n in ast.walk(fn):
        if isinstance(n, ast.Compare):
            out.append(n)
    return out


def _lexically_inside_with(fn, lockattr, pred):
    """True iff some node satisfying pred lies lexically inside `with self.<lockattr>`."""
    for n in ast.walk(fn):
        if isinstance(n, ast.With):
            for item in n.items:
                e = item.context_expr
                if isinstance(e, ast.Attribute) and e.attr == lockattr:
                    for m in ast.walk(n):
                        if pred(m):
                            return True
    return False


def _has_node(fn, pred):
    return any(pred(m) for m in ast.walk(fn))


def extract(repo="/repo"):
    T = {}

    # ------------------------------------------------------------------ _abnf.py
    abnf = _parse(repo, "_abnf.py")
    ce = ConstEval()
    ce.assign_all(abnf.body)
    cls = _find(abnf.body, ast.ClassDef, "ABNF")
    ce.assign_all(cls.body)
    env = ce.env
    for k in ("OPCODE_CONT", "OPCODE_TEXT", "OPCODE_BINARY", "OPCODE_CLOSE", "OPCODE_PING",
              "OPCODE_PONG", "OPCODES", "LENGTH_7", "LENGTH_16", "LENGTH_63", "VALID_CLOSE_STATUS",
              "STATUS_NORMAL"):
        if k not in env:
            raise ExtractError(f"_abnf.py: constant {k} not found")
    T["opcodeCont"] = env["OPCODE_CONT"]
    T["opcodeText"] = env["OPCODE_TEXT"]
    T["opcodeBinary"] = env["OPCODE_BINARY"]
    T["opcodeClose"] = env["OPCODE_CLOSE"]
    T["opcodePing"] = env["OPCODE_PING"]
    T["opcodePong"] = env["OPCODE_PONG"]
    T["opcodes"] = list(env["OPCODES"])
    T["length7"] = env["LENGTH_7"]
    T["length16"] = env["LENGTH_16"]
    T["length63"] = env["LENGTH_63"]
    T["validCloseStatus"] = list(env["VALID_CLOSE_STATUS"])
    T["statusNormal"] = env["STATUS_NORMAL"]

    # _is_valid_close_status: `code in VALID_CLOSE_STATUS or (LO <= code < HI)`
    f = _find(cls.body, ast.FunctionDef, "_is_valid_close_status")
    lo = hi = None
    for n in ast.walk(f):
        if isinstance(n, ast.Compare) and len(n.ops) == 2 and isinstance(n.ops[0], ast.LtE) \
                and isinstance(n.ops[1], ast.Lt):
            lo, hi = ce.ev(n.left), ce.ev(n.comparators[1])
    if lo is None:
        raise ExtractError("_is_valid_close_status: range pattern `lo <= code < hi` not found")
    T["closeRangeLo"], T["closeRangeHi"] = lo, hi

    # validate: `l == A or l >= B` for close bodies
    f = _find(cls.body, ast.FunctionDef, "validate")
    eq = ge = None
    for n in ast.walk(f):
        if isinstance(n, ast.BoolOp) and isinstance(n.op, ast.Or) and len(n.values) == 2:
            a, b = n.values
            if isinstance(a, ast.Compare) and isinstance(a.ops[0], ast.Eq) and \
               isinstance(b, ast.Compare) and isinstance(b.ops[0], ast.GtE):
                eq, ge = ce.ev(a.comparators[0]), ce.ev(b.comparators[0])
    if eq is None:
        raise ExtractError("ABNF.validate: `l == 1 or l >= 126` pattern not found")
    T["closeBodyBadEq"], T["closeBodyBadGe"] = eq, ge

    # frame_buffer.recv_strict: min(CAP, shortage)
    fb = _find(abnf.body, ast.ClassDef, "frame_buffer")
    f = _find(fb.body, ast.FunctionDef, "recv_strict")
    cap = None
    for n in ast.walk(f):
        if isinstance(n, ast.Call) and isinstance(n.func, ast.Name) and n.func.id == "min":
            for a in n.args:
                if isinstance(a, ast.Constant):
                    cap = a.value
    if cap is None:
        raise ExtractError("recv_strict: min(<cap>, shortage) not found")
    T["recvCap"] = cap
    # lock scope fact: recv_frame's body is one `with self.lock`
    f = _find(fb.body, ast.FunctionDef, "recv_frame")
    # … every touch of the shared parse state: the reads (recv_strict) AND the reset (clear)
    T["frameUnderLock"] = _lexically_inside_with(
        f, "lock", lambda m: isinstance(m, ast.Call) and isinstance(m.func, ast.Attribute)
        and m.func.attr == "recv_strict") and _lexically_inside_with(
        f, "lock", lambda m: isinstance(m, ast.Call) and isinstance(m.func, ast.Attribute)
        and m.func.attr == "clear")

    # ------------------------------------------------------------------ _utils.py
    utils = _parse(repo, "_utils.py")
    tbl = acc = rej = None
    for n in ast.walk(utils):
        if isinstance(n, ast.Assign) and len(n.targets) == 1 and isinstance(n.targets[0], ast.Name):
            nm = n.targets[0].id
            if nm == "_UTF8D":
                tbl = ConstEval().ev(n.value)
            elif nm == "_UTF8_ACCEPT":
                acc = ConstEval().ev(n.value)
            elif nm == "_UTF8_REJECT":
                rej = ConstEval().ev(n.value)
    if tbl is None or acc is None or rej is None:
        raise ExtractError("_utils.py: _UTF8D/_UTF8_ACCEPT/_UTF8_REJECT not found")
    T["utf8d"], T["utf8Accept"], T["utf8Reject"] = tbl, acc, rej
    # does _validate_utf8 test the final state?  shape of the final `return`
    vf = None
    for n in ast.walk(utils):
        if isinstance(n, ast.FunctionDef) and n.name == "_validate_utf8":
            vf = n   # the pure-python one is the last definition
    if vf is None:
        raise ExtractError("_validate_utf8 not found")
    last = vf.body[-1]
    if not isinstance(last, ast.Return):
        raise ExtractError("_validate_utf8: last statement is not a return")
    if isinstance(last.value, ast.Constant) and last.value.value is True:
        T["utf8FinalCheck"] = False
    elif isinstance(last.value, ast.Compare) and len(last.value.ops) == 1 and \
            isinstance(last.value.ops[0], ast.Eq):
        names = {getattr(last.value.left, "id", None), getattr(last.value.comparators[0], "id", None)}
        if names == {"state", "_UTF8_ACCEPT"}:
            T["utf8FinalCheck"] = True
        else:
            raise ExtractError("_validate_utf8: unrecognised final comparison")
    else:
        raise ExtractError("_validate_utf8: unrecognised final return")

    # ------------------------------------------------------------------ _core.py
    core = _parse(repo, "_core.py")
    ws = _find(core.body, ast.ClassDef, "WebSocket")
    f = _find(ws.body, ast.FunctionDef, "recv_data_frame")
    bound = None
    for n in ast.walk(f):
        if isinstance(n, ast.Compare) and isinstance(n.ops[0], ast.Lt) and \
           isinstance(n.left, ast.Call) and getattr(n.left.func, "id", "") == "len":
            bound = ConstEval(env).ev(n.comparators[0])
    if bound is None:
        raise ExtractError("recv_data_frame: `len(frame.data) < 126` not found")
    T["pingMaxExcl"] = bound
    f = _find(ws.body, ast.FunctionDef, "connect")
    lim = None
    for n in ast.walk(f):
        if isinstance(n, ast.Call) and isinstance(n.func, ast.Attribute) and n.func.attr == "pop" \
           and n.args and isinstance(n.args[0], ast.Constant) and n.args[0].value == "redirect_limit":
            lim = ConstEval().ev(n.args[1])
    if lim is None:
        raise ExtractError("connect: options.pop('redirect_limit', N) not found")
    T["redirectLimitDefault"] = lim
    f = _find(ws.body, ast.FunctionDef, "close")
    dflt = f.args.defaults
    T["closeTimeoutDefault"] = ConstEval(env).ev(dflt[-1])
    # lock-scope facts
    f = _find(ws.body, ast.FunctionDef, "send_frame")
    T["sendLoopUnderLock"] = _lexically_inside_with(
        f, "lock", lambda m: isinstance(m, ast.While) and _has_node(
            m, lambda k: isinstance(k, ast.Call) and isinstance(k.func, ast.Attribute) and k.func.attr == "_send"))
    f = _find(ws.body, ast.FunctionDef, "recv")
    T["recvUnderReadlock"] = _lexically_inside_with(
        f, "readlock", lambda m: isinstance(m, ast.Call) and isinstance(m.func, ast.Attribute)
        and m.func.attr == "recv_data")

    # the default thread-safe configuration: every way of building a WebSocket gets real locks unless told otherwise
    f = _find(ws.body, ast.FunctionDef, "__init__")
    names = [a.arg for a in f.args.args]
    dfl = dict(zip(names[len(names) - len(f.args.defaults):], f.args.defaults))
    if "enable_multithread" not in dfl:
        raise ExtractError("WebSocket.__init__: enable_multithread has no default")
    T["multithreadDefaultInit"] = bool(ConstEval(env).ev(dfl["enable_multithread"]))
    f = _find(core.body, ast.FunctionDef, "create_connection")
    fac = None
    for n in ast.walk(f):
        if isinstance(n, ast.Call) and isinstance(n.func, ast.Attribute) and n.func.attr == "pop" \
           and n.args and isinstance(n.args[0], ast.Constant) and n.args[0].value == "enable_multithread":
            fac = bool(ConstEval(env).ev(n.args[1]))
    if fac is None:
        raise ExtractError("create_connection: options.pop('enable_multithread', D) not found")
    T["multithreadDefaultFactory"] = fac

    # ------------------------------------------------------------------ _handshake.py
    hs = _parse(repo, "_handshake.py")
    ce = ConstEval()
    ce.assign_all(hs.body)
    for k in ("VERSION", "SUPPORTED_REDIRECT_STATUSES", "SUCCESS_STATUSES", "_HEADERS_TO_CHECK"):
        if k not in ce.env:
            raise ExtractError(f"_handshake.py: {k} not found")
    T["wsVersion"] = ce.env["VERSION"]
    T["redirectStatuses"] = [int(x) for x in ce.env["SUPPORTED_REDIRECT_STATUSES"]]
    T["successStatuses"] = [int(x) for x in ce.env["SUCCESS_STATUSES"]]
    T["headersToCheck"] = [[k, v] for k, v in ce.env["_HEADERS_TO_CHECK"].items()]
    guid = None
    f = _find(hs.body, ast.FunctionDef, "_validate")
    for n in ast.walk(f):
        if isinstance(n, ast.JoinedStr):
            for v in n.values:
                if isinstance(v, ast.Constant) and isinstance(v.value, str) and len(v.value) == 36:
                    guid = v.value
    if guid is None:
        raise ExtractError("_validate: GUID literal not found")
    T["guid"] = guid
    f = _find(hs.body, ast.FunctionDef, "_create_sec_websocket_key")
    n16 = None
    for n in ast.walk(f):
        if isinstance(n, ast.Call) and isinstance(n.func, ast.Attribute) and n.func.attr == "urandom":
            n16 = ConstEval().ev(n.args[0])
    if n16 is None:
        raise ExtractError("_create_sec_websocket_key: os.urandom(N) not found")
    T["keyRandomBytes"] = n16

    # ------------------------------------------------------------------ _http.py
    ht = _parse(repo, "_http.py")
    f = _find(ht.body, ast.FunctionDef, "_ssl_socket")
    cr = chk = None
    for n in ast.walk(f):
        if isinstance(n, ast.Dict) and n.keys and isinstance(n.keys[0], ast.Constant) \
           and n.keys[0].value == "cert_reqs":
            cr = ConstEval().ev(n.values[0])
        if isinstance(n, ast.Call) and isinstance(n.func, ast.Attribute) and n.func.attr == "get" \
           and n.args and isinstance(n.args[0], ast.Constant) and n.args[0].value == "check_hostname":
            chk = ConstEval().ev(n.args[1])
    if cr is None or chk is None:
        raise ExtractError("_ssl_socket: default cert_reqs / check_hostname not found")
    T["sslDefaultCertReqs"] = cr
    T["sslDefaultCheckHostname"] = bool(chk)
    f = _find(ht.body, ast.FunctionDef, "_wrap_sni_socket")
    d = {}
    for n in ast.walk(f):
        if isinstance(n, ast.Call) and isinstance(n.func, ast.Attribute) and n.func.attr == "get" \
           and len(n.args) == 2 and isinstance(n.args[0], ast.Constant) \
           and n.args[0].value in ("check_hostname", "cert_reqs"):
            d.setdefault(n.args[0].value, []).append(ConstEval().ev(n.args[1]))
    T["wrapCheckHostnameDefaults"] = [bool(x) for x in d.get("check_hostname", [])]
    T["wrapCertReqsDefaults"] = d.get("cert_reqs", [])
    f = _find(ht.body, ast.FunctionDef, "_get_addrinfo_list")
    pp = None
    for n in ast.walk(f):
        if isinstance(n, ast.BoolOp) and isinstance(n.op, ast.Or) and isinstance(n.values[-1], ast.Constant):
            pp = n.values[-1].value
    if pp is None:
        raise ExtractError("_get_addrinfo_list: `pport and pport or 80` not found")
    T["proxyDefaultPort"] = pp
    f = _find(ht.body, ast.FunctionDef, "_tunnel")
    st = None
    for n in ast.walk(f):
        if isinstance(n, ast.Compare) and isinstance(n.ops[0], ast.NotEq) and \
           getattr(n.left, "id", "") == "status":
            st = ConstEval().ev(n.comparators[0])
    if st is None:
        raise ExtractError("_tunnel: `status != 200` not found")
    T["tunnelOkStatus"] = st

    # ------------------------------------------------------------------ _url.py
    url = _parse(repo, "_url.py")
    f = _find(url.body, ast.FunctionDef, "parse_url")
    ports = {}
    for n in ast.walk(f):
        if isinstance(n, ast.If) and isinstance(n.test, ast.Compare) and \
           getattr(n.test.left, "id", "") == "scheme":
            sch = ConstEval().ev(n.test.comparators[0])
            for m in ast.walk(n):
                if isinstance(m, ast.Assign) and getattr(m.targets[0], "id", "") == "port":
                    ports.setdefault(sch, ConstEval().ev(m.value))
    if set(ports) != {"ws", "wss"}:
        raise ExtractError(f"parse_url: default ports not found ({ports})")
    T["defaultPortWs"], T["defaultPortWss"] = ports["ws"], ports["wss"]
    f = _find(url.body, ast.FunctionDef, "_is_subnet_address")
    bnd = None
    strict = None
    for n in ast.walk(f):
        if isinstance(n, ast.Compare) and len(n.ops) == 2:
            bnd = ConstEval().ev(n.comparators[1])
            strict = isinstance(n.ops[1], ast.Lt)
    if bnd is None:
        raise ExtractError("_is_subnet_address: `0 <= int(netmask) < 32` not found")
    T["subnetMaskBound"], T["subnetMaskStrict"] = bnd, strict

    # ------------------------------------------------------------------ _socket.py
    so = _parse(repo, "_socket.py")
    opts = []
    for n in so.body:
        if isinstance(n, ast.Assign) and getattr(n.targets[0], "id", "") == "DEFAULT_SOCKET_OPTION":
            opts += [tuple(x) for x in ConstEval().ev(n.value)]
        if isinstance(n, ast.If):
            for m in ast.walk(n):
                if isinstance(m, ast.Call) and isinstance(m.func, ast.Attribute) and m.func.attr == "append" \
                   and getattr(m.func.value, "id", "") == "DEFAULT_SOCKET_OPTION":
                    opts.append(tuple(ConstEval().ev(m.args[0])))
    if not opts:
        raise ExtractError("DEFAULT_SOCKET_OPTION not found")
    T["defaultSockOpts"] = [f"{a}|{b}|{c}" for a, b, c in opts]
    # the inner `_recv()` of `recv(sock, bufsize)`: the handlers of its try, in order — `Model.Glue.recvInner` reads
    # "want-read: wait and read again" BEFORE the errno test (SSLWantReadError is an OSError: the order decides)
    rfn = _find(so.body, ast.FunctionDef, "recv")
    order = None
    if rfn is not None:
        inner = _find(rfn.body, ast.FunctionDef, "_recv")
        if inner is not None:
            for st in inner.body:
                if isinstance(st, ast.Try):
                    order = []
                    for h in st.handlers:
                        t = h.type
                        order.append(t.attr if isinstance(t, ast.Attribute) else getattr(t, "id", "?"))
                    break
    if order is None:
        raise ExtractError("_socket.recv: inner _recv() with a try block not found")
    T["glueRecvHandlers"] = order

    # ------------------------------------------------------------------ _app.py
    app = _parse(repo, "_app.py")
    ce = ConstEval()
    ce.assign_all(app.body)
    if "RECONNECT" not in ce.env:
        raise ExtractError("_app.py: RECONNECT not found")
    T["reconnectDefault"] = ce.env["RECONNECT"]
    wa = _find(app.body, ast.ClassDef, "WebSocketApp")
    f = _find(wa.body, ast.FunctionDef, "create_dispatcher")
    dt = None
    for n in ast.walk(f):
        if isinstance(n, ast.BoolOp) and isinstance(n.op, ast.Or) and \
           getattr(n.values[0], "id", "") == "ping_timeout":
            dt = ConstEval().ev(n.values[1])
    if dt is None:
        raise ExtractError("create_dispatcher: `ping_timeout or 10` not found")
    T["dispatcherDefaultTimeout"] = dt

    # ------------------------------------------------------------------ plug-ins (one per op group)
    import importlib
    sys.path.insert(0, HERE)
    for name in ("extract_h1", "extract_h2", "extract_app"):
        if os.path.exists(os.path.join(HERE, name + ".py")):
            mod = importlib.import_module(name)
            mod.extend(repo, T, sys.modules[__name__])
    return T


def _lean_val(v):
    if isinstance(v, bool):
        return "true" if v else "false"
    if isinstance(v, int):
        return str(v)
    if isinstance(v, str):
        return '"' + v.replace("\\", "\\\\").replace('"', '\\"') + '"'
    if isinstance(v, list):
        return "[" + ", ".join(_lean_val(x) for x in v) + "]"
    raise ExtractError(f"cannot render {v!r}")


def _lean_type(v):
    if isinstance(v, bool):
        return "Bool"
    if isinstance(v, int):
        return "Nat"
    if isinstance(v, str):
        return "String"
    if isinstance(v, list):
        if v and isinstance(v[0], list):
            return "List (List String)"
        if v and isinstance(v[0], str):
            return "List String"
        if v and isinstance(v[0], bool):
            return "List Bool"
        return "List Nat"
    raise ExtractError(f"cannot type {v!r}")


def render(T):
    out = ["/- GENERATED by harness/extract.py from /repo/websocket/*.py — do not edit. -/",
           "namespace WS.Gen", ""]
    for k in sorted(T):
        v = T[k]
        if k == "utf8d":
            rows = []
            for i in range(0, len(v), 32):
                rows.append("  " + ", ".join(str(x) for x in v[i:i + 32]))
            out.append(f"def {k} : List Nat := [\n" + ",\n".join(rows) + "]")
        else:
            out.append(f"def {k} : {_lean_type(v)} := {_lean_val(v)}")
    out += ["", "end WS.Gen", ""]
    return "\n".join(out)


def main(argv):
    repo = "/repo"
    out = os.path.join(VERIF, "lean", "WS", "Gen", "Tables.lean")
    check_only = False
    i = 0
    while i < len(argv):
        if argv[i] == "--repo":
            repo = argv[i + 1]; i += 2
        elif argv[i] == "--out":
            out = argv[i + 1]; i += 2
        elif argv[i] == "--check":
            check_only = True; i += 1
        else:
            i += 1
    try:
        T = extract(repo)
    except (ExtractError, SyntaxError, OSError) as e:
        print(f"EXTRACT-FAIL {e}")
        return 3
    text = render(T)
    old = None
    if os.path.exists(out):
        with open(out) as f:
            old = f.read()
    if old == text:
        print("EXTRACT-UNCHANGED")
        return 0
    if check_only:
        print("EXTRACT-CHANGED")
        return 1
    with open(out, "w") as f:
        f.write(text)
    print("EXTRACT-WROTE")
    return 0


if __name__ == "__main__":
    sys.exit(main(sys.argv[1:]))
