"""Receive-side generators and helpers shared by C02 C03 C04 C05 C07 C08 C17."""
import itertools

import common
import session
from simnet import srv_frame
srv_frame = srv_frame  # re-export


def payload(rnd, n, kind=None):
    kind = kind or rnd.choice(["ascii", "bin", "utf8"])
    if kind == "ascii":
        return bytes(rnd.randrange(0x20, 0x7f) for _ in range(n))
    if kind == "utf8":
        out = b""
        # one character per lead-byte class of Table 3-7 (C2..DF, E0, E1..EC, ED, EE..EF, F0, F1..F3, F4) and the ends of the planes
        pool = ["a", "é", "κ", "€", "😀", "z", "\u0800", "\ud7ff", "\ue000", "\ufffd", "\U00010000", "\U00040000",
                "\U000d0000", "\U000e0041", "\U000fffff", "\U00100000", "\U0010ffff",
                "\ufeff"]       # U+FEFF is a character like any other, also as the FIRST one of a text (no "BOM" in RFC 6455)
        while len(out) < n:
            out += rnd.choice(pool).encode()
        # cut on a character boundary
        while True:
            try:
                out[:n].decode()
                return out[:n]
            except UnicodeDecodeError:
                n -= 1
    return bytes(rnd.randrange(256) for _ in range(n))


class F:
    """one server frame, with its encoding choices."""
    __slots__ = ("op", "data", "fin", "rsv", "mask", "form")

    def __init__(self, op, data=b"", fin=1, rsv=0, mask=None, form=None):
        self.op, self.data, self.fin, self.rsv, self.mask, self.form = op, data, fin, rsv, mask, form

    def enc(self):
        return srv_frame(self.op, self.data, self.fin, self.rsv, self.mask, self.form)

    def desc(self):
        return f"{'F' if self.fin else 'f'}{self.op}r{self.rsv}:{len(self.data)}{'m' if self.mask else ''}{self.form or ''}"


def message(rnd, op, data, nfrag, ctrl_between=0, allow_empty=True):
    """frames of one message cut into nfrag fragments, with control frames in the gaps."""
    n = len(data)
    if nfrag <= 1:
        cuts = []
    else:
        cuts = sorted(rnd.randrange(0, n + 1) for _ in range(nfrag - 1))
        if not allow_empty:
            cuts = sorted(set(c for c in cuts if 0 < c < n))
    pts = [0] + cuts + [n]
    frames = []
    k = len(pts) - 1
    for i in range(k):
        if i > 0:
            for _ in range(rnd.randint(0, ctrl_between)):
                frames.append(control(rnd))
        frames.append(F(op if i == 0 else 0, data[pts[i]:pts[i + 1]], fin=1 if i == k - 1 else 0))
    return frames


def control(rnd, kinds=(9, 10)):
    op = rnd.choice(kinds)
    return F(op, payload(rnd, rnd.choice([0, 1, 5, 125, rnd.randint(0, 125)]), "bin"))


def randomize_encoding(rnd, frames, p_mask=0.3, p_nonmin=0.2):
    for f in frames:
        if rnd.random() < p_mask:
            f.mask = bytes(rnd.randrange(256) for _ in range(4))
        if rnd.random() < p_nonmin:
            n = len(f.data)
            f.form = rnd.choice([16, 64]) if n <= 125 else (64 if n <= 0xFFFF else None)
    return frames


def partitions(stream, rnd, limit, exhaustive_upto=12):
    """list of chunkings (lists of bytes) of `stream`."""
    n = len(stream)
    outs = [[stream]]
    if n <= 1500:
        outs.append([stream[i:i + 1] for i in range(n)])
    if n <= exhaustive_upto:
        outs = []
        for mask in range(1 << max(n - 1, 0)):
            cuts = [i + 1 for i in range(n - 1) if mask >> i & 1]
            pts = [0] + cuts + [n]
            outs.append([stream[a:b] for a, b in zip(pts, pts[1:])])
        return outs
    for _ in range(limit):
        k = rnd.choice([1, 2, 3, 5, 8, max(1, min(n // 3, 64))])
        cuts = sorted(set(rnd.randrange(1, n) for _ in range(k))) if n > 1 else []
        pts = [0] + cuts + [n]
        outs.append([stream[a:b] for a, b in zip(pts, pts[1:])])
    return outs


_NEIGHBOURS = []


def neighbours():
    """Other connections alive in the same process, left in the middle of things, plus some traced traffic before anything
    else happens: a connection is an object — what another object has buffered, half-read or half-reassembled, and what the
    process has formatted or logged before, must not show in it.  Created once per process; the sessions of every
    receive-side check then run next to them.  (On the library as it is they change nothing: all state is per instance.)"""
    if _NEIGHBOURS:
        return _NEIGHBOURS
    import websocket
    from simnet import srv_frame, SimSocket
    # (1) warm-up with tracing on: unmasked frames of every opcode and of the lengths the checks use are received (and so
    #     formatted for the trace lines), masked ones are sent — whatever the process remembers from that must not leak
    with session.tracing(True):
        ws = websocket.WebSocket()
        # (pongs, data and close-sized frames first: the pongs the library writes for the pings come after them)
        stream = b"".join(srv_frame(op, bytes([0x61 + (n % 26)]) * n) for op in (10, 2, 1, 9) for n in (0, 1, 2, 5, 20, 125)) + \
            srv_frame(1, b"x" * 126) + srv_frame(2, b"y" * 300)
        ws.sock = SimSocket([("chunk", stream)], tail="timeout")
        ws.sock.timeout = 0.01
        ws.connected = True
        ws.set_mask_key(lambda n: b"\x5a" * n)
        for _ in range(30):
            try:
                ws.recv_data(True)
            except Exception:  # noqa
                break
        for n in (0, 1, 2, 5, 20, 125, 126, 300):
            ws.send_binary(b"z" * n)
        _NEIGHBOURS.append(ws)
    # (2) a connection interrupted inside a fragmented message AND inside a frame: one text fragment taken, a second
    #     frame's header and two payload bytes buffered, then silence
    for fire in (True, False):
        ws = websocket.WebSocket(fire_cont_frame=fire)
        ws.sock = SimSocket([("chunk", srv_frame(1, b"Hello, ", fin=0) + srv_frame(0, b"wor", fin=0)[:4])], tail="timeout")
        ws.sock.timeout = 0.01
        ws.connected = True
        for _ in range(2):
            try:
                ws.recv_data_frame(False)
            except Exception:  # noqa
                pass
        _NEIGHBOURS.append(ws)
    return _NEIGHBOURS


def poke_neighbour():
    """the half-finished neighbour gets one more fragment of ITS message (and is still not done)."""
    ws = neighbours()[-1]
    ws.sock.events[:] = [("chunk", srv_frame(0, b"wor", fin=0)[4:] + srv_frame(0, b"ld", fin=0)[:3])]
    try:
        ws.recv_data_frame(False)
    except Exception:  # noqa
        pass
    ws.sock.events[:] = [("chunk", srv_frame(0, b"ld", fin=0)[3:] + srv_frame(0, b"wor", fin=0)[:4])]
    try:
        ws.recv_data_frame(False)
    except Exception:  # noqa
        pass


def run_sessions(ctx, label, sessions, **kw):
    """sessions: list of (cfg, events, ops). Runs the real code and the model, diffs, returns
    [(impl_out, model_out, ws, sock)]."""
    lines, impls, objs = [], [], []
    neighbours()
    for si, (cfg, events, ops) in enumerate(sessions):
        if si % 40 == 0:
            poke_neighbour()
        # every other session goes through the alternative spellings of the public API (next()/iteration, send_binary,
        # send_bytes, send_text); the model line is the same
        if si % 2:
            ops = session.alias_ops(ops, f"{label}:{si}")
        if si % 5 == 4:
            cfg = dict(cfg or {}, mt=False)         # every fifth session on an object built with enable_multithread=False
        kw2 = kw
        if si % 7 == 3 and "trace" not in kw:
            kw2 = dict(kw, trace=True)              # every seventh session with enableTrace(True): logging is not behaviour
        if si % 9 == 5 and "keymode" not in kw2 and (cfg or {}).get("conn", True) and (cfg or {}).get("mt", True):
            # every ninth session on a connection made by the documented factory `create_connection(url, socket=...)`,
            # options that are off left out: the receive path must not depend on how the object was made
            kw2 = dict(kw2, keymode="factory")
        out, ws, sock = session.run_impl(cfg, events, ops, **kw2)
        lines.append(session.line(cfg, events, ops))
        impls.append(out)
        objs.append((ws, sock))
    mo = common.run_driver_parallel(lines)
    common.compare_streams(ctx, label, lines, mo, impls)
    return [(i, m, o[0], o[1], l) for i, m, o, l in zip(impls, mo, objs, lines)]


def results(out):
    """per-op result strings of a rendered session (without state columns)."""
    parts = out.split(";")
    return [p.split("|")[0] for p in parts[:-1]]


def states(out):
    return [p.split("|") for p in out.split(";")[:-1]]


def spec_decode_all(streams):
    outs = common.run_driver_parallel(["s-decode-all " + (s.hex() or "-") for s in streams])
    res = []
    for o in outs:
        parts = o.split(";")
        rest = 0
        if parts and parts[-1].startswith("rest="):
            rest = int(parts.pop()[5:])
        res.append((parts, rest))
    return res
