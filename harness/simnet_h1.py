"""Simulated resolver / sockets / TLS / environment for the connection set-up (C18, C19, C20).

`Net` is one scripted world:
    addrs      list of connect outcomes, one per resolved address ("a" accept, "r" ECONNREFUSED,
               "u" ENETUNREACH, "o<errno>" another OSError, "o0" = socket.timeout), or None = gaierror
    proxy_reply   bytes the proxy sends after a CONNECT request
    on_request    callback(request_bytes) -> response bytes for a WebSocket upgrade request
                  (default: a correct 101 for the request's key, plus `set_cookies` lines)
Everything the code does is appended to `net.log` on one timeline:
    ("resolve", host, port) ("create", i) ("settimeout", i, t) ("setsockopt", i, (l, n, v))
    ("connect", i, addr) ("close", i) ("send", i, bytes) ("tls", i, server_hostname)
`patched(net, env)` substitutes `websocket._http.socket`, `websocket._http._wrap_sni_socket`
and the `os` seen by `websocket._url` / `websocket._http`; everything is restored on exit.
"""
import base64
import contextlib
import errno
import hashlib
import socket as real_socket
import types

NONE_TIMEOUT = 999999      # how `None` is written in driver lines


def enc_timeout(t):
    return NONE_TIMEOUT if t is None else int(t)


class FakeSock:
    def __init__(self, net, i):
        self.net, self.i = net, i
        self.timeout = None
        self.closed = False
        self.inbox = bytearray()
        self.outbuf = bytearray()
        self.sent = bytearray()

    def settimeout(self, t):
        self.timeout = t
        self.net.log.append(("settimeout", self.i, t))

    def gettimeout(self):
        return self.timeout

    def setsockopt(self, *a):
        self.net.log.append(("setsockopt", self.i, tuple(a)))

    def fileno(self):
        return 100 + self.i

    def pending(self):
        return 0

    def connect(self, address):
        self.net.log.append(("connect", self.i, address))
        o = self.net.addrs[self.i - self.net.base]        # position among the addresses of the CURRENT resolution
        if o == "a":
            return
        if o == "r":
            raise ConnectionRefusedError(errno.ECONNREFUSED, "Connection refused")
        if o == "u":
            raise OSError(errno.ENETUNREACH, "Network is unreachable")
        code = int(o[1:])
        if code == 0:
            raise real_socket.timeout("timed out")
        raise OSError(code, "simulated errno %d" % code)

    def close(self):
        self.closed = True
        self.net.log.append(("close", self.i))

    def shutdown(self, how):
        pass

    def send(self, data):
        data = bytes(data)
        self.sent += data
        self.outbuf += data
        while b"\r\n\r\n" in self.outbuf:
            k = self.outbuf.index(b"\r\n\r\n") + 4
            req = bytes(self.outbuf[:k])
            del self.outbuf[:k]
            self.net.log.append(("send", self.i, req))
            if req.startswith(b"CONNECT "):
                self.inbox += self.net.proxy_reply
            else:
                self.inbox += self.net.respond(req)
        return len(data)

    def sendall(self, data):
        self.send(data)

    def recv(self, n):
        if self.closed:
            raise OSError(9, "Bad file descriptor")
        out = bytes(self.inbox[:n])
        del self.inbox[:n]
        return out


class Net:
    def __init__(self, addrs=("a",), proxy_reply=b"HTTP/1.1 200 Connection established\r\n\r\n",
                 set_cookies=(), ip_base="192.0.2.", redirects=()):
        self.addrs = None if addrs is None else list(addrs)
        self.proxy_reply = bytes(proxy_reply)
        self.set_cookies = list(set_cookies)     # Set-Cookie header values of the next 101 response
        self.log = []
        self.socks = []
        self.ip_base = ip_base
        self.requests = []
        self.base = 0            # sockets created before the latest getaddrinfo (each connection resolves afresh)
        # the i-th upgrade request is answered `302 Location: redirects[i][0]` (with the Set-Cookie values redirects[i][1]);
        # requests beyond the list get the 101
        self.redirects = [(r, ()) if isinstance(r, str) else (r[0], tuple(r[1])) for r in redirects]

    # --- responder for upgrade requests
    def respond(self, req):
        self.requests.append(req)
        k = len(self.requests) - 1
        if k < len(self.redirects):
            loc, cks = self.redirects[k]
            head = [b"HTTP/1.1 302 Found", b"Location: " + loc.encode()] + [b"Set-Cookie: " + c.encode() for c in cks]
            return b"\r\n".join(head) + b"\r\n\r\n"
        key = None
        for line in req.split(b"\r\n")[1:]:
            if line.lower().startswith(b"sec-websocket-key:"):
                key = line.split(b":", 1)[1].strip()
        acc = base64.b64encode(hashlib.sha1((key or b"") + b"258EAFA5-E914-47DA-95CA-C5AB0DC85B11").digest())
        head = [b"HTTP/1.1 101 Switching Protocols", b"Upgrade: websocket", b"Connection: Upgrade",
                b"Sec-WebSocket-Accept: " + acc]
        for sc in self.set_cookies:
            head.append(b"Set-Cookie: " + sc.encode())
        return b"\r\n".join(head) + b"\r\n\r\n"

    # --- the fake `socket` module
    def module(self):
        net = self
        m = types.SimpleNamespace()
        for k in dir(real_socket):
            if k.isupper() or k in ("error", "gaierror", "timeout", "herror"):
                setattr(m, k, getattr(real_socket, k))

        def getaddrinfo(host, port, family=0, type=0, proto=0, flags=0):
            net.log.append(("resolve", host, port))
            net.base = len(net.socks)
            if net.addrs is None:
                raise real_socket.gaierror(-2, "Name or service not known")
            if getattr(net, "v6", False) in ("mixed46", "mixed64"):
                # a dual-stack answer: IPv6 and IPv4 entries interleaved; every socket must be made for ITS entry's family
                first6 = net.v6 == "mixed64"
                net.resolved, infos = [], []
                for i in range(len(net.addrs)):
                    if (i % 2 == 0) == first6:
                        a = (f"fe80::{i + 1:x}", port, 0, 3)
                        infos.append((real_socket.AF_INET6, real_socket.SOCK_STREAM, 6, "", a))
                    else:
                        a = (net.ip_base + str(i + 1), port)
                        infos.append((real_socket.AF_INET, real_socket.SOCK_STREAM, 6, "", a))
                    net.resolved.append(a)
                net.infos = infos
                return list(infos)
            if getattr(net, "v6", False):
                # link-local IPv6 answers: the sockaddr is (host, port, flowinfo, scope_id) and is what connect() must be given
                net.resolved = [(f"fe80::{i + 1:x}", port, 0, 3) for i in range(len(net.addrs))]
                return [(real_socket.AF_INET6, real_socket.SOCK_STREAM, 6, "", a) for a in net.resolved]
            net.resolved = [(net.ip_base + str(i + 1), port) for i in range(len(net.addrs))]
            return [(real_socket.AF_INET, real_socket.SOCK_STREAM, 6, "", a) for a in net.resolved]

        def mk(family=-1, type=-1, proto=-1, fileno=None):
            s = FakeSock(net, len(net.socks))
            s.ctor = (family, type, proto)
            net.socks.append(s)
            net.log.append(("create", s.i))
            return s

        m.getaddrinfo = getaddrinfo
        m.socket = mk
        return m


@contextlib.contextmanager
def patched(net, env=None):
    """run the real connection code inside the simulated world."""
    import websocket._http as H
    import websocket._url as U
    saved = (H.socket, H._wrap_sni_socket, U.os, H.os)
    fake_os = types.SimpleNamespace(environ=dict(env or {}), path=saved[3].path)

    def wrap(sock, sslopt, hostname, check_hostname):
        net.log.append(("tls", getattr(sock, "i", -1), hostname))
        return sock

    H.socket = net.module()
    H._wrap_sni_socket = wrap
    U.os = fake_os
    H.os = fake_os
    try:
        yield net
    finally:
        H.socket, H._wrap_sni_socket, U.os, H.os = saved


@contextlib.contextmanager
def patched_env(env):
    """only the environment (unit calls of websocket._url functions)."""
    import websocket._url as U
    saved = U.os
    U.os = types.SimpleNamespace(environ=dict(env or {}))
    try:
        yield
    finally:
        U.os = saved


# ---- rendering shared with lean/WS/Driver/OpsH1.lean ---------------------------------------

def hx(s):
    """text argument: hex of UTF-8, `-` when empty."""
    if isinstance(s, str):
        s = s.encode("utf-8", "surrogatepass")
    return bytes(s).hex() if s else "-"


def hx_item(s):
    return hx(s) if s else "~"


def hx_opt(s):
    return "!" if s is None else hx(s)


def hx_list(l):
    if not l:
        return "-"
    return ",".join(hx_item(x) for x in l)


def env_arg(env):
    if not env:
        return "-"
    return ",".join(f"{k}={hx_item(v)}" for k, v in env.items())


def auth_arg(a):
    if a is None:
        return "!"
    u, p = a
    return f"{hx(u or '')}:{hx(p or '')}"


def outcomes_arg(addrs):
    if addrs is None:
        return "gai"
    return ",".join(addrs) if addrs else "-"


def canon_opt(s):
    """`socket.SOL_TCP|socket.TCP_NODELAY|1` -> `6|1|1`"""
    out = []
    for part in s.split("|"):
        part = part.strip()
        if part.startswith("socket."):
            out.append(str(int(getattr(real_socket, part[7:]))))
        else:
            out.append(str(int(part)))
    return "|".join(out)


def canon_model_events(evs):
    """translate the symbolic default options in a model/spec event list to numbers."""
    if evs == "-":
        return evs
    out = []
    for e in evs.split(","):
        if e.startswith("o") and ":" in e:
            head, opt = e.split(":", 1)
            out.append(head + ":" + canon_opt(opt))
        else:
            out.append(e)
    return ",".join(out)


def render_events(log, with_sends=True):
    out = []
    for e in log:
        k = e[0]
        if k == "resolve":
            out.append(f"R{hx(e[1] if isinstance(e[1], str) else str(e[1]))}:{e[2]}")
        elif k == "create":
            out.append(f"c{e[1]}")
        elif k == "settimeout":
            out.append(f"t{e[1]}:{enc_timeout(e[2])}")
        elif k == "setsockopt":
            out.append(f"o{e[1]}:" + "|".join(str(int(x)) for x in e[2]))
        elif k == "connect":
            out.append(f"n{e[1]}")
        elif k == "close":
            out.append(f"x{e[1]}")
        elif k == "send" and with_sends:
            out.append(f"S{e[1]}:{hx(e[2])}")
        elif k == "tls":
            out.append(f"T{e[1]}:{hx(e[2] or '')}")
    return ",".join(out) if out else "-"


def outcome_of_exception(e):
    if isinstance(e, real_socket.timeout) and e.errno is None:
        return "o0"
    if e.errno == errno.ECONNREFUSED:
        return "r"
    if e.errno == errno.ENETUNREACH:
        return "u"
    return f"o{e.errno or 0}"
