"""Deterministic interleavings of real threads (C12): exactly one thread runs at a time; control changes
hands only at yield points (lock acquire / release, transport send / recv).  A schedule is a list of thread
ids; an entry naming a finished thread or one blocked on a held lock is consumed without effect — the same
semantics as lean/WS/Model/Threads.lean."""
import threading


class Baton:
    def __init__(self):
        self.ts = {}
        self.by_ident = {}
        self.back = threading.Semaphore(0)
        self.effective = []
        self.steps = []                 # (thread id, the yield point it was at, the lock concerned) for every schedule entry

    class T:
        def __init__(self, tid, fn):
            self.tid, self.fn = tid, fn
            self.go = threading.Semaphore(0)
            self.at = "new"
            self.lock = None
            self.result = None
            self.exc = None
            self.thread = None

    def spawn(self, tid, fn):
        t = Baton.T(tid, fn)
        self.ts[tid] = t

        def body():
            self.by_ident[threading.get_ident()] = t
            t.go.acquire()
            try:
                t.result = fn()
            except BaseException as e:  # noqa
                t.exc = e
            t.at = "done"
            self.back.release()
        t.thread = threading.Thread(target=body, daemon=True)
        t.thread.start()

    def yield_point(self, kind, lock=None):
        t = self.by_ident.get(threading.get_ident())
        if t is None:
            return                      # not one of ours (e.g. main thread during setup)
        t.at, t.lock = kind, lock
        self.back.release()
        t.go.acquire()

    def _runnable(self, t):
        if t.at == "done":
            return False
        if t.at == "acquire" and t.lock is not None and t.lock.held:
            return False
        return True

    def _step(self, t):
        t.go.release()
        if not self.back.acquire(timeout=20):
            raise RuntimeError("baton: thread did not reach a yield point")

    def run(self, schedule, prestart=True):
        order = sorted(self.ts)
        if prestart:
            for tid in order:               # run every thread to its first yield point (format + key draw happen here)
                self._step(self.ts[tid])
        for tid in schedule:
            t = self.ts.get(tid)
            self.effective.append(tid)
            self.steps.append((tid, t.at if t is not None else None, t.lock if t is not None else None))
            if t is None or not self._runnable(t):
                continue
            self._step(t)
        # completion: lowest runnable thread first
        guard = 0
        while any(t.at != "done" for t in self.ts.values()):
            guard += 1
            if guard > 100000:
                raise RuntimeError("baton: no progress")
            cand = [tid for tid in order if self._runnable(self.ts[tid])]
            if not cand:
                raise RuntimeError("baton: deadlock")
            self.effective.append(cand[0])
            self.steps.append((cand[0], self.ts[cand[0]].at, self.ts[cand[0]].lock))
            self._step(self.ts[cand[0]])
        for t in self.ts.values():
            t.thread.join(5)
        return self.effective


class SimLock:
    def __init__(self, baton, name=""):
        self.baton, self.name, self.held = baton, name, False
        self.log = []                   # thread ids in the order they acquired this lock

    def acquire(self, *a, **k):
        self.baton.yield_point("acquire", self)
        assert not self.held, "scheduled while the lock is held"
        self.held = True
        t = self.baton.by_ident.get(threading.get_ident())
        self.log.append(t.tid if t is not None else None)
        return True

    def release(self):
        self.baton.yield_point("release", self)
        self.held = False
        # a second yield point right after the release: another thread may run between the end of a critical
        # section and whatever the releasing thread does next (e.g. updating state outside the lock)
        self.baton.yield_point("released", self)

    def __enter__(self):
        self.acquire()

    def __exit__(self, *a):
        self.release()


class BatonSocket:
    """wraps a SimSocket: send/recv are yield points."""

    def __init__(self, sock, baton):
        self._s, self._b = sock, baton

    def send(self, data):
        self._b.yield_point("send")
        return self._s.send(data)

    def recv(self, n):
        self._b.yield_point("recv")
        return self._s.recv(n)

    def __getattr__(self, k):
        return getattr(self._s, k)


import contextlib


@contextlib.contextmanager
def library_locks(b):
    """While active, every lock the LIBRARY creates (threading.Lock() in _core, Lock() in _abnf) is a SimLock of baton `b` —
    the objects keep the locks they chose to make, where and when they chose to make them (the harness assigns none), and the
    creation of a lock by a scheduled thread is itself a pair of yield points: a thread can be preempted between deciding that
    a lock is needed and publishing it."""
    from websocket import _abnf, _core

    def make():
        b.yield_point("alloc")
        lk = SimLock(b, "lib")
        b.yield_point("alloc-done")
        return lk

    class Shim:
        def __getattr__(self, name):
            return getattr(threading, name)

        Lock = staticmethod(make)
    old = (_core.threading, _abnf.Lock)
    _core.threading, _abnf.Lock = Shim(), make
    try:
        yield
    finally:
        _core.threading, _abnf.Lock = old
