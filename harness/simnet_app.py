"""Simulated network for the WebSocketApp layer (C13-C16): scripted servers in virtual time.

`Net(sched, outcomes)` is a stand-in for the `socket` module inside `websocket._http`
(`getaddrinfo`, `socket()`, `connect` outcomes).  Every successful dial creates an `AppSocket` whose
peer is a scripted server: it answers the opening request at once (101 with the right accept value,
or a rejection status) and then delivers frames at scripted virtual arrival times, followed by
eof / reset / silence.  `AppSocket(ssl_style=True)` imitates an `ssl.SSLSocket`: a segment is
decrypted as a whole on the first `recv`, the rest waits in a buffer that only `pending()` reveals
(`select` sees raw segments only).

Everything observable is appended to the scheduler's trace:
  ("dial", i)  ("sockClosed", i)  ("wrote", opcode, payload)  ("sentRaw", i, n)
"""
import base64
import errno
import hashlib
import socket as _real_socket
import struct
import weakref

GUID = b"258EAFA5-E914-47DA-95CA-C5AB0DC85B11"


def srv_frame(opcode, payload=b"", fin=1, rsv1=0):
    """an unmasked server frame."""
    b0 = (fin << 7) | (rsv1 << 6) | opcode
    n = len(payload)
    if n < 126:
        hd = bytes([b0, n])
    elif n < 65536:
        hd = bytes([b0, 126]) + struct.pack("!H", n)
    else:
        hd = bytes([b0, 127]) + struct.pack("!Q", n)
    return hd + bytes(payload)


def parse_client_frames(buf):
    """decode complete masked client frames from buf -> ([(fin, opcode, payload)], rest)."""
    out = []
    while True:
        if len(buf) < 2:
            return out, buf
        b0, b1 = buf[0], buf[1]
        n = b1 & 0x7F
        p = 2
        if n == 126:
            if len(buf) < 4:
                return out, buf
            n = struct.unpack("!H", buf[2:4])[0]
            p = 4
        elif n == 127:
            if len(buf) < 10:
                return out, buf
            n = struct.unpack("!Q", buf[2:10])[0]
            p = 10
        masked = b1 & 0x80
        key = b""
        if masked:
            if len(buf) < p + 4:
                return out, buf
            key = buf[p:p + 4]
            p += 4
        if len(buf) < p + n:
            return out, buf
        data = bytes(buf[p:p + n])
        if masked:
            data = bytes(c ^ key[i % 4] for i, c in enumerate(data))
        out.append((b0 >> 7, b0 & 0x0F, data, bool(masked)))
        buf = buf[p + n:]


class SockRec:
    """what the harness remembers about a transport without keeping it alive."""

    def __init__(self, idx):
        self.idx = idx
        self.dialled = False
        self.connected = False
        self.closed = False
        self.dropped = False
        self.frames_written = []


class AppSocket:
    """one transport.  script: list of (rel_ticks, item) with item = bytes | "eof" | "reset";
    times are relative to the moment the connection is established and non-decreasing."""

    def __init__(self, sched, idx, script=(), reject=None, ssl_style=False, accept_mangle=None):
        self.s = sched
        self.idx = idx
        self.script = list(script)
        self.reject = reject
        self.ssl_style = ssl_style
        self.accept_mangle = accept_mangle
        self.t0 = None
        self.rec = SockRec(idx)
        self.connected = False
        self.dialled = False
        self.closed = False
        self.dead = False            # after a reset: writes fail
        self.eof = False
        self.timeout = None
        self.inq = []                # (abs_ticks, item) not yet handed to the client
        self.dec = b""               # ssl_style: decrypted, not yet read
        self.hs_in = b""
        self.hs_done = False
        self.out = b""
        self.reads = []              # (time, nbytes) of every successful recv after the handshake
        self.select_blocked = []

    # ---- establishment
    def establish(self):
        self.t0 = self.s.now
        self.connected = True
        self.dialled = True
        self.rec.connected = self.rec.dialled = True
        self.inq = [(self.t0 + dt, it) for dt, it in self.script]
        self.s.emit("dial", self.idx)

    # ---- plain socket API
    def settimeout(self, t):
        self.timeout = t

    def gettimeout(self):
        return self.timeout

    def setsockopt(self, *a):
        pass

    def fileno(self):
        return 1000 + self.idx

    def connect(self, addr):
        raise AssertionError("connect goes through Net")

    def _arrived(self):
        return bool(self.inq) and self.inq[0][0] <= self.s.now

    def sim_readable(self):
        """what select() sees: raw bytes / eof / error waiting (not the decrypted buffer)."""
        # (a CLOSED descriptor is silently dropped from the OS poll set — epoll, which `selectors.DefaultSelector` is on Linux —:
        #  a select() on it reports nothing, ever; only its timeout ends the wait)
        return (not self.closed) and (self.eof or self._arrived())

    def sim_next_time(self):
        return self.inq[0][0] if self.inq else None

    def pending(self):
        return len(self.dec)

    def _take(self, n):
        if self.ssl_style:
            if not self.dec:
                t, it = self.inq[0]
                if isinstance(it, (bytes, bytearray)):
                    self.inq.pop(0)
                    self.dec = bytes(it)
            if self.dec:
                d, self.dec = self.dec[:n], self.dec[n:]
                return d
        t, it = self.inq[0]
        if isinstance(it, (bytes, bytearray)):
            d, rest = it[:n], it[n:]
            if rest:
                self.inq[0] = (t, rest)
            else:
                self.inq.pop(0)
            return bytes(d)
        self.inq.pop(0)
        if it == "eof":
            self.eof = True
            self.inq = []
            return b""
        if it == "reset":
            self.dead = True
            self.eof = True
            self.inq = []
            raise ConnectionResetError(errno.ECONNRESET, "Connection reset by peer")
        raise AssertionError(it)

    def recv(self, n):
        if self.closed:
            raise OSError(errno.EBADF, "Bad file descriptor")
        if self.eof and not self.dec:
            return b""
        if not (self.dec or self._arrived()):
            if self.timeout == 0:
                raise BlockingIOError(errno.EAGAIN, "would block")
            dl = None if self.timeout is None else self.s.now + int(round(self.timeout * 1024))
            ok = self.s.block(lambda: self.closed or bool(self.dec) or self._arrived(), dl, self.sim_next_time)
            if self.closed:
                raise OSError(errno.EBADF, "Bad file descriptor")
            if not ok:
                raise _real_socket.timeout("timed out")
        d = self._take(n)
        if self.hs_done and d:
            self.reads.append((self.s.now, len(d)))
        return d

    def send(self, data):
        if self.closed:
            raise OSError(errno.EBADF, "Bad file descriptor")
        if self.dead:
            raise BrokenPipeError(errno.EPIPE, "Broken pipe")
        data = bytes(data)
        if not self.hs_done:
            self.hs_in += data
            if b"\r\n\r\n" in self.hs_in:
                self._answer_handshake()
            return len(data)
        wf = getattr(self.s, "writes_fail", None)
        if wf and self.idx == wf[0] and self.s.now >= wf[1]:
            # a half-dead path: the peer has become unreachable for writes while nothing (no reset, no end of stream) is read
            raise OSError(errno.EHOSTUNREACH, "No route to host")
        wo = getattr(self.s, "write_fails_once", None)
        if wo and self.idx == wo[0] and self.s.now >= wo[1] and not getattr(self.s, "write_failed_once", False):
            # a TRANSIENT failure of one write (send buffer momentarily full with a socket timeout set, ENOBUFS, ...): this
            # write fails, the connection and every later write are fine
            self.s.write_failed_once = True
            import socket as _so
            raise _so.timeout("timed out")
        self.out += data
        frames, self.out = parse_client_frames(self.out)
        for fin, op, payload, masked in frames:
            self.rec.frames_written.append((self.s.now, fin, op, payload, masked))
            self.s.emit("wrote", op, payload, fin, masked)
        # optional schedule element: a thread other than main is descheduled for `ticks` right after its write
        # returned (a legal interleaving: the OS may preempt a thread between any two statements)
        st = getattr(self.s, "stall_after_send", None)
        if st and self.s.current is not None and self.s.current.name != "main":
            self.s.stall_seen = getattr(self.s, "stall_seen", 0) + 1
            if self.s.stall_seen == st[0] + 1:
                self.s.block(None, self.s.now + st[1])
        return len(data)

    sendall = send

    def _answer_handshake(self):
        self.hs_done = True
        req = self.hs_in.decode("latin-1")
        key = ""
        for line in req.split("\r\n"):
            if line.lower().startswith("sec-websocket-key:"):
                key = line.split(":", 1)[1].strip()
        self.request = req
        if not hasattr(self.s, "requests"):
            self.s.requests = []
        self.s.requests.append((self.idx, req))
        for line in req.split("\r\n"):
            if line.lower().startswith("x-conn-seq:"):
                # (scenarios with a callable `header`) which value THIS connection's request carries
                self.s.emit("cbtext", f"hs:{self.idx}:{line.split(':', 1)[1].strip()}")
        if self.reject is not None:
            resp = f"HTTP/1.1 {self.reject} Rejected\r\n\r\n".encode()
        else:
            acc = base64.b64encode(hashlib.sha1(key.encode() + GUID).digest()).decode()
            if self.accept_mangle:
                acc = self.accept_mangle(acc)
            resp = ("HTTP/1.1 101 Switching Protocols\r\nUpgrade: websocket\r\nConnection: Upgrade\r\n"
                    f"Sec-WebSocket-Accept: {acc}\r\n\r\n").encode()
        # the response is available at once, ahead of everything scripted
        self.inq.insert(0, (self.s.now, resp))

    def shutdown(self, how=None):
        if self.closed:
            raise OSError(errno.EBADF, "Bad file descriptor")

    def close(self):
        if not self.closed:
            self.closed = True
            self.rec.closed = True
            if self.dialled:
                self.s.emit("sockClosed", self.idx)

    def unread_arrived(self):
        """bytes that have arrived (raw or decrypted) and the client has not read."""
        n = len(self.dec)
        for t, it in self.inq:
            if t <= self.s.now and isinstance(it, (bytes, bytearray)):
                n += len(it)
        return n


class Net:
    """stand-in for the `socket` module in websocket._http.  outcomes[i] for the i-th socket():
         ("refused",) | ("rejected", status) | ("established", script)
    exhausted -> `tail` (default refused)."""

    def __init__(self, sched, outcomes, ssl_style=False, tail=("refused",)):
        self.s = sched
        self.outcomes = list(outcomes)
        self.tail = tail
        self.ssl_style = ssl_style
        self.socks = []              # weak references: the transports must be collectable
        self.recs = []
        self.attempts = []           # (time, outcome kind)
        # names the code under test reads from the module
        for k in ("AF_INET", "AF_INET6", "SOCK_STREAM", "SOL_TCP", "SOL_SOCKET", "IPPROTO_TCP", "SHUT_RDWR",
                  "SO_KEEPALIVE", "TCP_NODELAY", "error", "timeout", "gaierror", "herror"):
            setattr(self, k, getattr(_real_socket, k))

    def getaddrinfo(self, host, port, *a, **k):
        return [(_real_socket.AF_INET, _real_socket.SOCK_STREAM, 6, "", ("10.0.0.1", port))]

    def socket(self, family=None, typ=None, proto=None):
        i = len(self.recs)
        oc = self.outcomes[i] if i < len(self.outcomes) else self.tail
        net = self

        class _S(AppSocket):
            def connect(self_, addr):
                net.attempts.append((net.s.now, oc[0]))
                if oc[0] == "refused":
                    self_.dialled = self_.rec.dialled = True
                    net.s.emit("dial", self_.idx)
                    net.s.emit("dialFailed", self_.idx)
                    raise ConnectionRefusedError(errno.ECONNREFUSED, "Connection refused")
                self_.establish()

        if oc[0] == "rejected":
            sk = _S(self.s, i, (), reject=oc[1], ssl_style=self.ssl_style)
        elif oc[0] == "established":
            sk = _S(self.s, i, oc[1], ssl_style=self.ssl_style)
        else:
            sk = _S(self.s, i, (), ssl_style=self.ssl_style)
        self.recs.append(sk.rec)
        self.socks.append(weakref.ref(sk))
        rec, sched = sk.rec, self.s

        def dropped():
            if rec.connected and not rec.closed and not rec.dropped:
                rec.dropped = True
                sched.emit("sockDropped", rec.idx)
        weakref.finalize(sk, dropped)
        return sk

    def live(self):
        return [r.idx for r in self.recs if r.connected and not r.closed and not r.dropped]
