"""Scenarios of the WebSocketApp layer (C13-C16): one description drives both the Lean model
(`m-app`, lean/WS/Driver/OpsApp.lean) and the REAL `WebSocketApp.run_forever` under simsched/simnet_app;
both sides produce the same canonical trace text.

scenario = {
  "cbs": bitmask over CBS (bit i = callback i is set),
  "plan": {callback name: string over o/r/c/k per invocation}   (ok / raise / app.close() / KeyboardInterrupt)
  "iv": ping_interval ticks, "to": ping_timeout ticks | None, "payload": ascii ping payload,
  "rc": reconnect ticks (0 = off), "ssl": bool, "horizon": ticks,
  "runs": [ [dial, ...], ... ]     dial = ["R"] | ["J", status] | ["E", [[dt, burst, kind, hexpayload], ...]]
  "sched": string of 0/1           order at simultaneous wakes (1 = the other thread first)
  an event may be [dt, burst, kind, hex, cut, lead]: (real runs only) its first `cut` bytes arrive `lead` ticks early
  plan character "z" (real runs only): the handler takes "cb_delay" ticks
  "closer": optional [t, ...]      (real runs only) a second thread calling app.close() at tick t
  "write_fails_once": optional [i, t]   (real runs only) the first write on connection i from tick t on fails (socket.timeout), once
  "writes_fail": optional [i, t]   (real runs only) every write on connection i fails (EHOSTUNREACH) from tick t on; reads stay silent
}
kinds: t/T text whole/fragmented, b/B binary, p ping, q pong, c close, e eof, r reset, x protocol error,
       y payload error, h partial (first fragment of the following fragmented message, or of nothing).
One tick = 1/1024 s.
"""
import gc
import os
import zlib
import weakref

import common
import simsched
import simnet_app as N

CBS = ["on_open", "on_reconnect", "on_message", "on_data", "on_error", "on_close", "on_ping", "on_pong"]
ALL = 255
FUEL = 3000
TPS = simsched.TICKS


class UserExc(Exception):
    def __init__(self, name, k):
        Exception.__init__(self, f"user exception {name}#{k}")
        self.name, self.k = name, k


# ------------------------------------------------------------------ encoding for the driver

def enc_events(evs):
    # (an event may carry two more fields [cut, lead]: implementation-side segmentation, see script_of; the model's events
    #  are whole frames whatever the segmentation)
    return "+".join(f"{e[0]}.{int(bool(e[1]))}.{e[2]}{e[3]}" for e in evs)


def enc_dial(d):
    if d[0] == "R":
        return "R"
    if d[0] == "J":
        return f"J{d[1]}"
    return "E" + enc_events(d[1])


def enc_runs(runs):
    return "!".join("/".join(enc_dial(d) for d in r) if r else "-" for r in runs)


def model_line(sc):
    # (the plan characters of real-only scenarios — "z" a slow handler, "n" a nested run — are plain returns for the model/Spec)
    plan = "/".join("".join(ch if ch in "orck" else "o" for ch in sc.get("plan", {}).get(n, "")) or "-" for n in CBS)
    to = "N" if sc.get("to") is None else str(sc["to"])
    pl = sc.get("payload", "").encode().hex() or "-"
    cfg = ",".join([str(sc.get("cbs", ALL)), str(sc.get("iv", 0)), to, pl, str(sc.get("rc", 0)),
                    "1" if sc.get("ssl") else "0", str(sc.get("horizon", 60 * TPS)), str(sc.get("fuel", FUEL))])
    line = f"m-app {cfg} {plan} {enc_runs(sc['runs'])} {sc.get('sched') or '-'}"
    if sc.get("kopts"):
        # per-run keepalive settings [[iv, to], ...] (run_forever's ping_interval / ping_timeout are per-call arguments)
        line += " " + "!".join(f"{iv}.{'N' if to is None else to}" for iv, to in sc["kopts"])
    return line


def project(trace_text):
    """a trace without the events the real run cannot observe at a definite moment (`sockDropped` is seen
    through garbage collection only; its place in the real trace is not compared)."""
    if trace_text == "-":
        return ""
    return ";".join(e for e in trace_text.split(";") if ":sockDropped:" not in e)


project_model = project


# ------------------------------------------------------------------ events -> bytes

def script_of(evs):
    """[[dt, burst, kind, hex]] -> [(rel_ticks, bytes | 'eof' | 'reset')] (burst events share a segment)."""
    out = []
    t = 0
    pending_first = None       # a partial has sent the first fragment of the next message
    for i, ev in enumerate(evs):
        dt, burst, k, h = ev[:4]
        t += dt
        p = bytes.fromhex(h) if h else b""
        item = None
        if k in "tT" or k in "bB":
            op = 1 if k in "tT" else 2
            if pending_first is not None:
                item = N.srv_frame(0, p[len(pending_first):], fin=1)
                pending_first = None
            elif k in "TB":
                # (optional 5th field "ef": the FINAL fragment is empty — the whole payload travels in the first one)
                cut = len(p) if (len(ev) == 5 and ev[4] == "ef") else len(p) // 2
                item = N.srv_frame(op, p[:cut], fin=0) + N.srv_frame(0, p[cut:], fin=1)
            else:
                item = N.srv_frame(op, p)
        elif k == "h":
            nxt = evs[i + 1] if i + 1 < len(evs) else None
            if nxt is not None and nxt[2] in "TB":
                np_ = bytes.fromhex(nxt[3]) if nxt[3] else b""
                first = np_[:len(np_) // 2]
                item = N.srv_frame(1 if nxt[2] == "T" else 2, first, fin=0)
                pending_first = first
            else:
                item = N.srv_frame(1, b"zz", fin=0)
        elif k == "p":
            item = N.srv_frame(9, p)
        elif k == "q":
            item = N.srv_frame(10, p)
        elif k == "c":
            item = N.srv_frame(8, p)
        elif k == "x":
            item = N.srv_frame(1, b"x", rsv1=1)
        elif k == "y":
            item = N.srv_frame(1, b"\xff")
        elif k == "e":
            item = "eof"
        elif k == "r":
            item = "reset"
        else:
            raise ValueError(k)
        if burst and out and isinstance(out[-1][1], bytes) and isinstance(item, bytes) and out[-1][0] == t:
            out[-1] = (t, out[-1][1] + item)
        elif len(ev) >= 6 and isinstance(item, bytes) and 0 < ev[4] < len(item) and 0 < ev[5] < max(dt, 1):
            # segmentation: the first `cut` bytes of this frame arrive `lead` ticks early, in a segment of their own; the rest
            # arrives at the nominal time (and a following burst event shares THAT segment)
            out.append((t - ev[5], item[:ev[4]]))
            out.append((t, item[ev[4]:]))
        else:
            out.append((t, item))
    return out


def outcomes_of(run):
    oc = []
    for d in run:
        if d[0] == "R":
            oc.append(("refused",))
        elif d[0] == "J":
            oc.append(("rejected", d[1]))
        else:
            oc.append(("established", script_of(d[1])))
    return oc


# ------------------------------------------------------------------ canonical rendering of the real run

def hx(b):
    b = bytes(b)
    return b.hex() if b else "-"


def exn_out(e):
    from websocket._abnf import ABNF
    if isinstance(e, UserExc):
        return f"USER({e.name}#{e.k})"
    if isinstance(e, KeyboardInterrupt):
        return "KI"
    if isinstance(e, ABNF):
        return f"FRAME({hx(e.data)})"
    return common.canon_exc(e)


def arg_out(a):
    if a is None:
        return "N"
    if a is True:
        return "T"
    if a is False:
        return "F"
    if isinstance(a, int):
        return f"i{a}"
    if isinstance(a, str):
        return "s" + hx(a.encode("utf-8", "surrogatepass"))
    if isinstance(a, (bytes, bytearray)):
        return "b" + hx(a)
    if isinstance(a, BaseException) or type(a).__name__ == "ABNF":
        return "e" + exn_out(a)
    return "?" + type(a).__name__


def ev_out(ev):
    k = ev[0]
    if k == "cbtext":
        return ev[1]
    if k == "sockDropped":
        return f"sockDropped:{ev[1]}"
    if k == "dial":
        return f"dial:{ev[1]}"
    if k == "sleep":
        return f"sleep:{ev[1]}"
    if k == "wrote":
        return f"wrote:{ev[1]}:{hx(ev[2])}"
    if k == "sockClosed":
        return f"sockClosed:{ev[1]}"
    if k == "threadStart" and ev[1] == "_send_ping":
        return "pingStart"
    if k == "threadExit" and ev[1] == "_send_ping":
        return "pingStop"
    if k == "ret":
        return f"ret:{int(bool(ev[1]))}"
    if k == "raisedtext":
        return ev[1]
    if k == "blocked":
        return "blocked"
    if k == "closerCall":
        return "closeCall"
    return None


class ExtDispatcher:
    """a minimal conforming external dispatcher (the interface WrappedDispatcher uses: read, timeout, signal,
    abort, buffwrite) with an event loop `dispatch()` that runs under the virtual-time scheduler:
    readable sockets call their read callback (a falsy result unregisters it), timers fire at their tick
    (a truthy result re-arms them, as in `rel`)."""

    def __init__(self, sched):
        self.s = sched
        self.readers = {}
        self.timers = []
        self.seq = 0
        self.stopped = False

    def read(self, sock, callback):
        self.readers[id(sock)] = (sock, callback)

    def timeout(self, seconds, callback, *args):
        self.seq += 1
        d = simsched.ticks_of(seconds)
        if getattr(callback, "__name__", "") == "setSock":
            self.s.emit("sleep", d)
        self.timers.append([self.s.now + d, self.seq, callback, args, d])

    def signal(self, *a):
        pass

    def abort(self):
        self.stopped = True

    def buffwrite(self, sock, data, send, handle):
        send(sock, data)

    def _periodic_only(self):
        return all(getattr(t[2], "__name__", "") == "check" for t in self.timers)

    def dispatch(self):
        while not self.stopped:
            if not self.readers and self._periodic_only():
                return
            # a closed socket is no longer watched (the OS drops a closed descriptor from the poll set; `rel` likewise)
            for key in [key for key, (k, _) in self.readers.items() if getattr(k, "closed", False)]:
                self.readers.pop(key, None)
            socks = [k for k, _ in self.readers.values()]
            dl = min((t[0] for t in self.timers), default=None)

            def nt():
                c = [k.sim_next_time() for k in socks]
                c = [x for x in c if x is not None]
                return min(c) if c else None
            self.s.block(lambda: any(k.sim_readable() for k in socks), dl, nt)
            due = sorted([t for t in self.timers if t[0] <= self.s.now], key=lambda t: (t[0], t[1]))
            for t in due:
                self.timers.remove(t)
                r = t[2](*t[3])
                if r:
                    t[0] = self.s.now + t[4]
                    self.timers.append(t)
            for key, (k, cb) in list(self.readers.items()):
                if key in self.readers and not getattr(k, "closed", False) and k.sim_readable():
                    if not cb():
                        self.readers.pop(key, None)


class Real:
    """outcome of one real scenario."""
    pass


def run_real(sc, line_preempt=None, wall_s=20.0, max_steps=6000):
    """run the real WebSocketApp through every run of the scenario; returns Real."""
    import websocket
    from websocket import _http
    horizon = sc.get("horizon", 60 * TPS)
    s = simsched.Sched(schedule=[int(ch) for ch in (sc.get("sched") or "")], horizon=horizon,
                       wall_s=wall_s, max_steps=max_steps)
    if sc.get("stall_after_send"):
        s.stall_after_send = tuple(sc["stall_after_send"])
    if sc.get("writes_fail"):
        s.writes_fail = tuple(sc["writes_fail"])          # (connection index, tick): real runs only
    if sc.get("write_fails_once"):
        s.write_fails_once = tuple(sc["write_fails_once"])   # (connection index, tick): the first write from tick t on fails, once
    net = MultiNet(s, ssl_style=bool(sc.get("ssl")))
    plan = sc.get("plan", {})
    counts = {n: 0 for n in CBS}
    holder = {}

    def mk(name):
        def f(app, *args):
            if s.aborting:
                raise simsched.SimAbort()
            k = counts[name]
            counts[name] += 1
            s.emit("cbtext", f"cb:{name}:" + (",".join(arg_out(a) for a in args) if args else "-"))
            acts = plan.get(name, "")
            a = acts[k] if k < len(acts) else "o"
            if a == "r":
                raise UserExc(name, k)
            if a == "k":
                raise KeyboardInterrupt()
            if a == "c":
                app.close()
            if a == "n" and sc.get("nested_run"):
                # (real runs only) run_forever() again on the same object from inside this callback
                net.begin_run(outcomes_of(sc["nested_run"]))
                s.emit("ret", app.run_forever(**holder["rf"]))
            if a == "z":
                # (real runs only) a handler that TAKES TIME: `cb_delay` ticks pass inside the callback
                s.block(None, s.now + int(sc.get("cb_delay", 1)))
            if sc.get("cookie_rotate") and name in ("on_open", "on_reconnect"):
                # (real runs only) the application rotates its session cookie whenever a connection has come up
                holder["rot"] = holder.get("rot", 0) + 1
                app.cookie = f"session=s{holder['rot']}"
        f.__name__ = name
        # a callback is any callable: one scenario in three hands the library functools.partial objects, one in three
        # instances of a class with __call__ (neither has a __name__), the rest plain functions
        kind = sc.get("cb_kind") or ("function", "partial", "object")[zlib.crc32((str(sc.get("tag", "")) + str(sc.get("cbs")) + str(sc.get("plan"))).encode()) % 3]
        if kind == "partial":
            import functools
            return functools.partial(f)
        if kind == "object":
            class Handler:
                def __call__(self, *a):
                    return f(*a)
            return Handler()
        return f
    mask = sc.get("cbs", ALL)
    kw = {n: mk(n) for i, n in enumerate(CBS) if (mask >> i) & 1}
    url = "wss://sim.test/" if sc.get("ssl") else "ws://sim.test/"
    if sc.get("late_cbs"):
        # callbacks installed by attribute assignment AFTER construction (a documented way of setting them); with
        # "late_cbs" = "replace" the constructor first gets decoys that must never fire
        if sc["late_cbs"] == "replace":
            def decoy(*a):
                s.emit("cbtext", "cb:DECOY:-")
            app = websocket.WebSocketApp(url, **{n: decoy for n in kw})
        else:
            app = websocket.WebSocketApp(url)
        for n, f in kw.items():
            setattr(app, n, f)
    elif sc.get("positional"):
        # (real runs only) the constructor's arguments given POSITIONALLY, in the documented order of its signature:
        # url, header, on_open, on_reconnect, on_message, on_error, on_close, on_ping, on_pong, on_cont_message, keep_running,
        # get_mask_key, cookie, subprotocols, on_data   ("positional" = how many of them are positional; the rest by keyword)
        order = ["header", "on_open", "on_reconnect", "on_message", "on_error", "on_close", "on_ping", "on_pong",
                 "on_cont_message", "keep_running", "get_mask_key", "cookie", "subprotocols", "on_data"]
        dflt = {"keep_running": True}
        npos = int(sc["positional"])
        pos = [kw.get(n, dflt.get(n)) for n in order[:npos]]
        rest = {n: f for n, f in kw.items() if n not in order[:npos]}
        app = websocket.WebSocketApp(url, *pos, **rest)
    else:
        app = websocket.WebSocketApp(url, **kw)
    # (real runs only) per-fragment delivery: "cont_cb" = "init" (on_cont_message given to the constructor) | "late" (assigned
    # afterwards) | "removed" (given to the constructor, set to None before the run)
    if sc.get("cont_cb"):
        def on_cont(app_, data, fin):
            s.emit("cbtext", f"cb:on_cont_message:{arg_out(data)},{arg_out(fin)}")
        if sc["cont_cb"] in ("init", "removed"):
            app = websocket.WebSocketApp(url, on_cont_message=on_cont, **kw)
            if sc["cont_cb"] == "removed":
                app.on_cont_message = None
        else:
            app.on_cont_message = on_cont
    if sc.get("cookie_rotate"):
        app.cookie = "session=s0"
    if sc.get("header_seq"):
        # (real runs only) a callable `header` whose value differs for every connection
        seq = holder.setdefault("hseq", [0])

        def header_fn():
            seq[0] += 1
            if (seq[0] - 1) in (sc.get("header_raises") or ()):
                # the header provider itself fails on this attempt (a token service that is down, say)
                raise RuntimeError("header provider failed")
            return [f"X-Conn-Seq: {seq[0]}"]
        app.header = header_fn
    holder["app"] = app
    iv, to = sc.get("iv", 0), sc.get("to")
    rf = dict(ping_interval=(simsched.secs(iv) if iv else 0),
              ping_timeout=(None if to is None else (simsched.secs(to) if to else 0)),
              ping_payload=sc.get("payload", ""),
              reconnect=(simsched.secs(sc["rc"]) if sc.get("rc") else 0))
    # the process-wide default (websocket.setReconnect) and how the argument is spelled: "rc_arg" = "none" (argument left
    # out: the default applies) | ticks (explicit, 0 included: the default must NOT apply); "rc" stays the EFFECTIVE value
    if "rc_arg" in sc:
        rf["reconnect"] = None if sc["rc_arg"] == "none" else simsched.secs(sc["rc_arg"])
    if sc.get("skip"):
        rf["skip_utf8_validation"] = True
    holder["rf"] = rf
    import websocket._app as _A
    saved_rc = _A.RECONNECT
    alive = []
    live_at_ret = []
    go = [False]

    def main():
        if sc.get("trace"):
            # (real runs only) websocket.enableTrace(True): logging is not behaviour
            import logging
            import websocket._logging as _L0
            holder["log_state"] = (_L0._logger.level, _L0._logger.handlers[:])
            websocket.enableTrace(True, handler=logging.NullHandler())
        if "rc_global" in sc:
            websocket.setReconnect(simsched.secs(sc["rc_global"]))
        for ri, run in enumerate(sc["runs"]):
            net.begin_run(outcomes_of(run))
            holder["ri"] = ri
            if sc.get("sslopts"):
                # (real runs only) `sslopt` is an argument of each run_forever() call
                rf.pop("sslopt", None)
                if sc["sslopts"][ri] is not None:
                    rf["sslopt"] = dict(sc["sslopts"][ri])
            if sc.get("kopts"):
                kiv, kto = sc["kopts"][ri]
                rf["ping_interval"] = simsched.secs(kiv) if kiv else 0
                rf["ping_timeout"] = None if kto is None else (simsched.secs(kto) if kto else 0)
            try:
                if sc.get("ext"):
                    ext = ExtDispatcher(s)
                    app.run_forever(dispatcher=ext, **rf)
                    ext.dispatch()
                    r = app.has_errored
                else:
                    r = app.run_forever(**rf)
                alive.append([t.name for t in s.threads if t.state != "dead" and t is not s.current
                              and t.name != "closer"])
                # a close() still in progress in another thread finishes its work (it releases the transport)
                for t in s.threads:
                    if t.name == "closer" and t.state != "dead":
                        go[0] = True
                        s.block(lambda t=t: t.state == "dead", None)
                if net.live():
                    gc.collect()      # a transport that is merely unreachable is gone (sockDropped)
                s.emit("ret", r)
            except simsched.SimAbort:
                raise
            except BaseException as e:  # noqa
                if net.live():
                    gc.collect()
                s.emit("raisedtext", "raised:" + exn_out(e))
                del e
            if len(alive) < len(live_at_ret) + 1:
                alive.append([t.name for t in s.threads if t.state != "dead" and t is not s.current
                              and t.name != "closer"])
            live_at_ret.append(net.live())

    def closer_fn(t):
        def f():
            s.block(None, t)
            s.emit("closerCall")
            app.close()
        return f

    def closer_flag():
        s.block(lambda: go[0], None)
        s.emit("closerCall")
        app.close()

    def body():
        for t in sc.get("closer", []) or []:
            s.spawn("closer", closer_fn(t))
        if sc.get("closer_line") is not None:
            s.spawn("closer", closer_flag)
        main()

    wraps = []

    def _wrap(sock, sslopt, hostname):
        wraps.append((holder.get("ri"), dict(sslopt or {}), hostname))
        return sock
    extra = [(_http, "socket", net), (_http, "_ssl_socket", _wrap)]
    saved_env = {k: os.environ.pop(k) for k in list(os.environ)
                 if k.lower() in ("http_proxy", "https_proxy", "no_proxy", "all_proxy")}
    tracer = None
    try:
        with simsched.Patch(s, extra=extra):
            if sc.get("closer_line") is not None:
                tracer = simsched.LinePreempt(s, sc["closer_line"], action=lambda: go.__setitem__(0, True),
                                              prefix=os.path.dirname(websocket.__file__))
                tracer.install()
            elif sc.get("preempt_line") is not None:
                # (real runs only) the loop thread is preempted when it reaches [file, line, occurrence]: whoever else can
                # run (the ping thread whose wait has expired) runs until it blocks, then the loop thread goes on
                tracer = simsched.LinePreempt(s, list(sc["preempt_line"]), action=None,
                                              prefix=os.path.dirname(websocket.__file__))
                tracer.install()
            try:
                outcome = s.run(body)
            finally:
                if tracer:
                    tracer.remove()
    finally:
        os.environ.update(saved_env)
        _A.RECONNECT = saved_rc
        if sc.get("trace"):
            import websocket._logging as _L
            _L._traceEnabled = False
            if "log_state" in holder:
                _L._logger.setLevel(holder["log_state"][0])
                _L._logger.handlers[:] = holder["log_state"][1]
    res = Real()
    items = []
    for t, ev in s.trace:
        o = ev_out(ev)
        if o is not None:
            items.append(f"{t}:{o}")
    if s.abort_reason in ("horizon", "deadlock"):
        items.append(f"{horizon + 1}:blocked")
    res.trace = ";".join(items)
    res.raw = s.trace
    res.alive = alive
    res.outcome = outcome if outcome[0] != "exc" else ("exc", repr(outcome[1]))
    res.abort = s.abort_reason
    res.steps = s.steps
    res.choices = list(s.choices)
    res.select_stalls = [(t, ev[3]) for t, ev in s.trace if ev[0] == "select" and ev[2] is False and ev[3]]
    res.badframes = [(r.idx, f) for r in net.recs for f in r.frames_written if not f[4]]
    res.live_max = net.live_max
    res.lines = tracer.count if tracer else 0
    res.fired_at = tracer.fired_at if tracer else None
    # transports still open and still reachable after everything was dropped
    holder.clear()
    del kw, app
    gc.collect()
    res.leaked = net.live()
    res.leaked_at_return = live_at_ret
    res.wraps = wraps
    res.requests = list(getattr(s, "requests", []))
    return res



class MultiNet(N.Net):
    """Net whose outcome list is replaced at the start of every run (socket indices keep counting)."""

    def __init__(self, sched, ssl_style=False):
        N.Net.__init__(self, sched, [], ssl_style=ssl_style)
        self.base = 0
        self.live_max = 0

    def begin_run(self, outcomes):
        self.base = len(self.socks)
        self.outcomes = [None] * self.base + list(outcomes)

    def socket(self, *a, **k):
        sk = N.Net.socket(self, *a, **k)
        est = sk.establish

        def establish():
            est()
            self.live_max = max(self.live_max, len(self.live()))
        sk.establish = establish
        return sk


def run_model(scs):
    """model traces (projected) for a list of scenarios -- one batched driver call."""
    out = common.run_driver_parallel([model_line(sc) for sc in scs])
    return out
