-- root of the library: everything that must build (`lake build WS`)
import WS.Base.Bytes
import WS.Gen.Tables
import WS.Props.C06
import WS.Props.C01
import WS.Props.C02
import WS.Props.C05
import WS.Props.C04
import WS.Props.C07
import WS.Props.C03
import WS.Props.C18
import WS.Props.C19
import WS.Props.C20
import WS.Props.C08
import WS.Props.C17
import WS.Props.C12
