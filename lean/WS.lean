-- root of the library: everything that must build (`lake build WS`)
import WS.Base.Bytes
import WS.Gen.Tables
import WS.Props.C06
import WS.Props.C18
import WS.Props.C19
import WS.Props.C20
