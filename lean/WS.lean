-- root of the library: everything that must build (`lake build WS`)
import WS.Base.Bytes
import WS.Gen.Tables
import WS.Props.C06
import WS.Props.C09
import WS.Props.C10
import WS.Props.C11
import WS.Lemmas.Http
