-- root of the library: everything that must build (`lake build WS`)
import WS.Base.Bytes
import WS.Gen.Tables
import WS.Props.C06
import WS.Props.C13
import WS.Props.C14
import WS.Props.C15
import WS.Props.C16
