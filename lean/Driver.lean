/-
  wsdriver — line protocol between the Python harness and the Lean model/spec.
  One op per input line, one result per output line.  `m-…` ops run the Model (mirrors the
  code), `s-…` ops run the Spec (independent definitions the theorems are about).
-/
import WS.Driver.Ops

partial def loop (h : IO.FS.Stream) (out : IO.FS.Stream) : IO Unit := do
  let line ← h.getLine
  if line.isEmpty then return ()
  let l := String.ofList (line.toList.filter (fun c => c != '\n' && c != '\r'))
  out.putStrLn (WS.Driver.dispatch l)
  loop h out

def main : IO Unit := do
  let stdin ← IO.getStdin
  let stdout ← IO.getStdout
  loop stdin stdout
  stdout.flush
