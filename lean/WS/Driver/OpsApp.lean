/- WS.Driver.OpsApp — op group App (see AGENTS_GUIDE.md). Return `none` for ops not handled here. -/
import WS.Driver.Util
namespace WS.Driver.App
open WS WS.Driver

def ops : List String → Option String
  | _ => none

end WS.Driver.App
