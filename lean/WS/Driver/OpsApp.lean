/- WS.Driver.OpsApp — op group App (C13–C16): the WebSocketApp model and the trace specs.

   m-app <cfg> <plan> <runs> <sched> [<kopts>] → trace of Model.App.runMany (runManyK: per-run `<iv>.<to>` joined by `!`)
     cfg   = mask,iv,to,payload,reconnect,ssl,horizon,fuel   (mask: bit i = callback i set; to: N | int;
             payload hex or -; times in ticks of 1/1024 s)
     plan  = 8 strings over {o,r,c,k} separated by `/` (`-` = empty), one per callback in Cb.all order
     runs  = runs separated by `!`; a run = dial outcomes separated by `/` (`-` = none):
             R | J<status> | E<ev>+<ev>+…   with  ev = <dt>.<burst>.<kind><hex>
             kinds: t/T text (whole/fragmented), b/B binary, p ping, q pong, c close, e eof, r reset,
                    x protoError, y payloadError, h partial
     sched = string of 0/1 (`-` = empty): order at simultaneous wakes, 1 = ping thread first
   trace = events joined by `;`, each `<tick>:<event>`.
-/
import WS.Driver.Util
import WS.Model.App
import WS.Spec.AppTrace
import WS.Model.Keepalive
import WS.Spec.KeepaliveSpec
import WS.Lemmas.AppLost
namespace WS.Driver.App
open WS WS.Driver WS.Model.App

/-! ### rendering -/

def exnOut : AExn → String
  | .closed => "CLOSED" | .proto => "PROTO" | .payload => "PAYLOAD" | .timeout => "TIMEOUT"
  | .transport => "TRANSPORT" | .badstatus n => s!"BADSTATUS({n})" | .wsgeneric => "WSGENERIC"
  | .attrError => "INTERNAL(AttributeError)" | .user cb k => s!"USER({cb.name}#{k})" | .ki => "KI"
  | .frame b => s!"FRAME({bytesOut b})"
  | .other k => k

def argOut : Arg → String
  | .none => "N" | .int n => s!"i{n}" | .str b => "s" ++ bytesOut b | .bytes b => "b" ++ bytesOut b
  | .bool b => if b then "T" else "F" | .exn e => "e" ++ exnOut e

def evOut : Ev → String
  | .cb c args => s!"cb:{c.name}:" ++ (if args.isEmpty then "-" else ",".intercalate (args.map argOut))
  | .dial i => s!"dial:{i}" | .sleep d => s!"sleep:{d}" | .wrote op p => s!"wrote:{op}:{bytesOut p}"
  | .sockClosed i => s!"sockClosed:{i}" | .sockDropped i => s!"sockDropped:{i}"
  | .pingStart => "pingStart" | .pingStop => "pingStop"
  | .returned b => s!"ret:{b2s b}" | .raisedOut e => s!"raised:{exnOut e}"
  | .blocked => "blocked" | .outOfFuel => "outOfFuel" | .closeCall => "closeCall"

def traceOut (t : Trace) : String :=
  if t.isEmpty then "-" else ";".intercalate (t.map fun (tm, e) => s!"{tm}:{evOut e}")

/-! ### parsing -/

def parseAct : Char → Option Act
  | 'o' => some .ok | 'r' => some .raise | 'c' => some .close | 'k' => some .ki | _ => none

def parseActs (s : String) : Option (List Act) :=
  if s == "-" then some [] else s.toList.mapM parseAct

def parsePlan (s : String) : Option (Cb → List Act) :=
  match (s.splitOn "/").mapM parseActs with
  | some l => if l.length == 8 then some (fun cb => l.getD cb.idx []) else none
  | none => none

def parseSrvEv (k : Char) (h : String) : Option SrvEv :=
  let body : Option Bytes := if h.isEmpty then some [] else ofHex h
  match k, body with
  | 't', some b => some (.message Gen.opcodeText b false)
  | 'T', some b => some (.message Gen.opcodeText b true)
  | 'b', some b => some (.message Gen.opcodeBinary b false)
  | 'B', some b => some (.message Gen.opcodeBinary b true)
  | 'p', some b => some (.ping b) | 'q', some b => some (.pong b) | 'c', some b => some (.close b)
  | 'e', some [] => some .eof | 'r', some [] => some .reset | 'x', some [] => some .protoError
  | 'y', some [] => some .payloadError | 'h', some [] => some .part
  | _, _ => none

def parseTEv (s : String) : Option TEv :=
  match s.splitOn "." with
  | [dt, b, kh] =>
    match dt.toNat?, kh.toList with
    | some dt, k :: h =>
      (parseSrvEv k (String.ofList h)).map fun ev => { dt := dt, burst := b == "1", ev := ev }
    | _, _ => none
  | _ => none

def parseDial (s : String) : Option Dial :=
  match s.toList with
  | ['R'] => some .refused
  | 'J' :: r => (String.ofList r).toNat?.map .rejected
  | ['E'] => some (.established [])
  | 'E' :: r => ((String.ofList r).splitOn "+").mapM parseTEv |>.map .established
  | _ => none

def parseRun (s : String) : Option (List Dial) :=
  if s == "-" then some [] else (s.splitOn "/").mapM parseDial

def parseRuns (s : String) : Option (List (List Dial)) := (s.splitOn "!").mapM parseRun

def parseSched (s : String) : Option (List Bool) :=
  if s == "-" then some [] else
  s.toList.mapM fun ch => if ch == '1' then some true else if ch == '0' then some false else none

def parseOptInt (s : String) : Option (Option Int) :=
  if s == "N" then some none else s.toInt?.map some

def parseCfg (s : String) (plan : Cb → List Act) : Option Cfg :=
  match s.splitOn "," with
  | [mask, iv, to, pl, rc, ssl, hz, fuel] =>
    match mask.toNat?, iv.toInt?, parseOptInt to, parseBytes pl, rc.toNat?, hz.toNat?, fuel.toNat? with
    | some mask, some iv, some to, some pl, some rc, some hz, some fuel =>
      some { has := fun cb => (mask >>> cb.idx) % 2 == 1, plan := plan, iv := iv, to := to, payload := pl,
             reconnect := rc, ssl := ssl == "1", horizon := hz, fuel := fuel }
    | _, _, _, _, _, _, _ => none
  | _ => none

/-! ### parsing a trace back (for the spec ops applied to the real implementation's trace) -/

def cbOfName (n : String) : Option Cb := Cb.all.find? fun c => c.name == n

def inParens (s : String) (pre : String) : Option String :=
  if s.startsWith pre && s.endsWith ")" then
    some (String.ofList ((s.toList.drop pre.length).dropLast))
  else none

def parseExn (s : String) : AExn :=
  if s == "CLOSED" then .closed else if s == "PROTO" then .proto else if s == "PAYLOAD" then .payload
  else if s == "TIMEOUT" then .timeout else if s == "TRANSPORT" then .transport
  else if s == "WSGENERIC" then .wsgeneric else if s == "KI" then .ki
  else if s == "INTERNAL(AttributeError)" then .attrError
  else match inParens s "BADSTATUS(" with
    | some n => match n.toNat? with | some n => .badstatus n | none => .other s
    | none => match inParens s "FRAME(" with
      | some h => match parseBytes h with | some b => .frame b | none => .other s
      | none => match inParens s "USER(" with
        | some u => match u.splitOn "#" with
          | [n, k] => match cbOfName n, k.toNat? with
            | some c, some k => .user c k
            | _, _ => .other s
          | _ => .other s
        | none => .other s

def parseArg (s : String) : Option Arg :=
  match s.toList with
  | ['N'] => some .none | ['T'] => some (.bool true) | ['F'] => some (.bool false)
  | 'i' :: r => (String.ofList r).toNat?.map .int
  | 's' :: r => (parseBytes (String.ofList r)).map .str
  | 'b' :: r => (parseBytes (String.ofList r)).map .bytes
  | 'e' :: r => some (.exn (parseExn (String.ofList r)))
  | _ => none

def parseEv (parts : List String) : Option Ev :=
  match parts with
  | ["cb", n, a] =>
    match cbOfName n, (if a == "-" then some [] else (a.splitOn ",").mapM parseArg) with
    | some c, some args => some (.cb c args)
    | _, _ => none
  | ["dial", i] => i.toNat?.map .dial
  | ["sleep", d] => d.toNat?.map .sleep
  | ["wrote", op, h] => match op.toNat?, parseBytes h with
    | some op, some b => some (.wrote op b)
    | _, _ => none
  | ["sockClosed", i] => i.toNat?.map .sockClosed
  | ["sockDropped", i] => i.toNat?.map .sockDropped
  | ["pingStart"] => some .pingStart | ["pingStop"] => some .pingStop
  | ["ret", b] => some (.returned (b == "1"))
  | ["raised", e] => some (.raisedOut (parseExn e))
  | ["blocked"] => some .blocked | ["outOfFuel"] => some .outOfFuel | ["closeCall"] => some .closeCall
  | _ => none

def parseTrace (s : String) : Option Trace :=
  if s == "-" || s.isEmpty then some [] else
  (s.splitOn ";").mapM fun item =>
    match item.splitOn ":" with
    | t :: rest => match t.toNat?, parseEv rest with
      | some t, some e => some (t, e)
      | _, _ => none
    | [] => none

def ops : List String → Option String
  | ["s-app", cfg, plan, runs, exact, trace] =>
    match parsePlan plan with
    | none => some "bad-plan"
    | some pl =>
      match parseCfg cfg pl, parseRuns runs, parseTrace trace with
      | some c, some rs, some tr =>
        let v := Spec.AppTrace.checkAll c (exact == "1") rs tr
        some (if v.isEmpty then "ok" else " ".intercalate v.eraseDups)
      | none, _, _ => some "bad-cfg"
      | _, none, _ => some "bad-runs"
      | _, _, none => some "bad-trace"
  | ["m-app", cfg, plan, runs, sched] =>
    match parsePlan plan with
    | none => some "bad-plan"
    | some pl =>
      match parseCfg cfg pl, parseRuns runs, parseSched sched with
      | some c, some rs, some sc =>
        let s := runMany c rs { sched := sc }
        some (traceOut s.trace)
      | none, _, _ => some "bad-cfg"
      | _, none, _ => some "bad-runs"
      | _, _, none => some "bad-sched"
  | ["m-app", cfg, plan, runs, sched, kopts] =>
    -- kopts = per-run keepalive settings `<iv>.<to>` joined by `!` (to: N | int), one per run
    let ks : Option (List (Int × Option Int)) := (kopts.splitOn "!").mapM fun it =>
      match it.splitOn "." with
      | [iv, to] => match iv.toInt?, parseOptInt to with
        | some i, some t => some (i, t)
        | _, _ => none
      | _ => none
    match parsePlan plan with
    | none => some "bad-plan"
    | some pl =>
      match parseCfg cfg pl, parseRuns runs, parseSched sched, ks with
      | some c, some rs, some sc, some ks =>
        if ks.length != rs.length then some "bad-kopts" else
        let s := runManyK c (ks.zip rs) { sched := sc }
        some (traceOut s.trace)
      | none, _, _, _ => some "bad-cfg"
      | _, none, _, _ => some "bad-runs"
      | _, _, none, _ => some "bad-sched"
      | _, _, _, none => some "bad-kopts"
  | ["m-keepalive", iv, to, hz, fuel, arr, sched] =>
    -- arr = `-` or items `<dt>.<q|d>` joined by `+` (gaps in ticks; q = pong, d = data)
    let items : Option (List (Nat × Model.Keepalive.Kind)) :=
      if arr == "-" then some [] else
      (arr.splitOn "+").mapM fun it => match it.splitOn "." with
        | [d, k] => match d.toNat? with
          | some d => if k == "q" then some (d, .pong) else if k == "d" then some (d, .data) else none
          | none => none
        | _ => none
    match iv.toNat?, to.toNat?, hz.toNat?, fuel.toNat?, items, parseSched sched with
    | some iv, some to, some hz, some fuel, some items, some sc =>
      let (pings, rep) := Model.Keepalive.run iv to hz fuel (Model.Keepalive.absolute 0 items) sc
      some (s!"pings={",".intercalate (pings.map toString)};report=" ++ (match rep with | some r => toString r | none => "N"))
    | _, _, _, _, _, _ => some "bad-keepalive"
  | ["s-keepalive", iv, to, hz, pings, pongs, rep] =>
    let nums (x : String) : Option (List Nat) := if x == "-" then some [] else (x.splitOn ",").mapM (·.toNat?)
    match iv.toNat?, to.toNat?, hz.toNat?, nums pings, nums pongs with
    | some iv, some to, some hz, some pi, some po =>
      let r : Option Nat := if rep == "N" then none else rep.toNat?
      let v := Spec.Keepalive.check iv to pi po r hz
      some (if v.isEmpty then "ok" else " ".intercalate v)
    | _, _, _, _, _ => some "bad-keepalive"
  | ["s-keepalive-args", iv, to] =>
    match iv.toInt?, parseOptInt to with
    | some iv, some to => some (b2s (Spec.Keepalive.argsOk iv to))
    | _, _ => some "bad-args"
  | ["s-c15-resumes", rc, run] =>
    -- the closed form of `C15c.C15_resumes` (network skeleton of a reconnecting run) for one world, or `n/a`
    match rc.toNat?, parseRun run with
    | some r, some w =>
      (match WS.Lemmas.App.resumesOfWorld r w with
       | some tr => some (traceOut tr)
       | none => some "n/a")
    | _, _ => some "bad-world"
  | ["m-app-args", iv, to] =>
    match iv.toInt?, parseOptInt to with
    | some iv, some to => some (b2s (argsAccepted iv to))
    | _, _ => some "bad-args"
  | _ => none

end WS.Driver.App
