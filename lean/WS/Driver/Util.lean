/-
  WS.Driver.Util — argument parsing shared by all op groups.
  Arguments: decimal numbers, hex strings (`-` = empty), `gen:<len>:<seed>` payloads.
  Text arguments travel as the hex of their UTF-8 bytes (so they may contain spaces).
-/
import WS.Base.Bytes
namespace WS.Driver
open WS

def parseBytes (s : String) : Option Bytes :=
  if s == "-" then some []
  else if s.startsWith "gen:" then
    match (s.drop 4).toString.splitOn ":" with
    | [l, sd] => match l.toNat?, sd.toNat? with
      | some l, some sd => some (genBytes l sd)
      | _, _ => none
    | _ => none
  else ofHex s

def b2s (b : Bool) : String := if b then "1" else "0"

/-- text argument: hex of UTF-8 bytes → String (none if not valid UTF-8). -/
def parseStr (s : String) : Option String :=
  match parseBytes s with
  | some bs =>
    let ba : ByteArray := ⟨bs.toArray⟩
    String.fromUTF8? ba
  | none => none

/-- render a String result as hex of its UTF-8 bytes (`-` when empty). -/
def strOut (s : String) : String :=
  let bs := s.toUTF8.toList
  if bs.isEmpty then "-" else toHex bs

def bytesOut (bs : Bytes) : String := if bs.isEmpty then "-" else toHex bs

end WS.Driver
