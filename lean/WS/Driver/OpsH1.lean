/- WS.Driver.OpsH1 — op group H1 (see AGENTS_GUIDE.md). Return `none` for ops not handled here. -/
import WS.Driver.Util
namespace WS.Driver.H1
open WS WS.Driver

def ops : List String → Option String
  | _ => none

end WS.Driver.H1
