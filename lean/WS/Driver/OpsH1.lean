/-
  WS.Driver.OpsH1 — op group H1: URL / address loop / dispatcher (C18), no_proxy / proxy
  decision / tunnel / connect (C19), cookie jar (C20).

  Argument conventions (beyond WS.Driver.Util): text = hex of UTF-8, `-` or `~` = empty;
  `!` = None; lists = items joined by `,` (whole argument `-` = empty list); environment =
  `NAME=hexvalue` items joined by `,`.  `unmodelled` = the input lies outside the alphabet on
  which the model mirrors CPython (see the headers of WS.Model.{Url,NoProxy,Proxy,Cookie}).
-/
import WS.Driver.Util
import WS.Spec.Rfc3986
import WS.Spec.NoProxy
import WS.Spec.CookieSpec
import WS.Model.Url
import WS.Model.OpenSocket
import WS.Model.NoProxy
import WS.Model.Proxy
import WS.Model.Cookie
namespace WS.Driver.H1
open WS WS.Driver WS.Py WS.Net

/-! ### argument parsing / rendering -/

def pStr (s : String) : Option Str :=
  if s == "-" || s == "~" then some [] else (parseStr s).map (·.toList)

def pOptStr (s : String) : Option (Option Str) :=
  if s == "!" then some none else (pStr s).map some

def pList (s : String) : Option (List Str) :=
  if s == "-" then some [] else (s.splitOn ",").mapM pStr

def pEnv (s : String) : Option (List (String × Str)) :=
  if s == "-" then some []
  else (s.splitOn ",").mapM fun kv =>
    match kv.splitOn "=" with
    | [k, v] => (pStr v).map fun v => (k, v)
    | _ => none

def pNat (s : String) : Option Nat := s.toNat?
def pBool (s : String) : Option Bool := if s == "1" then some true else if s == "0" then some false else none

def sOut (s : Str) : String := strOut (String.ofList s)

def exnOut {α : Type} (f : α → String) : Except Exn α → String
  | .ok a => f a
  | .error e => e.toStr

/-- printable ASCII without blank -/
def plainAscii (s : Str) : Bool := s.all fun c => 33 ≤ c.toNat && c.toNat ≤ 126

/-! ### C18 -/

def urlAlphabet (c : Char) : Bool :=
  isAlphaC c || isDigitC c || "-._~:/?#[]@!$&'()*+,;=%".toList.contains c

def targetOut (t : Target) : String :=
  s!"{sOut t.host} {t.port} {sOut t.resource} {b2s t.secure}"

def mParseUrl (u : Str) : String :=
  if !u.all urlAlphabet then "unmodelled"
  else exnOut (fun t => "ok " ++ targetOut t) (Model.Url.parseUrl Model.Url.bracketOk u)

def sParseUrl (u : Str) : String :=
  match Spec.Url.classify Model.Url.bracketOk u with
  | .target t => "target " ++ targetOut t
  | .refuse => "refuse"
  | .unconstrained => "unconstrained"

def pOutcome (s : String) : Option Outcome :=
  if s == "a" then some .accept
  else if s == "r" then some .refused
  else if s == "u" then some .unreachable
  else if s.startsWith "o" then ((s.drop 1).toString.toNat?).map .other
  else none

def pOutcomes (s : String) : Option (List Outcome) :=
  if s == "-" then some [] else (s.splitOn ",").mapM pOutcome

def outcomeOut : Outcome → String
  | .accept => "a" | .refused => "r" | .unreachable => "u" | .other c => s!"o{c}"

def evOut : Ev → String
  | .create i => s!"c{i}"
  | .settimeout i t => s!"t{i}:{t}"
  | .setsockopt i o => s!"o{i}:{o}"
  | .connect i => s!"n{i}"
  | .close i => s!"x{i}"

def evsOut (l : List String) : String := if l.isEmpty then "-" else ",".intercalate l

def pOpts (s : String) : Option (List String) :=
  (pList s).map fun l => l.map String.ofList

def mOpenSocket (timeout : Nat) (user : List String) (outs : List Outcome) : String :=
  let (r, evs) := Model.OpenSocket.openSocket timeout user outs
  let rs := match r with
    | .ok i => s!"ok:{i}"
    | .raised o => s!"raise:{outcomeOut o}"
    | .internal k => s!"INTERNAL({k})"
  rs ++ " " ++ evsOut (evs.map evOut)

def sDial (timeout : Nat) (user : List String) (outs : List Outcome) : String :=
  let (r, evs) := Spec.Url.dialSpec timeout Gen.defaultSockOpts user outs
  let rs := match r with
    | .connected i => s!"ok:{i}"
    | .failed o => s!"raise:{outcomeOut o}"
  rs ++ " " ++ evsOut (evs.map evOut)

def dispOut : Model.OpenSocket.DispatcherKind → String
  | .wrapped => "wrapped" | .ssl t => s!"ssl:{t}" | .plain t => s!"plain:{t}"

/-! ### C19 -/

def maskModelled (m : Str) : Bool :=
  (m.all isDigitC && m.length ≤ 4000) ||
    m.any (fun c => isAlphaC c || c == '.' || c == ':' || c == '*')

/-- every call of `inet_aton` / `int` the code can make on these arguments is modelled. -/
def npModelled (host : Str) (list : List Str) : Bool :=
  plainAscii host && inetModelled host &&
  list.all fun e =>
    plainAscii e &&
    match splitOn '/' e with
    | [a, m] => inetModelled a && maskModelled m
    | _ => true

def envModelled (env : List (String × Str)) : Bool := env.all fun kv => kv.2.all fun c => 32 ≤ c.toNat && c.toNat ≤ 126

def mNoProxy (host : Str) (list : List Str) (env : List (String × Str)) : String :=
  let eff := Model.NoProxy.effectiveList list env
  if !(npModelled host eff && envModelled env) then "unmodelled"
  else exnOut b2s (Model.NoProxy.isNoProxyHost host list env)

def sNoProxy (host : Str) (list : List Str) (env : List (String × Str)) : String :=
  b2s (Spec.NoProxy.exempt host (Spec.NoProxy.noProxyList list env))

def pAuth (s : String) : Option (Option (Str × Str)) :=
  if s == "!" then some none
  else match s.splitOn ":" with
    | [u, p] => match pStr u, pStr p with
      | some u, some p => some (some (u, p))
      | _, _ => none
    | _ => none

def authOut : Option (Str × Str) → String
  | none => "!"
  | some (u, p) => s!"{sOut u}:{sOut p}"

def choiceOut (c : Model.Proxy.Choice) : String :=
  let h := match c.host with | none => "!" | some h => sOut h
  let p := match c.port with | none => "!" | some p => toString p
  s!"{h} {p} {authOut c.auth}"

/-- a proxy URL of the environment the model reads faithfully: URL alphabet; "%" only before the last "@" (the userinfo),
    every escape there decoding to ASCII. -/
def proxyUrlModelled (v : Str) : Bool :=
  let afterAt := (v.reverse.takeWhile (· != '@')).reverse
  let upToAt := v.take (v.length - afterAt.length)
  v.all (fun c => urlAlphabet c || c == '%') && !afterAt.contains '%' &&
    (if upToAt.isEmpty then !v.contains '%' else Model.Proxy.unquoteModelled upToAt)

def proxyEnvModelled (secure : Bool) (env : List (String × Str)) : Bool :=
  proxyUrlModelled (Spec.NoProxy.envProxy secure env)

def mProxyInfo (host : Str) (secure : Bool) (oh : Str) (op : Nat) (oa : Option (Str × Str))
    (onp : List Str) (env : List (String × Str)) : String :=
  let p := Model.Proxy.proxyInfo oh op oa onp
  let eff := Model.NoProxy.effectiveList p.noProxy env
  if !(npModelled host eff && envModelled env && proxyEnvModelled secure env) then "unmodelled"
  else exnOut choiceOut (Model.Proxy.getProxyInfo Model.Url.bracketOk host secure p env)

def sDecision (host : Str) (secure : Bool) (oh : Str) (op : Nat) (oa : Option (Str × Str))
    (onp : List Str) (env : List (String × Str)) : String :=
  match Spec.NoProxy.decision host secure oh op oa onp env with
  | .direct => "direct"
  | .viaOption h p a => s!"option {sOut h} {p} {authOut a}"
  | .viaEnv v => s!"env {sOut v}"
  | .configError => "configerror"

def sParseConnect (req : Str) : String :=
  match Spec.NoProxy.parseConnect req with
  | none => "none"
  | some r =>
    let cred := match r.basic with
      | none => "!"
      | some b => match B64.decode b with
        | some bs => bytesOut bs
        | none => "badb64"
    s!"{sOut r.target} {sOut r.hostHdr} {cred}"

def replyModelled (r : Str) : Bool :=
  r.all (fun c => c.toNat ≤ 126 && (32 ≤ c.toNat || c == '\r' || c == '\n' || c == '\t')) &&
    !(r.contains '+' || r.contains '_' || r.contains '-')

def pWorldAddrs (s : String) : Option (Option (List Outcome)) :=
  if s == "gai" then some none else (pOutcomes s).map some

def cevOut : Model.Proxy.CEv → String
  | .resolve h p => s!"R{sOut h}:{p}"
  | .sock e => evOut e
  | .send i d => s!"S{i}:{sOut d}"
  | .tls i h => s!"T{i}:{sOut h}"

/-! ### C20 -/

/-- one history step `aD:pairs` / `sD:pairs`: kind, Domain (`!` none), pairs `hexn.hexv,…` -/
def pStep (s : String) : Option (Bool × Option Str × List (Str × Str)) :=
  let kind := s.take 1 |>.toString
  match ((s.drop 1).toString).splitOn ":" with
  | [d, ps] =>
    match pOptStr d with
    | none => none
    | some dom =>
      let pairs := if ps == "-" then some [] else (ps.splitOn ",").mapM fun p =>
        match p.splitOn "." with
        | [n, v] => match pStr n, pStr v with
          | some n, some v => some (n, v)
          | _, _ => none
        | _ => none
      pairs.map fun pairs => (kind == "s", dom, pairs)
  | _ => none

def pHist (s : String) : Option (List (Bool × Option Str × List (Str × Str))) :=
  if s == "-" then some [] else (s.splitOn ";").mapM pStep

def jarAfter (h : List (Bool × Option Str × List (Str × Str))) : Model.Cookie.Jar :=
  h.foldl (fun jar st =>
    let ms := Model.Cookie.morselsOf st.2.2 st.2.1
    if st.1 then Model.Cookie.set jar ms else Model.Cookie.add jar ms) []

def specHist (h : List (Bool × Option Str × List (Str × Str))) : List Spec.Cookie.Response :=
  h.map fun st => ⟨st.2.2, st.2.1⟩

def histModelled (h : List (Bool × Option Str × List (Str × Str))) : Bool :=
  h.all fun st => (st.2.1.getD []).all (fun c => c.toNat < 128) &&
    st.2.2.all fun nv => plainAscii nv.1 && plainAscii nv.2

def pPairs (s : String) : Option (List (Str × Str)) :=
  if s == "-" then some [] else (s.splitOn ",").mapM fun p =>
    match p.splitOn "." with
    | [n, v] => match pStr n, pStr v with
      | some n, some v => some (n, v)
      | _, _ => none
    | _ => none

def pairsOut (l : List (Str × Str)) : String :=
  if l.isEmpty then "-" else ",".intercalate (l.map fun nv => s!"{sOut nv.1}.{sOut nv.2}")

/-! ### dispatch -/

def ops : List String → Option String
  | ["m-parse-url", u] => (pStr u).map mParseUrl
  | ["s-parse-url", u] => (pStr u).map sParseUrl
  | ["m-bracket", s] => (pStr s).map fun s => b2s (Model.Url.bracketOk s)
  | ["m-open-socket", t, user, outs] =>
    match pNat t, pOpts user, pOutcomes outs with
    | some t, some u, some o => some (mOpenSocket t u o)
    | _, _, _ => none
  | ["s-dial", t, user, outs] =>
    match pNat t, pOpts user, pOutcomes outs with
    | some t, some u, some o => some (sDial t u o)
    | _, _, _ => none
  | ["m-dispatcher", pt, custom, ssl] =>
    match pBool custom, pBool ssl with
    | some c, some s =>
      let pt := if pt == "!" then some none else (pNat pt).map some
      pt.map fun pt => dispOut (Model.OpenSocket.createDispatcher pt c s)
    | _, _ => none
  | ["m-no-proxy", h, l, e] =>
    match pStr h, pList l, pEnv e with
    | some h, some l, some e => some (mNoProxy h l e)
    | _, _, _ => none
  | ["s-no-proxy", h, l, e] =>
    match pStr h, pList l, pEnv e with
    | some h, some l, some e => some (sNoProxy h l e)
    | _, _, _ => none
  | ["m-proxy-info", h, sec, oh, op, oa, onp, e] =>
    match pStr h, pBool sec, pStr oh, pNat op, pAuth oa, pList onp, pEnv e with
    | some h, some sec, some oh, some op, some oa, some onp, some e => some (mProxyInfo h sec oh op oa onp e)
    | _, _, _, _, _, _, _ => none
  | ["s-decision", h, sec, oh, op, oa, onp, e] =>
    match pStr h, pBool sec, pStr oh, pNat op, pAuth oa, pList onp, pEnv e with
    | some h, some sec, some oh, some op, some oa, some onp, some e => some (sDecision h sec oh op oa onp e)
    | _, _, _, _, _, _, _ => none
  | ["m-env-proxy", v] =>
    (pStr v).map fun v =>
      if !proxyUrlModelled v then "unmodelled"
      else exnOut choiceOut (Model.Proxy.envProxyParse Model.Url.bracketOk v)
  | ["m-tunnel-req", h, p, a] =>
    match pStr h, pNat p, pAuth a with
    | some h, some p, some a =>
      if !(plainAscii h && (match a with | some (u, pw) => u.all (·.toNat < 128) && pw.all (·.toNat < 128) | none => true))
      then some "unmodelled"
      else some (sOut (Model.Proxy.tunnelRequest h p a))
    | _, _, _ => none
  | ["s-parse-connect", r] => (pStr r).map sParseConnect
  | ["s-reply-status", r] =>
    (pStr r).map fun r => match Spec.NoProxy.replyStatus r with
      | some n => toString n
      | none => "!"
  | ["m-tunnel", r] =>
    (pStr r).map fun r =>
      if !replyModelled r then "unmodelled"
      else match Model.Proxy.tunnel r with
        | .ok () => "ok"
        | .error e => e.toStr
  | ["m-read-status", r] =>
    (pStr r).map fun r =>
      if !replyModelled r then "unmodelled"
      else exnOut (fun s => match s with | some n => toString n | none => "!") (Model.Proxy.readStatus r)
  | ["m-connect", url, t, user, oh, op, oa, onp, e, addrs, reply] =>
    match pStr url, pNat t, pOpts user, pStr oh, pNat op, pAuth oa, pList onp with
    | some url, some t, some user, some oh, some op, some oa, some onp =>
      match pEnv e, pWorldAddrs addrs, pStr reply with
      | some e, some addrs, some reply =>
        let p := Model.Proxy.proxyInfo oh op oa onp
        let modelled := url.all urlAlphabet && envModelled e && replyModelled reply &&
          (match Model.Url.parseUrl Model.Url.bracketOk url with
           | .ok tg => npModelled tg.host (Model.NoProxy.effectiveList p.noProxy e) &&
               proxyEnvModelled tg.secure e
           | .error _ => true)
        if !modelled then some "unmodelled"
        else
          let (r, tr) := Model.Proxy.connect Model.Url.bracketOk url t user p e ⟨addrs, reply⟩
          let rs := match r with
            | .ok (i, tg) => s!"ok:{i}:{sOut tg.host}:{tg.port}:{sOut tg.resource}"
            | .error ex => ex.toStr
          some (rs ++ " " ++ evsOut (tr.map cevOut))
      | _, _, _ => none
    | _, _, _, _, _, _, _ => none
  | ["m-cookie-header", hist, host, client] =>
    match pHist hist, pStr host, pStr client with
    | some h, some host, some client =>
      if !(histModelled h && host.all (·.toNat < 128)) then some "unmodelled"
      else some (sOut (Model.Cookie.cookieHeader (jarAfter h) host client))
    | _, _, _ => none
  | ["m-cookie-pairs", hist, host] =>
    match pHist hist, pStr host with
    | some h, some host =>
      if !(histModelled h && host.all (·.toNat < 128)) then some "unmodelled"
      else some (pairsOut (Model.Cookie.getPairs (jarAfter h) host))
    | _, _ => none
  | ["s-cookie-admissible", hist, host, out] =>
    match pHist hist, pStr host, pPairs out with
    | some h, some host, some out => some (b2s (Spec.Cookie.admissibleB (specHist h) host out))
    | _, _, _ => none
  | ["s-cookie-covering", hist, host] =>
    match pHist hist, pStr host with
    | some h, some host => some (pairsOut (Spec.Cookie.covering (Spec.Cookie.storeOf (specHist h)) host))
    | _, _ => none
  | ["s-cookie-header", pairs, client] =>
    match pPairs pairs, pStr client with
    | some p, some c => some (sOut (Spec.Cookie.header p c))
    | _, _ => none
  | ["m-merge-set-cookie", vals] =>
    (pList vals).map fun vs =>
      match Model.Cookie.mergeSetCookie vs with
      | some v => sOut v
      | none => "!"
  | _ => none

end WS.Driver.H1
