/- WS.Driver.OpsGlue — the transport glue (`_socket.recv` / `_socket.send`).

   m-glue-recv <nb> <r1> <ready> <r2>   raw read outcomes: d0 (b""), d1 (bytes), T, W, A, S1, S0, O
   m-glue-send <nb> <r1> <ready> <r2>   raw write outcomes: a<n>, T, E, W, A, N0, N1, O
   m-sendloop <nb> <datahex> <r1,ready,r2> ...   the write loop of send_frame over a list of worlds
-/
import WS.Driver.Util
import WS.Model.SocketGlue
import WS.Model.SendGlue
namespace WS.Driver.Glue
open WS WS.Model.Glue

def parseR : String → Option RawR
  | "d0" => some (.data []) | "d1" => some (.data [0x78]) | "T" => some .timeoutErr | "W" => some .wantRead
  | "A" => some .again | "S1" => some (.sslErr true) | "S0" => some (.sslErr false) | "O" => some .osErr
  | _ => none

def rOut : RawR → String
  | .data [] => "d0" | .data _ => "d1" | .timeoutErr => "T" | .wantRead => "W" | .again => "A"
  | .sslErr true => "S1" | .sslErr false => "S0" | .osErr => "O"

def parseS (s : String) : Option RawS :=
  match s with
  | "T" => some .timeoutErr | "E" => some .sslEof | "W" => some .wantWrite | "A" => some .again
  | "N0" => some (.noCode false) | "N1" => some (.noCode true) | "O" => some .osErr
  | _ => if s.startsWith "a" then (s.drop 1).toNat?.map RawS.accepted else none

def sOut : RawS → String
  | .accepted n => s!"a{n}" | .timeoutErr => "T" | .sslEof => "E" | .wantWrite => "W" | .again => "A"
  | .noCode b => if b then "N1" else "N0" | .osErr => "O"

def ops : List String → Option String
  | ["m-glue-recv", nb, r1, rd, r2] =>
    match parseR r1, parseR r2 with
    | some a, some b =>
      some (match recv (nb == "1") a (rd == "1") b with
        | .ok _ => "ok" | .timeout => "TIMEOUT" | .closed => "CLOSED" | .own r => "own:" ++ rOut r)
    | _, _ => some "bad-raw"
  | ["m-glue-send", nb, r1, rd, r2] =>
    match parseS r1, parseS r2 with
    | some a, some b =>
      some (match send (nb == "1") a (rd == "1") b with
        | .ok (some n) => s!"ok:{n}" | .ok none => "ok:none" | .timeout => "TIMEOUT" | .closed => "CLOSED" | .own r => "own:" ++ sOut r)
    | _, _ => some "bad-raw"
  | "m-sendloop" :: nb :: dataHex :: ws =>
    match WS.Driver.parseBytes dataHex with
    | none => some "bad-hex"
    | some data =>
      let parsed := ws.map fun (w : String) => match w.splitOn "," with
        | [a, rd, b] => (match parseS a, parseS b with
            | some x, some y => some ({ r1 := x, ready := rd == "1", r2 := y } : WS.Model.SendGlue.World)
            | _, _ => none)
        | _ => none
      if parsed.any Option.isNone then some "bad-raw" else
      let worlds := parsed.filterMap id
      let (o, wire) := WS.Model.SendGlue.sendLoop (nb == "1") worlds data []
      let os := match o with
        | .done => "done" | .cut => "cut"
        | .raised .timeout => "TIMEOUT" | .raised .closed => "CLOSED" | .raised (.own r) => "own:" ++ sOut r
        | .raised (.ok _) => "impossible"
      some s!"{os} wire={WS.Driver.bytesOut wire} calls={WS.Model.SendGlue.calls (nb == "1") worlds data}"
  | _ => none

end WS.Driver.Glue
