/- WS.Driver.OpsGlue — the transport glue (`_socket.recv` / `_socket.send`).

   m-glue-recv <nb> <r1> <ready> <r2>   raw read outcomes: d0 (b""), d1 (bytes), T, W, A, S1, S0, O
   m-glue-send <nb> <r1> <ready> <r2>   raw write outcomes: a<n>, T, E, W, A, N0, N1, O
-/
import WS.Driver.Util
import WS.Model.SocketGlue
namespace WS.Driver.Glue
open WS WS.Model.Glue

def parseR : String → Option RawR
  | "d0" => some (.data []) | "d1" => some (.data [0x78]) | "T" => some .timeoutErr | "W" => some .wantRead
  | "A" => some .again | "S1" => some (.sslErr true) | "S0" => some (.sslErr false) | "O" => some .osErr
  | _ => none

def rOut : RawR → String
  | .data [] => "d0" | .data _ => "d1" | .timeoutErr => "T" | .wantRead => "W" | .again => "A"
  | .sslErr true => "S1" | .sslErr false => "S0" | .osErr => "O"

def parseS (s : String) : Option RawS :=
  match s with
  | "T" => some .timeoutErr | "E" => some .sslEof | "W" => some .wantWrite | "A" => some .again
  | "N0" => some (.noCode false) | "N1" => some (.noCode true) | "O" => some .osErr
  | _ => if s.startsWith "a" then (s.drop 1).toNat?.map RawS.accepted else none

def sOut : RawS → String
  | .accepted n => s!"a{n}" | .timeoutErr => "T" | .sslEof => "E" | .wantWrite => "W" | .again => "A"
  | .noCode b => if b then "N1" else "N0" | .osErr => "O"

def ops : List String → Option String
  | ["m-glue-recv", nb, r1, rd, r2] =>
    match parseR r1, parseR r2 with
    | some a, some b =>
      some (match recv (nb == "1") a (rd == "1") b with
        | .ok _ => "ok" | .timeout => "TIMEOUT" | .closed => "CLOSED" | .own r => "own:" ++ rOut r)
    | _, _ => some "bad-raw"
  | ["m-glue-send", nb, r1, rd, r2] =>
    match parseS r1, parseS r2 with
    | some a, some b =>
      some (match send (nb == "1") a (rd == "1") b with
        | .ok (some n) => s!"ok:{n}" | .ok none => "ok:none" | .timeout => "TIMEOUT" | .closed => "CLOSED" | .own r => "own:" ++ sOut r)
    | _, _ => some "bad-raw"
  | _ => none

end WS.Driver.Glue
