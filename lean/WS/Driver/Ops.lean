/-
  WS.Driver.Ops — op dispatch.  Arguments: decimal numbers, hex strings (`-` = empty),
  or `gen:<len>:<seed>` for generated payloads.
-/
import WS.Base.Bytes
import WS.Spec.Unicode
import WS.Model.Utf8
namespace WS.Driver
open WS

def parseBytes (s : String) : Option Bytes :=
  if s == "-" then some []
  else if s.startsWith "gen:" then
    match (s.drop 4).toString.splitOn ":" with
    | [l, sd] => match l.toNat?, sd.toNat? with
      | some l, some sd => some (genBytes l sd)
      | _, _ => none
    | _ => none
  else ofHex s

def b2s (b : Bool) : String := if b then "1" else "0"

def dispatch (line : String) : String :=
  match line.splitOn " " with
  | ["ping"] => "pong"
  | ["m-utf8", h] => match parseBytes h with
    | some bs => b2s (Model.validateUtf8 bs)
    | none => "bad-arg"
  | ["s-utf8", h] => match parseBytes h with
    | some bs => b2s (Spec.wellFormed bs)
    | none => "bad-arg"
  | _ => "bad-op"

end WS.Driver
