/- WS.Driver.Ops — op dispatch over the op groups. -/
import WS.Driver.OpsCore
import WS.Driver.OpsH1
import WS.Driver.OpsH2
import WS.Driver.OpsApp
import WS.Driver.OpsGlue
namespace WS.Driver

def dispatch (line : String) : String :=
  let args := line.splitOn " "
  if args == ["ping"] then "pong" else
  match Core.ops args with
  | some r => r
  | none => match H1.ops args with
    | some r => r
    | none => match H2.ops args with
      | some r => r
      | none => match App.ops args with
        | some r => r
        | none => match Glue.ops args with
          | some r => r
          | none => "bad-op"

end WS.Driver
