/- WS.Driver.OpsCore — ops of the byte-level layers (L0–L3): UTF-8, frames, parser, loop, conn. -/
import WS.Driver.Util
import WS.Spec.Unicode
import WS.Spec.Rfc6455
import WS.Model.Utf8
import WS.Model.Frame
import WS.Model.Conn
import WS.Model.Threads
import WS.Model.ThreadsProg
import WS.Model.Readers
namespace WS.Driver.Core
open WS WS.Driver WS.Model

def exnOut (e : Exn) : String := "X:" ++ e.toStr

/-! ### session: a scripted socket and a sequence of API calls -/

def parseOptNat (s : String) : Option (Option Nat) :=
  if s == "none" then some none else s.toNat?.map some

def parseInt (s : String) : Option Int :=
  if s.startsWith "-" then (s.drop 1).toString.toNat?.map (fun n => - (n : Int))
  else s.toNat?.map (fun n => (n : Int))

def parseEvents (s : String) : Option (List TEv) :=
  if s == "-" then some [] else
  (s.splitOn "|").mapM fun e =>
    if e == "t" then some .timeout
    else if e == "e" then some .eof
    else if e == "r" then some .reset
    else if e.startsWith "c:" then (parseBytes (e.drop 2).toString).map .chunk
    else if e.startsWith "w:" then ((e.drop 2).toString.toNat?).map .wait
    else none

structure Cfg where
  fire : Bool := false
  skip : Bool := false
  tail : Tail := .eof
  accepts : List Nat := []
  keys : List Bytes := []
  timeoutMs : Option Nat := none
  sendFailAt : Option Nat := none
  connected : Bool := true

def parseCfg (s : String) : Option Cfg :=
  if s == "-" then some {} else
  (s.splitOn ",").foldlM (init := ({} : Cfg)) fun cfg kv =>
    match kv.splitOn "=" with
    | ["fire", v] => some { cfg with fire := v == "1" }
    | ["skip", v] => some { cfg with skip := v == "1" }
    | ["conn", v] => some { cfg with connected := v == "1" }
    | ["tail", v] => some { cfg with tail := if v == "timeout" then .timeout else .eof }
    | ["acc", v] => if v == "-" then some cfg else ((v.splitOn ".").mapM String.toNat?).map fun a => { cfg with accepts := a }
    | ["keys", v] => if v == "-" then some cfg else ((v.splitOn ".").mapM parseBytes).map fun k => { cfg with keys := k }
    | ["to", v] => (parseOptNat v).map fun t => { cfg with timeoutMs := t }
    | ["fail", v] => (parseOptNat v).map fun t => { cfg with sendFailAt := t }
    | _ => none

def mkConn (cfg : Cfg) (evs : List TEv) : Conn :=
  { sock := { inp := evs, tail := cfg.tail, accepts := cfg.accepts, sendFailAt := cfg.sendFailAt,
              timeoutMs := cfg.timeoutMs },
    connected := cfg.connected, fireCont := cfg.fire, skipUtf8 := cfg.skip, keys := cfg.keys }

def frameOut (f : Frame) : String :=
  s!"F:{f.opcode}:{f.fin}:{f.rsv1}{f.rsv2}{f.rsv3}:{summarize f.data}"

/-- run one API call; returns the rendered result and the new state. -/
def runOp0 (c : Conn) (op : String) : Option (String × Conn) :=
  match op.splitOn ":" with
  | ["recv"] =>
    match c.recv with
    | (.ok (.text d), c) => some ("T:" ++ summarize d, c)
    | (.ok (.binary d), c) => some ("B:" ++ summarize d, c)
    | (.ok .emptyStr, c) => some ("E", c)
    | (.error e, c) => some (exnOut e, c)
  | ["recvdata", cf] =>
    match c.recvData (cf == "1") with
    | (.ok (op, d), c) => some (s!"D:{op}:{summarize d}", c)
    | (.error e, c) => some (exnOut e, c)
  | ["rdf", cf] =>
    match c.recvDataFrame (cf == "1") with
    | (.ok (op, f), c) => some (s!"R:{op}:{f.fin}:{summarize f.data}", c)
    | (.error e, c) => some (exnOut e, c)
  | ["rf"] =>
    match c.recvFrame with
    | (.ok f, c) => some (frameOut f, c)
    | (.error e, c) => some (exnOut e, c)
  | "send" :: op :: ps => do
    let op ← op.toNat?
    let p ← parseBytes (String.intercalate ":" ps)
    match c.send p op with
    | (.ok n, c) => some (s!"N:{n}", c)
    | (.error e, c) => some (exnOut e, c)
  | "sendf" :: fin :: op :: ps => do
    let fin ← fin.toNat?
    let op ← op.toNat?
    let p ← parseBytes (String.intercalate ":" ps)
    match c.sendFrame (createFrame p op fin) with
    | (.ok n, c) => some (s!"N:{n}", c)
    | (.error e, c) => some (exnOut e, c)
  | ["sendt", cps] => do
    let cps ← if cps == "-" then some [] else (cps.splitOn ".").mapM String.toNat?
    match c.sendText cps with
    | (.ok n, c) => some (s!"N:{n}", c)
    | (.error e, c) => some (exnOut e, c)
  | ["pingt", cps] => do
    let cps ← if cps == "-" then some [] else (cps.splitOn ".").mapM String.toNat?
    match c.pingText cps with
    | (.ok _, c) => some ("ok", c)
    | (.error e, c) => some (exnOut e, c)
  | ["pongt", cps] => do
    let cps ← if cps == "-" then some [] else (cps.splitOn ".").mapM String.toNat?
    match c.pongText cps with
    | (.ok _, c) => some ("ok", c)
    | (.error e, c) => some (exnOut e, c)
  | "ping" :: ps => do
    let p ← parseBytes (String.intercalate ":" ps)
    match c.ping p with
    | (.ok _, c) => some ("ok", c)
    | (.error e, c) => some (exnOut e, c)
  | "pong" :: ps => do
    let p ← parseBytes (String.intercalate ":" ps)
    match c.pong p with
    | (.ok _, c) => some ("ok", c)
    | (.error e, c) => some (exnOut e, c)
  | ["sclose", st, r] => do
    let st ← parseInt st
    let r ← parseBytes r
    match c.sendClose st r with
    | (.ok _, c) => some ("ok", c)
    | (.error e, c) => some (exnOut e, c)
  | ["close", st, r, t] => do
    let st ← parseInt st
    let r ← parseBytes r
    let t ← parseOptNat t
    match c.close st r t with
    | (none, c) => some ("ok", c)
    | (some e, c) => some (exnOut e, c)
  | ["shutdown"] => some ("ok", c.shutdown)
  | ["abort"] =>
    match c.abort with
    | (none, c) => some ("ok", c)
    | (some e, c) => some (exnOut e, c)
  | ["settimeout", t] => do
    let t ← parseOptNat t
    some ("ok", { c with sock := { c.sock with timeoutMs := t } })
  | _ => none


/-- `sel:<op>` = a select-driven caller: the call is made only when the TRANSPORT is readable (data, end of stream or a reset
    is there); what the library holds in its own buffers is invisible to select. Otherwise the result is IDLE. -/
def runOp (c : Conn) (op : String) : Option (String × Conn) :=
  if op.startsWith "sel:" then
    let readable := c.hasSock && !c.sock.closed &&
      (match c.sock.inp with
       | [] => c.sock.tail == .eof
       | .timeout :: _ => false
       | .wait _ :: _ => false
       | _ => true)
    if readable then runOp0 c (op.drop 4).toString else some ("IDLE", c)
  else runOp0 c op

def stateOut (c : Conn) (wireBefore : Nat) : String :=
  let w := c.sock.wire
  s!"{b2s c.connected}{b2s c.hasSock}{b2s c.sock.closed}|{c.sock.calls}|{c.sock.clock}|{summarize (w.drop wireBefore)}"

def runSession (c : Conn) (ops : List String) : Option (List String) :=
  match ops with
  | [] => some [s!"END|keys={c.keyDraws}|maxrecv={c.sock.recvSizes.foldl max 0}|left={c.sock.inp.length}|buf={c.buf.length}"]
  | op :: rest =>
    let before := c.sock.wire.length
    match runOp c op with
    | none => none
    | some (r, c) => (runSession c rest).map fun tl => (r ++ "|" ++ stateOut c before) :: tl

def sessionOp (cfg evs ops : String) : Option String := do
  let cfg ← parseCfg cfg
  let evs ← parseEvents evs
  let c := mkConn cfg evs
  let outs ← runSession c (if ops == "-" then [] else ops.splitOn "|")
  some (String.intercalate ";" outs)

/-! ### unit ops -/

def wireOut (d : Spec.Decode) : String :=
  match d with
  | .needMore => "needMore"
  | .frame f rest =>
    s!"{f.fin}:{f.rsv1}{f.rsv2}{f.rsv3}:{f.opcode}:{b2s f.masked}:{bytesOut f.key}:{f.lenForm}:{summarize f.payload}:{rest.length}"

/-- decode a whole stream into frames with the Spec decoder: `n` frames then the undecodable rest. -/
def specDecodeAll : Nat → Bytes → List String → List String
  | 0, _, acc => acc.reverse
  | fuel + 1, bs, acc =>
    match Spec.decode bs with
    | .needMore => (s!"rest={bs.length}" :: acc).reverse
    | .frame f rest =>
      specDecodeAll fuel rest
        (s!"{f.fin}:{f.rsv1}{f.rsv2}{f.rsv3}:{f.opcode}:{b2s f.masked}:{bytesOut f.key}:{f.lenForm}:{summarize f.payload}" :: acc)

def ops : List String → Option String
  | ["m-utf8", h] => (parseBytes h).map (fun bs => b2s (Model.validateUtf8 bs))
  | ["s-utf8", h] => (parseBytes h).map (fun bs => b2s (Spec.wellFormed bs))
  | ["m-session", cfg, evs, o] => sessionOp cfg evs o
  | ["m-mask", k, d] => do
    let k ← parseBytes k
    let d ← parseBytes d
    some (summarize (Model.mask k d))
  | ["m-mask-big", k, d] => do
    let k ← parseBytes k
    let d ← parseBytes d
    some (summarize (Model.maskBig k d))
  | ["m-format", fin, r1, r2, r3, op, m, key, p] => do
    let fin ← fin.toNat?
    let r1 ← r1.toNat?
    let r2 ← r2.toNat?
    let r3 ← r3.toNat?
    let op ← op.toNat?
    let m ← m.toNat?
    let key ← parseBytes key
    let p ← parseBytes p
    match Model.format { fin := fin, rsv1 := r1, rsv2 := r2, rsv3 := r3, opcode := op, mask := m, data := p } key with
    | .ok w => some (summarize w)
    | .error e => some (exnOut e)
  | ["m-validate", fin, r1, r2, r3, op, skip, p] => do
    let fin ← fin.toNat?
    let r1 ← r1.toNat?
    let r2 ← r2.toNat?
    let r3 ← r3.toNat?
    let op ← op.toNat?
    let p ← parseBytes p
    match Model.validate { fin := fin, rsv1 := r1, rsv2 := r2, rsv3 := r3, opcode := op, mask := 0, data := p } (skip == "1") with
    | none => some "ok"
    | some e => some (exnOut e)
  | ["m-threads-send", frames, sched, acc] => do
    let fr ← (frames.splitOn ".").mapM parseBytes
    let sc ← if sched == "-" then some [] else (sched.splitOn ".").mapM String.toNat?
    let ac ← if acc == "-" then some [] else (acc.splitOn ".").mapM String.toNat?
    let framesF : Nat → Bytes := fun i => fr.getD i []
    let accF : Nat → Nat := fun k => if ac.isEmpty then 1000000000 else ac.getD (k % ac.length) 1
    let st := Model.Threads.run Gen.sendLoopUnderLock framesF accF (Model.Threads.init framesF) sc
    let pcs := (List.range fr.length).map fun i => match st.pc i with
      | .start => "s" | .writing _ => "w" | .done => "d"
    some (s!"{summarize st.wire}|{String.intercalate "." (st.order.map toString)}|{String.intercalate "" pcs}")
  | ["m-threads-prog", progs, sched, acc] => do
    -- progs: one program per thread joined by '.', a program = frames (hex) joined by ',' (`-` = no frame)
    let pr ← (progs.splitOn ".").mapM fun t =>
      if t == "-" then some [] else (t.splitOn ",").mapM parseBytes
    let sc ← if sched == "-" then some [] else (sched.splitOn ".").mapM String.toNat?
    let ac ← if acc == "-" then some [] else (acc.splitOn ".").mapM String.toNat?
    let progF : Nat → List Bytes := fun i => pr.getD i []
    let accF : Nat → Nat := fun k => if ac.isEmpty then 1000000000 else ac.getD (k % ac.length) 1
    let st := Model.ThreadsProg.run Gen.sendLoopUnderLock accF (Model.ThreadsProg.init progF) sc
    let pcs := (List.range pr.length).map fun i => match st.pc i with
      | .ready => "r" | .writing _ => "w" | .released => "l" | .done => "d"
    some (s!"{summarize st.wire}|{String.intercalate "." (st.order.map toString)}|{String.intercalate "" pcs}")
  | ["m-threads-recv", frames, sched] => do
    -- frames: `fin:opcode:payload` joined by '.'; sched: task ids joined by '.'
    let fr ← (frames.splitOn ".").mapM fun t =>
      match t.splitOn ":" with
      | [fin, op, p] => do
        let fin ← fin.toNat?
        let op ← op.toNat?
        let p ← parseBytes p
        some ({ fin := fin, rsv1 := 0, rsv2 := 0, rsv3 := 0, opcode := op, mask := 0, data := p } : Model.Frame)
      | _ => none
    let sc ← if sched == "-" then some [] else (sched.splitOn ".").mapM String.toNat?
    let st := Model.Readers.run Gen.recvUnderReadlock (Model.Readers.init fr) sc
    let dl := st.delivered.map fun (i, op, d) => s!"{i}:{op}:{summarize d}"
    let holder := match st.holder with | none => "-" | some h => toString h
    some (s!"{String.intercalate "," dl}|{st.stream.length}|{holder}|{b2s st.cont.isNone}")
  | ["m-close-code", n] => n.toNat?.map (fun n => b2s (Model.isValidCloseStatus n))
  | ["s-close-code", n] => n.toNat?.map (fun n => b2s (Spec.wireCode n))
  | ["s-decode", w] => (parseBytes w).map (fun w => wireOut (Spec.decode w))
  | ["s-decode-all", w] => (parseBytes w).map (fun w => String.intercalate ";" (specDecodeAll (w.length + 1) w []))
  | ["s-frame-legal", inmsg, fin, r1, r2, r3, op, p] => do
    let fin ← fin.toNat?
    let r1 ← r1.toNat?
    let r2 ← r2.toNat?
    let r3 ← r3.toNat?
    let op ← op.toNat?
    let p ← parseBytes p
    some (b2s (Spec.frameLegal (inmsg == "1") fin r1 r2 r3 op p))
  | _ => none

end WS.Driver.Core
