/- WS.Driver.OpsCore — ops of the byte-level layers (L0–L3): UTF-8, frames, parser, loop, conn. -/
import WS.Driver.Util
import WS.Spec.Unicode
import WS.Model.Utf8
namespace WS.Driver.Core
open WS WS.Driver

def ops : List String → Option String
  | ["m-utf8", h] => (parseBytes h).map (fun bs => b2s (Model.validateUtf8 bs))
  | ["s-utf8", h] => (parseBytes h).map (fun bs => b2s (Spec.wellFormed bs))
  | _ => none

end WS.Driver.Core
