/- WS.Driver.OpsH2 — op group H2 (see AGENTS_GUIDE.md). Return `none` for ops not handled here. -/
import WS.Driver.Util
namespace WS.Driver.H2
open WS WS.Driver

def ops : List String → Option String
  | _ => none

end WS.Driver.H2
