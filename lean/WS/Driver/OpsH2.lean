/- WS.Driver.OpsH2 — op group H2 (C09 C10 C11, head phase of C17).
   Encodings (all arguments are single space-free tokens):
     text          hex of UTF-8, `-` = empty
     optional text `~` = None, else text
     list of text  `_` = empty list, else `,`-joined text items
     script        `_` = no events, else `,`-joined items: hex chunk | `T` timeout | `R` reset
     tail          `E` (end of stream) | `T` (silence: every further recv times out)
     headers dict  `_` or `;`-joined `name=value` (text items)
-/
import WS.Driver.Util
import WS.Base.Sha1
import WS.Base.Base64
import WS.Spec.HttpRequest
import WS.Spec.Handshake
import WS.Spec.TlsPolicy
import WS.Model.Connect
namespace WS.Driver.H2
open WS WS.Driver WS.PyH2 WS.H2 WS.Model.Http WS.Model.Handshake WS.Model.Connect

/-! ### the concrete digest -/

/-- `base64(sha1((key ++ GUID).encode("utf-8")))` -/
def acceptOf (key : Str) : Str :=
  Base64.encode (Sha1.sha1 (encodeUtf8 (key ++ Gen.guid.toList)))

/-! ### argument parsing -/

def pStr (s : String) : Option Str := (parseStr s).map String.toList

def pOptStr (s : String) : Option (Option Str) :=
  if s == "~" then some none else (pStr s).map some

def pList {α : Type} (f : String → Option α) (sep : String) (s : String) : Option (List α) :=
  if s == "_" then some [] else (s.splitOn sep).mapM f

def pStrList (s : String) : Option (List Str) := pList pStr "," s

def pBool (s : String) : Option Bool :=
  if s == "1" then some true else if s == "0" then some false else none

def pOptNat (s : String) : Option (Option Nat) :=
  if s == "~" then some none else s.toNat?.map some

def pEvents (s : String) : Option (List HEv) :=
  (pList (fun it =>
    if it == "T" then some [HEv.timeout]
    else if it == "R" then some [HEv.reset]
    else (parseBytes it).map (fun bs => bs.map HEv.byte)) "," s).map List.flatten

def pTail (s : String) : Option Tail :=
  if s == "E" then some .eof else if s == "T" then some .timeout else none

def pDict (s : String) : Option Dict :=
  pList (fun it => match it.splitOn "=" with
    | [k, v] => match pStr k, pStr v with
      | some k, some v => some (k, v)
      | _, _ => none
    | _ => none) ";" s

def pExn (s : String) : Option HExn :=
  match s with
  | "CLOSED" => some .closed | "TIMEOUT" => some .timeout | "TRANSPORT" => some .transport
  | "WSGENERIC" => some .wsgeneric | "PROXY" => some .proxy | "ADDRESS" => some .address
  | "VALUEERROR" => some .valueError
  | _ => none

def pOutcome (s : String) : Option (Except HExn Unit) :=
  if s == "ok" then some (.ok ()) else (pExn s).map .error

/-- `A` | `L:<list>` | `D:<k=v;k=~>` -/
def pHeaderOpt (s : String) : Option HeaderOpt :=
  if s == "A" then some .absent
  else match s.splitOn ":" with
    | ["L", l] => (pStrList l).map .list
    | ["D", d] =>
      (pList (fun it => match it.splitOn "=" with
        | [k, v] => match pStr k, pOptStr v with
          | some k, some v => some (k, v)
          | _, _ => none
        | _ => none) ";" d).map .dict
    | _ => none

/-- seven tokens: host origin suppress header connection subprotocols cookie -/
def pOpts : List String → Option Opts
  | [h, og, so, hd, cn, sb, ck] =>
    match pOptStr h, pOptStr og, pBool so, pHeaderOpt hd, pOptStr cn, pStrList sb, pOptStr ck with
    | some h, some og, some so, some hd, some cn, some sb, some ck => some ⟨h, og, so, hd, cn, sb, ck⟩
    | _, _, _, _, _, _, _ => none
  | _ => none

def pCert (s : String) : Option (Option CertReqs) :=
  match s with
  | "~" => some none | "N" => some (some .none) | "O" => some (some .optional)
  | "R" => some (some .required) | _ => none

/-- `cert:chk:cafile:capath:server_hostname:context`, chk ∈ ~ 0 1, context ∈ ~ n -/
def pSslOpt (s : String) : Option SslOpt :=
  match s.splitOn ":" with
  | [c, k, f, p, h, x] =>
    let chk : Option (Option Bool) := if k == "~" then some none else (pBool k).map some
    match pCert c, chk, pOptStr f, pOptStr p, pOptStr h, pOptNat x with
    | some c, some k, some f, some p, some h, some x => some ⟨c, k, f, p, h, x, false⟩
    | _, _, _, _, _, _ => none
  | [c, k, f, p, h, x, lg] =>
    let chk : Option (Option Bool) := if k == "~" then some none else (pBool k).map some
    match pCert c, chk, pOptStr f, pOptStr p, pOptStr h, pOptNat x, pBool lg with
    | some c, some k, some f, some p, some h, some x, some lg => some ⟨c, k, f, p, h, x, lg⟩
    | _, _, _, _, _, _, _ => none
  | _ => none

/-- `bundle:isfile:isdir` -/
def pTlsEnv (s : String) : Option TlsEnv :=
  match s.splitOn ":" with
  | [b, f, d] => match pOptStr b, pBool f, pBool d with
    | some b, some f, some d => some ⟨b, f, d⟩
    | _, _, _ => none
  | _ => none

/-- inverse of `oPolicy` -/
def pCa (s : String) : Option CaSource :=
  if s == "unset" then some .unset
  else if s == "default" then some .default
  else if s.startsWith "loc(" && s.endsWith ")" then
    let inner := String.ofList ((s.toList.drop 4).dropLast)
    match inner.splitOn "," with
    | [a, b] => match pOptStr a, pOptStr b with
      | some a, some b => some (.locations a b)
      | _, _ => none
    | _ => none
  else none

def pPolicy (s : String) : Option Policy :=
  match s.splitOn "/" with
  | ["fresh", v, c, ca, sni] =>
    match pCert v, pBool c, pCa ca, pStr sni with
    | some (some v), some c, some ca, some sni => some (.fresh v c ca sni)
    | _, _, _, _ => none
  | ["user", n, sni] =>
    match n.toNat?, pStr sni with
    | some n, some sni => some (.user n sni)
    | _, _ => none
  | _ => none

/-- timeline token of the real run -> event (payloads are irrelevant to the ordering Spec) -/
def pTimelineEv (t : String) : Option Ev :=
  match t.splitOn ":" with
  | ["D", i, sec, host] => match i.toNat?, pBool sec, pStr host with
    | some i, some sec, some host => some (.dial i ⟨host, 0, [], sec⟩)
    | _, _, _ => none
  | ["A", i] => i.toNat?.map (fun i => .adopt i ⟨[], 0, [], false⟩)
  | ["W", i, pol, ok] => match i.toNat?, pPolicy pol, pBool ok with
    | some i, some pol, some ok => some (.wrap i pol ok)
    | _, _, _ => none
  | ["Iw", i] => i.toNat?.map (fun i => .io i (.write []))
  | ["Ir", i] => i.toNat?.map (fun i => .io i (.recv 1))
  | ["Pw", i] => i.toNat?.map (fun i => .plain i (.write []))
  | ["Pr", i] => i.toNat?.map (fun i => .plain i (.recv 1))
  | ["C", i] => i.toNat?.map (fun i => .close i)
  | _ => none

/-! ### rendering -/

def oStr (s : Str) : String := strOut (String.ofList s)
def oOptStr : Option Str → String
  | none => "~"
  | some s => oStr s
def oDict (d : Dict) : String :=
  if d.isEmpty then "_" else ";".intercalate (d.map (fun kv => oStr kv.1 ++ "=" ++ oStr kv.2))
def oOptInt : Option Int → String
  | none => "None"
  | some n => toString n

def oCert : CertReqs → String
  | .none => "N" | .optional => "O" | .required => "R"

def oCa : CaSource → String
  | .unset => "unset" | .default => "default"
  | .locations f p => s!"loc({oOptStr f},{oOptStr p})"

def oPolicy : Policy → String
  | .fresh v c ca sni => s!"fresh/{oCert v}/{b2s c}/{oCa ca}/{oStr sni}"
  | .user c sni => s!"user/{c}/{oStr sni}"

def oIo (tag : String) : IoEv → String
  | .write bs => s!"{tag}w:{summarize bs}"
  | .recv n => s!"{tag}r{n}"

def oEv : Ev → String
  | .dial i _ => s!"D{i}" | .adopt i _ => s!"A{i}" | .close i => s!"C{i}"
  | .plain i e => oIo s!"P{i}" e
  | .io i e => oIo s!"I{i}" e
  | .wrap i p ok => s!"W{i}:{oPolicy p}:{b2s ok}"

/-- run-length compress equal neighbours: `x*3` -/
def rleAux : Option (String × Nat) → List String → List String
  | none, [] => []
  | some (x, k), [] => [if k = 1 then x else s!"{x}*{k}"]
  | none, y :: ys => rleAux (some (y, 1)) ys
  | some (x, k), y :: ys =>
    if y == x then rleAux (some (x, k + 1)) ys
    else (if k = 1 then x else s!"{x}*{k}") :: rleAux (some (y, 1)) ys

def rle (l : List String) : List String := rleAux none l

def oTrace (t : List String) : String := if t.isEmpty then "_" else ",".intercalate (rle t)

def hasNonAscii (evs : List HEv) : Bool :=
  evs.any (fun e => match e with | .byte b => b.toNat ≥ 128 | _ => false)

/-- complete lines (ending in LF) among the bytes of the first `n` events. -/
def consumedLines (evs : List HEv) (n : Nat) : List Bytes :=
  let bs := (evs.take n).filterMap (fun e => match e with | .byte b => some b | _ => none)
  let rec go : List UInt8 → Bytes → List Bytes
    | [], _ => []
    | b :: r, acc => if b = 10 then (acc.reverse ++ [b]) :: go r [] else go r (b :: acc)
  go bs []

/-- the model's answer is meaningful unless a *decodable* line with a non-ASCII character was
    processed (Unicode strip / lower / int are not modelled). -/
def unmodelled (evs : List HEv) (n : Nat) : Bool :=
  match (consumedLines evs n).find? (fun l => l.any (fun b => b.toNat ≥ 128)) with
  | some l => (decodeUtf8 l).isSome
  | none => false

def oReq (r : Spec.Http.Req) : String :=
  oStr r.target ++ " " ++
    (if r.headers.isEmpty then "_"
     else ";".intercalate (r.headers.map (fun nv => oStr nv.1 ++ "=" ++ oStr nv.2)))

/-! ### connect -/

/-- `url>host:port:resource:secure` or `url>E:<EXN>`; `;`-joined -/
def pUrlTable (s : String) : Option (List (Str × Except HExn UrlParts)) :=
  pList (fun it => match it.splitOn ">" with
    | [u, r] => match pStr u, r.splitOn ":" with
      | some u, ["E", e] => (pExn e).map (fun e => (u, .error e))
      | some u, [h, p, rs, sec] => match pStr h, p.toNat?, pStr rs, pBool sec with
        | some h, some p, some rs, some sec => some (u, .ok ⟨h, p, rs, sec⟩)
        | _, _, _, _ => none
      | _, _ => none
    | _ => none) ";" s

/-- `0` | `1` | `1:user:pw` (pw may be `~`) -/
def pProxy (s : String) : Option ProxyDec :=
  match s.splitOn ":" with
  | ["0"] => some ⟨false, none⟩
  | ["1"] => some ⟨true, none⟩
  | ["1", u, p] => match pStr u, pOptStr p with
    | some u, some p => some ⟨true, some (u, p)⟩
    | _, _ => none
  | _ => none

/-- `addr!tail!events!sendsLeft!wrap!rand!jar` -/
def pDial (s : String) : Option Dial :=
  match s.splitOn "!" with
  | [a, t, ev, sl, w, r, j] =>
    match pOutcome a, pTail t, pEvents ev, pOptNat sl, pOutcome w, parseBytes r, pStr j with
    | some a, some t, some ev, some sl, some w, some r, some j => some ⟨a, ⟨ev, t, sl⟩, w, r, j⟩
    | _, _, _, _, _, _, _ => none
  | _ => none

def pSock (s : String) : Option (Option Sock) :=
  if s == "~" then some none
  else match s.splitOn "!" with
    | [t, ev, sl] => match pTail t, pEvents ev, pOptNat sl with
      | some t, some ev, some sl => some (some ⟨ev, t, sl⟩)
      | _, _, _ => none
    | _ => none

def oOut (o : Out) : String :=
  let res := match o.res with | .ok _ => "ok" | .error e => e.toStr
  let st := match o.obj.resp with | some r => toString r.status | none => "None"
  let sub := match o.obj.resp with | some r => oOptStr r.subprotocol | none => "~"
  let sk := match o.obj.sock with | some i => toString i | none => "None"
  s!"{res} connected={b2s o.obj.connected} sock={sk} status={st} sub={sub} dials={o.dials} trace={oTrace (o.trace.map oEv)}"

def ops : List String → Option String
  | ["b64e", h] => (parseBytes h).map (fun bs => oStr (Base64.encode bs))
  | ["b64d", s] => (pStr s).map (fun s => match Base64.decode s with
      | some bs => "ok " ++ bytesOut bs
      | none => "none")
  | ["sha1", h] => (parseBytes h).map (fun bs => toHex (Sha1.sha1 bs))
  | ["accept-of", k] => (pStr k).map (fun k => oStr (acceptOf k))
  | ["m-read-headers", t, ev] =>
    match pTail t, pEvents ev with
    | some t, some ev =>
      match readHeaders ⟨ev, t, none⟩ with
      | (.ok h, s', n) =>
        some (if unmodelled ev n then "unmodelled" else
          s!"ok {oOptInt h.status} {oOptStr h.msg} {oDict h.headers} reads={n} left={(s'.inp.filter (fun e => match e with | .byte _ => true | _ => false)).length}")
      | (.error e, _, n) =>
        some (if unmodelled ev n then "unmodelled" else s!"exn {e.toStr} reads={n}")
    | _, _ => none
  | ["m-resp-headers", t, ev] =>
    match pTail t, pEvents ev with
    | some t, some ev =>
      match getRespHeaders ⟨ev, t, none⟩ with
      | (.ok (st, d), _, io) =>
        some (if unmodelled ev io.length then "unmodelled" else s!"ok {st} {oDict d} io={oTrace (io.map (oIo ""))}")
      | (.error e, _, io) =>
        some (if unmodelled ev io.length then "unmodelled" else s!"exn {e.toStr} io={oTrace (io.map (oIo ""))}")
    | _, _ => none
  | ["m-validate", d, k, subs] =>
    match pDict d, pStr k, pStrList subs with
    | some d, some k, some subs =>
      match validate acceptOf d k subs with
      | (true, sp) => some s!"1 {oOptStr sp}"
      | (false, _) => some "0"
    | _, _, _ => none
  | ["s-established", st, d, k, offered] =>
    let status : Option (Option Int) := if st == "None" then some none else st.toInt?.map some
    match status, pDict d, pStr k, pStrList offered with
    | some status, some d, some k, some offered =>
      some (match Spec.Handshake.firstFailing acceptOf ⟨status, d⟩ k offered with
        | none => "1"
        | some c => "0:" ++ c)
    | _, _, _, _ => none
  | "m-build-request" :: rs :: url :: host :: port :: rest =>
    match rest.reverse with
    | jar :: rand :: optsRev =>
      match pStr rs, pStr url, pStr host, port.toNat?, pOpts optsRev.reverse, parseBytes rand, pStr jar with
      | some rs, some url, some host, some port, some o, some rand, some jar =>
        match getHandshakeHeaders rs url host port o rand jar with
        | .ok (lines, key) => some s!"ok {oStr key} {bytesOut (encodeUtf8 (requestText lines))}"
        | .error e => some s!"exn {e.toStr}"
      | _, _, _, _, _, _, _ => none
    | _ => none
  | ["s-parse-request", h] =>
    match parseBytes h with
    | some bs =>
      match decodeUtf8 bs with
      | some s => match Spec.Http.parseRequest s with
        | some r => some ("ok " ++ oReq r)
        | none => some "none"
      | none => some "none"
    | none => none
  | "s-expected-request" :: host :: port :: rs :: sec :: rest =>
    match rest.reverse with
    | jar :: rand :: optsRev =>
      match pStr host, port.toNat?, pStr rs, pBool sec, pOpts optsRev.reverse, parseBytes rand, pStr jar with
      | some host, some port, some rs, some sec, some o, some rand, some jar =>
        some ("ok " ++ oReq (Spec.Http.expected ⟨host, port, rs, sec⟩ o rand jar))
      | _, _, _, _, _, _, _ => none
    | _ => none
  | ["s-key-ok", k, r] =>
    match pStr k, parseBytes r with
    | some k, some r => some (b2s (Spec.Http.keyOk k r 16))
    | _, _ => none
  | ["m-tls-policy", o, e, h] =>
    match pSslOpt o, pTlsEnv e, pStr h with
    | some o, some e, some h =>
      match Model.Tls.sslSocket o e h with
      | .ok p => some (oPolicy p)
      | .error x => some s!"exn {x.toStr}"
    | _, _, _ => none
  | ["s-tls-policy", o, e, h] =>
    match pSslOpt o, pTlsEnv e, pStr h with
    | some o, some e, some h =>
      match Spec.Tls.tlsPolicy o e h with
      | some p => some (oPolicy p)
      | none => some "refused"
    | _, _, _ => none
  | ["s-order-ok", o, e, evs] =>
    match pSslOpt o, pTlsEnv e, pList pTimelineEv ";" evs with
    | some o, some e, some tr =>
      let pol := fun host => Spec.Tls.tlsPolicy o e host
      some (if !Spec.Tls.orderedB pol [] tr then "0:tls-before-data"
            else if !Spec.Tls.wsNeverWrapped tr then "0:ws-never-wrapped"
            else "1")
    | _, _, _ => none
  | "m-connect" :: url :: rest =>
    -- url opts(7) limit usersock sslopt tlsenv urltable proxy dials
    match rest with
    | [o1, o2, o3, o4, o5, o6, o7, lim, us, so, te, ut, px, ds] =>
      match pStr url, pOpts [o1, o2, o3, o4, o5, o6, o7], pOptNat lim, pSock us, pSslOpt so, pTlsEnv te,
            pUrlTable ut, pProxy px, pList pDial "/" ds with
      | some url, some o, some lim, some us, some so, some te, some ut, some px, some ds =>
        let env : Env := {
          acceptOf := acceptOf
          parseUrl := fun u => match ut.find? (fun e => e.1 = u) with
            | some e => e.2
            | none => .error .valueError
          proxy := fun _ => px
          sslopt := so
          tlsEnv := te }
        let world : Nat → Dial := fun i => ds.getD i { addr := .error .transport }
        some (oOut (connect env world url o lim us {}))
      | _, _, _, _, _, _, _, _, _ => none
    | _ => none
  | _ => none

end WS.Driver.H2
