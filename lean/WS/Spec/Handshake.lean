/-
  WS.Spec.Handshake — C09: when a response establishes the connection (RFC 6455 §4.1 items 1–6,
  §4.2.2; the property text).  Independent of `_handshake.py`.

  A response is its status code and its header fields (names lower-cased, values without the
  surrounding white space).  A field "carries" a value if some field of that name has it.
  The accept value must *equal* `acceptOf key` (base64 is case-sensitive), where
  `acceptOf key = base64 (sha1 (key ++ GUID))`; it is a parameter here, the theorems hold for
  any function.  `tokens` = split on ",", trim, lower-case.
-/
import WS.Base.H2Types
namespace WS.Spec.Handshake
open WS WS.PyH2 WS.H2

structure Response where
  status : Option Int
  fields : List (Str × Str)
  deriving Repr, DecidableEq, Inhabited

def tokens (v : Str) : List Str := (splitAll ',' v).map (fun x => lower (strip x))

/-- some field called `name` has a value satisfying `p`. -/
def carries (r : Response) (name : String) (p : Str → Bool) : Bool :=
  r.fields.any (fun nv => nv.1 = name.toList && p nv.2)

/-! the five named clauses -/
def clStatus (r : Response) : Bool := r.status = some 101
def clUpgrade (r : Response) : Bool :=
  carries r "upgrade" (fun v => (tokens v).contains "websocket".toList)
def clConnection (r : Response) : Bool :=
  carries r "connection" (fun v => (tokens v).contains "upgrade".toList)
def clAccept (acceptOf : Str → Str) (r : Response) (key : Str) : Bool :=
  carries r "sec-websocket-accept" (fun v => v = acceptOf key)
def clSubprotocol (r : Response) (offered : List Str) : Bool :=
  offered.isEmpty
    || carries r "sec-websocket-protocol" (fun v => offered.any (fun s => lower s = lower v))

def established (acceptOf : Str → Str) (r : Response) (key : Str) (offered : List Str) : Bool :=
  clStatus r && clUpgrade r && clConnection r && clAccept acceptOf r key && clSubprotocol r offered

/-- name of the first clause that fails (`none` = established). -/
def firstFailing (acceptOf : Str → Str) (r : Response) (key : Str) (offered : List Str) :
    Option String :=
  if !clStatus r then some "status-101"
  else if !clUpgrade r then some "upgrade-token"
  else if !clConnection r then some "connection-token"
  else if !clAccept acceptOf r key then some "accept-exact"
  else if !clSubprotocol r offered then some "subprotocol-offered"
  else none

/-- a redirect is never itself success -/
def isRedirect (status : Option Int) : Bool :=
  status = some 301 || status = some 302 || status = some 303 || status = some 307 || status = some 308

end WS.Spec.Handshake
