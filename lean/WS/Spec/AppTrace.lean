/-
  WS.Spec.AppTrace — what properties C13, C14, C15 say, as executable predicates on an observed
  trace of `run_forever` (the model's or the real implementation's), written from the property
  texts, not from the code.  Only the *vocabulary* (callback names, arguments, trace events, server
  events, dial outcomes, the configuration record) is shared with WS.Model.App; no model function
  is used here.

  Readings fixed here (DESIGN §6):
  * "an error was reported" = `on_error` was called with something that is not the exception of a
    user callback (those are application errors, reported but not errors of the run);
  * "the run ended by the server's close frame" = the close frame of the current connection had
    arrived when `on_close` fired and nothing else had ended the run before (no error report, no
    callback that called close() or raised KeyboardInterrupt);
  * "transport gone" = closed, or unreachable (`sockDropped`, which the real run observes through
    garbage collection); a refused dial is a socket that is opened and closed at once;
  * a user callback's exception is reported by the *next* callback event being `on_error(that exception)`.
-/
import WS.Model.App
namespace WS.Spec.AppTrace
open WS WS.Model.App

/-! ### projections -/

structure CbEv where
  pos : Nat            -- index in the trace
  time : Nat
  cb : Cb
  args : List Arg
  k : Nat              -- invocation number of this callback (0-based, over the whole trace)
  deriving Repr, DecidableEq

def annotate : Trace → Nat → (Cb → Nat) → List CbEv
  | [], _, _ => []
  | (t, .cb c a) :: rest, i, cnt =>
    { pos := i, time := t, cb := c, args := a, k := cnt c } ::
      annotate rest (i + 1) (fun x => if x = c then cnt x + 1 else cnt x)
  | _ :: rest, i, cnt => annotate rest (i + 1) cnt

def cbNames (tr : Trace) : List Cb :=
  tr.filterMap fun te => match te.2 with | .cb c _ => some c | _ => none

def AExn.isUser : AExn → Bool
  | .user _ _ => true
  | _ => false

/-- an error of the run was reported -/
def isErrorReport : Ev → Bool
  | .cb .onError [.exn e] => !AExn.isUser e
  | _ => false

def isEnd : Ev → Bool
  | .returned _ | .raisedOut _ | .blocked | .outOfFuel => true
  | _ => false

/-- cut a trace of several runs after each end marker -/
def splitRuns : Trace → Trace → List Trace
  | [], acc => if acc.isEmpty then [] else [acc.reverse]
  | te :: rest, acc => if isEnd te.2 then (te :: acc).reverse :: splitRuns rest [] else splitRuns rest (te :: acc)

def actOf (plan : Cb → List Act) (cb : Cb) (k : Nat) : Act := (plan cb).getD k .ok

/-! ### C13: delivery -/

def dataArg (op : Nat) (p : Bytes) : Arg := if op = 1 then .str p else .bytes p

/-- the callbacks one server event must produce (those that are set), with its arrival time -/
def deliver (has : Cb → Bool) (t : Nat) : SrvEv → List (Nat × Cb × List Arg)
  | .message op p _ =>
    (if has .onData then [(t, Cb.onData, [dataArg op p, .int op, .bool true])] else []) ++
    (if has .onMessage then [(t, Cb.onMessage, [dataArg op p])] else [])
  | .ping p => if has .onPing then [(t, Cb.onPing, [.bytes p])] else []
  | .pong p => if has .onPong then [(t, Cb.onPong, [.bytes p])] else []
  | _ => []

def isTerminator : SrvEv → Bool
  | .close _ | .eof | .reset | .protoError | .payloadError => true
  | _ => false

/-- expected deliveries of a connection established at `t0`, up to its first terminating event -/
def expectedDeliveries (has : Cb → Bool) : Nat → List TEv → List (Nat × Cb × List Arg)
  | _, [] => []
  | t, e :: rest =>
    if isTerminator e.ev then [] else deliver has (t + e.dt) e.ev ++ expectedDeliveries has (t + e.dt) rest

/-- the callback events a list of due callbacks produces under a plan: each one fires once, in order,
    at its time; one that raises is followed at once by `on_error(its exception)` (when on_error is set)
    and nothing is lost.  `cnt` = invocations so far (the plan is indexed by invocation). -/
def reportTrace (has : Cb → Bool) (plan : Cb → List Act) : (Cb → Nat) → List (Nat × Cb × List Arg) → Trace
  | _, [] => []
  | cnt, (t, cb, args) :: rest =>
    let k := cnt cb
    let cnt1 : Cb → Nat := fun x => if x = cb then cnt x + 1 else cnt x
    if actOf plan cb k = .raise && has .onError then
      (t, .cb cb args) :: (t, .cb .onError [.exn (.user cb k)]) ::
        reportTrace has plan (fun x => if x = .onError then cnt1 x + 1 else cnt1 x) rest
    else (t, .cb cb args) :: reportTrace has plan cnt1 rest

/-- **the C13 trace**: what the callbacks of one connection established at `t0` must be while the legal
    traffic `evs` arrives: the opening callback first, then every event's callbacks at its arrival time. -/
def expectedConn (has : Cb → Bool) (plan : Cb → List Act) (cnt : Cb → Nat) (t0 : Nat) (first : Cb)
    (evs : List TEv) : Trace :=
  reportTrace has plan cnt ((if has first then [(t0, first, [])] else []) ++ expectedDeliveries has t0 evs)

/-- the callback events of a trace -/
def cbOnly (tr : Trace) : Trace := tr.filter fun te => match te.2 with | .cb _ _ => true | _ => false

def isDelivery : Cb → Bool
  | .onData | .onMessage | .onPing | .onPong => true
  | _ => false

/-- walk the callback events of one connection (after its open event). `prev` = the preceding event.
    Returns the violated clauses. -/
def walkConn (has : Cb → Bool) (plan : Cb → List Act) :
    List CbEv → Option CbEv → List (Nat × Cb × List Arg) → List String
  | [], prev, _ =>
    match prev with
    | some p => if actOf plan p.cb p.k = .raise && has .onError && p.cb ≠ .onError then ["error-report:missing"] else []
    | none => []
  | x :: rest, prev, exp =>
    -- the previous callback raised: this event must be its report
    let needReport := match prev with
      | some p => actOf plan p.cb p.k = .raise && has .onError
      | none => false
    let isReport := match prev, x.args with
      | some p, [.exn (.user c k)] => x.cb = .onError && c = p.cb && k = p.k && x.time = p.time
      | _, _ => false
    let v1 := if needReport && !isReport then ["error-report:missing"] else []
    let v2 := match x.cb, x.args with
      | .onError, [.exn (.user _ _)] => if isReport && needReport then [] else ["error-report:spurious"]
      | _, _ => []
    if isDelivery x.cb then
      match exp with
      | [] => v1 ++ v2 ++ ["delivery:unexpected"] ++ walkConn has plan rest (some x) []
      | (t, c, a) :: exp' =>
        let v3 := if c = x.cb && a = x.args then (if t = x.time then [] else ["prompt:late"])
                  else (if c = x.cb then
                          (match a, x.args with
                           | [d, .int _, f], [d', .int _, f'] =>
                             if c = .onData && d = d' && f = f' then ["delivery:on-data-wrong-opcode"] else ["delivery:wrong-args"]
                           | _, _ => ["delivery:wrong-args"])
                        else ["delivery:order"])
        v1 ++ v2 ++ v3 ++ walkConn has plan rest (some x) exp'
    else v1 ++ v2 ++ walkConn has plan rest (some x) exp

/-- deliveries still expected after the walk (for the exact mode) -/
def remaining (evs : List CbEv) (exp : List (Nat × Cb × List Arg)) : Nat :=
  exp.length - (evs.filter fun x => isDelivery x.cb).length

/-- trace positions of the dial events of a run: (pos, time, idx) -/
def dialsOf : Trace → Nat → List (Nat × Nat × Nat)
  | [], _ => []
  | (t, .dial i) :: rest, p => (p, t, i) :: dialsOf rest (p + 1)
  | _ :: rest, p => dialsOf rest (p + 1)

/-- C13 for one run. `anns` = annotated callback events of the whole trace restricted to this run
    (positions are relative to the run's trace), `world` = its dial outcomes (i-th dial of the run). -/
def c13Run (c : Cfg) (exact : Bool) (tr : Trace) (anns : List CbEv) (world : List Dial) : List String :=
  let ds := dialsOf tr 0
  let spans := ds.zipIdx.map fun ((p, t, _), j) =>
    let stop := match ds[j + 1]? with | some (q, _, _) => q | none => tr.length
    (j, p, t, stop)
  spans.flatMap fun (j, p, t0, stop) =>
    let evs := anns.filter fun x => p < x.pos && x.pos < stop
    match world.getD j .refused with
    | .established script =>
      let firstCb := if j > 0 && c.has .onReconnect then Cb.onReconnect else Cb.onOpen
      let (vOpen, body) :=
        if c.has firstCb then
          match evs with
          | x :: rest => if x.cb = firstCb && x.args = [] && x.time = t0 then ([], (some x, rest))
                         else (["open-first:missing"], (none, evs))
          | [] => (["open-first:missing"], (none, []))
        else ([], (none, evs))
      let opens := (body.2.filter fun x => x.cb = .onOpen || x.cb = .onReconnect).length
      let exp := expectedDeliveries c.has t0 script
      vOpen ++ (if opens > 0 then ["open-first:repeated"] else []) ++
        walkConn c.has c.plan body.2 body.1 exp ++
        (if exact && remaining body.2 exp > 0 then ["delivery:lost"] else [])
    | _ =>
      if evs.any (fun x => isDelivery x.cb || x.cb = .onOpen || x.cb = .onReconnect) then ["delivery:unexpected"] else []

/-! ### C14: the end of a run -/

def lastEv (tr : Trace) : Option Ev := tr.getLast?.map (·.2)

/-- exactly one on_close, and no callback after it.  When the user's on_close itself fails (its plan
    says raise / KeyboardInterrupt) the report of that failure to on_error is its consequence, not a
    further event of the run: only on_error calls may then follow. -/
def onceLast (plan : Cb → List Act) (anns : List CbEv) : List String :=
  let n := (anns.filter fun x => x.cb = .onClose).length
  (if n = 1 then [] else [if n = 0 then "on-close-once:never" else "on-close-once:repeated"]) ++
  (match anns.find? fun x => x.cb = .onClose with
   | some o =>
     let after := anns.filter fun (x : CbEv) => x.pos > o.pos && x.cb ≠ .onClose
     let failed := actOf plan .onClose o.k = .raise || actOf plan .onClose o.k = .ki
     if after.isEmpty || (failed && after.all fun x => x.cb = .onError) then []
     else ["on-close-last:callback-after-on-close"]
   | none => [])

def live (tr : Trace) : Int :=
  tr.foldl (fun n te => match te.2 with
    | .dial _ => n + 1 | .sockClosed _ => n - 1 | .sockDropped _ => n - 1 | _ => n) 0

def livePings (tr : Trace) : Int :=
  tr.foldl (fun n te => match te.2 with | .pingStart => n + 1 | .pingStop => n - 1 | _ => n) 0

/-- every prefix has at most one live transport and one live ping thread -/
def resourcesBounded : Trace → Int → Int → Bool
  | [], _, _ => true
  | te :: rest, l, p =>
    let l' := match te.2 with | .dial _ => l + 1 | .sockClosed _ => l - 1 | .sockDropped _ => l - 1 | _ => l
    let p' := match te.2 with | .pingStart => p + 1 | .pingStop => p - 1 | _ => p
    decide (l' ≤ 1) && decide (p' ≤ 1) && resourcesBounded rest l' p'

/-- something other than a server close frame ended (or is about to end) the run: an error report,
    or a callback that called close() / raised KeyboardInterrupt.  FRAME "errors" are the close frame itself. -/
def otherCause (plan : Cb → List Act) (x : CbEv) : Bool :=
  (match x.cb, x.args with
   | .onError, [.exn (.frame _)] => false
   | .onError, [.exn e] => !AExn.isUser e
   | _, _ => false) ||
  (x.cb ≠ .onClose && (actOf plan x.cb x.k = .close || actOf plan x.cb x.k = .ki)) ||
  -- an on_error handler that itself raises: its exception propagates and ends the connection
  (x.cb = .onError && actOf plan x.cb x.k = .raise)

/-- a callback asked for the end of the run: close(), KeyboardInterrupt, or an on_error handler that raises -/
def otherCauseNoErr (plan : Cb → List Act) (x : CbEv) : Bool :=
  (actOf plan x.cb x.k = .close || actOf plan x.cb x.k = .ki) || (x.cb = .onError && actOf plan x.cb x.k = .raise)

/-- arrival time and body of the close frame in a script (if it is the first terminator) -/
def closeFrameOf : Nat → List TEv → Option (Nat × Bytes)
  | _, [] => none
  | t, e :: rest =>
    match e.ev with
    | .close b => some (t + e.dt, b)
    | ev => if isTerminator ev then none else closeFrameOf (t + e.dt) rest

def closeArgsOf (body : Bytes) : List Arg :=
  if body.length ≥ 2 then [.int (unbe (body.take 2)), .str (body.drop 2)] else [.none, .none]

/-- C14 for one run that ended. -/
def c14Run (c : Cfg) (tr : Trace) (anns : List CbEv) (world : List Dial) : List String :=
  match lastEv tr with
  | some (.returned b) =>
    let ds := dialsOf tr 0
    -- the connection current at the end
    let cur := match ds.getLast? with
      | some (_, t0, _) => match world.getD (ds.length - 1) .refused with
        | .established script => closeFrameOf t0 script
        | _ => none
      | none => none
    let oc := anns.find? fun x => x.cb = .onClose
    let before := match oc with
      | some o => anns.filter fun (x : CbEv) => x.pos < o.pos
      | none => anns
    let ocPos := match oc with | some o => o.pos | none => tr.length
    let other := before.any (otherCause c.plan)
    -- close() from a second thread racing with the server's close frame: either account of the end is right
    let raced := (tr.take ocPos).any (fun te => te.2 = .closeCall)
    let endedByFrame := match cur, oc with
      | some (tc, _), some o => !other && decide (tc ≤ o.time)
      | _, _ => false
    let expArgs := match cur with
      | some (_, body) => if endedByFrame then closeArgsOf body else [.none, .none]
      | none => [.none, .none]
    let vArgs := match oc with
      | some o => if o.args = expArgs || (raced && o.args = [.none, .none]) then [] else
          [if endedByFrame then "close-args:close-frame-args-lost" else "close-args:args-without-close-frame"]
      | none => []
    let reported := tr.any fun te => isErrorReport te.2
    let internal := tr.any fun te => match te.2 with
      | .cb .onError [.exn .attrError] => true
      | _ => false
    let appClosed := anns.any fun x => x.cb ≠ .onClose && actOf c.plan x.cb x.k = .close
    let frameErr := tr.any fun te => match te.2 with
      | .cb .onError [.exn (.frame _)] => true
      | _ => false
    let onErrFails := anns.any fun x => x.cb = .onError &&
      (actOf c.plan .onError x.k = .raise || actOf c.plan .onError x.k = .ki)
    let onCloseFails := anns.any fun x => x.cb = .onClose &&
      (actOf c.plan .onClose x.k = .raise || actOf c.plan .onClose x.k = .ki)
    let vRet :=
      if onCloseFails then []              -- a failing on_close handler: outside the statement
      else if endedByFrame && raced then (if internal then ["return-value:internal-error-reported"] else [])
      else if endedByFrame then
        (if frameErr then ["return-value:close-frame-reported-as-error"] else []) ++
        (if b && !frameErr then ["return-value:true-after-close-frame"] else [])
      else if internal then ["return-value:internal-error-reported"]
      else if !c.has .onError then []      -- nothing can be reported without an on_error handler
      else if onErrFails then []           -- an on_error handler that itself fails: outside the statement
      else if b = reported then []
      else [if b then "return-value:true-without-error-report" else "return-value:false-despite-error-report"]
    let _ := appClosed
    -- "a run that simply ended through the application's own close()": once another thread has called close(), nothing
    -- that happens on the way out is an error of the run (the internal-error case has its own clause above)
    --   (a close() that came before the connection was dialled closes nothing; an error that shows at the very tick of the
    --    close() may have been under way already: only a report at a LATER tick is judged)
    let lastDial := match ds.getLast? with | some (p, _, _) => p | none => 0
    let vOwn := match tr.findIdx? (fun te => te.2 = .closeCall) with
      | some i =>
        let tc := match tr[i]? with | some te => te.1 | none => 0
        if decide (lastDial < i) && (tr.drop (i + 1)).any (fun te => decide (tc < te.1) && isErrorReport te.2 &&
              (match te.2 with | .cb .onError [.exn .attrError] => false | _ => true)) && !onErrFails
        then ["return-value:error-reported-after-own-close"] else []
      | none => []
    (if c.has .onClose then onceLast c.plan anns else []) ++ vArgs ++ vRet ++ vOwn ++
      (if live tr = 0 then [] else ["clean:transport-left"]) ++
      (if livePings tr = 0 then [] else ["clean:ping-thread-left"])
  | _ => []

/-! ### C15: reconnection -/

/-- next non-bookkeeping event after position p -/
def precededBySleep (tr : Trace) (p : Nat) (t : Nat) (r : Nat) : Bool :=
  -- scanning backwards from the dial: only transport release may sit between the sleep and the dial
  let before := (tr.take p).reverse
  let rec go : List (Nat × Ev) → Bool
    | (ts, .sleep d) :: _ => d = r && ts + r = t
    | (_, .sockClosed _) :: rest => go rest
    | (_, .sockDropped _) :: rest => go rest
    | (_, .wrote _ _) :: rest => go rest
    | (_, .pingStop) :: rest => go rest
    | _ => false
  go before

/-- C15 for one run with reconnect interval r > 0 -/
def c15Run (c : Cfg) (tr : Trace) (anns : List CbEv) (world : List Dial) : List String :=
  let ds := dialsOf tr 0
  -- every dial but the first comes exactly r after a sleep(r)
  let v1 := (ds.drop 1).flatMap fun (p, t, _) =>
    if precededBySleep tr p t c.reconnect then [] else ["retry-interval:dial-without-sleep"]
  -- every sleep is followed by a dial (unless the run was cut)
  let sleeps := tr.zipIdx.filter fun (te, _) => match te.2 with | .sleep _ => true | _ => false
  let v2 := sleeps.flatMap fun (_, p) =>
    let after := tr.drop (p + 1)
    -- (a close() from another thread while the client waits for the next attempt ends the run: no dial follows that sleep)
    if after.any (fun te => match te.2 with | .dial _ => true | _ => false) || after.any (fun te => te.2 = .blocked) ||
       after.any (fun te => te.2 = .closeCall)
    then [] else ["retry:sleep-without-dial"]
  -- no on_close before the end of the run: covered by onceLast; resources:
  let v3 := if resourcesBounded tr 0 0 then [] else ["resources:more-than-one"]
  -- stop on a server close frame: no dial after it has arrived on the then-current connection
  let v4 := ds.zipIdx.flatMap fun ((p, t0, i), j) =>
    match world.getD j .refused with
    | .established script =>
      match closeFrameOf t0 script with
      | some (tc, _) =>
        -- was the connection still there when the frame arrived?
        let closedBefore := (tr.drop p).any fun te =>
          (te.2 = .sockClosed i || te.2 = .sockDropped i) && decide (te.1 < tc)
        let laterDial := (ds.drop (j + 1)).any fun (_, t, _) => decide (t ≥ tc)
        if !closedBefore && laterDial then ["stops:dial-after-server-close"] else []
      | none => []
    | _ => []
  -- stop on the application's close(): no dial after the callback that called it
  let v5 := anns.flatMap fun x =>
    if x.cb ≠ .onClose && actOf c.plan x.cb x.k = .close &&
       ds.any (fun (p, _, _) => decide (p > x.pos)) then ["stops:dial-after-app-close"] else []
  -- the same for a close() from another thread: no connection attempt at a LATER tick than the call (an attempt at the very
  -- tick of the call may have been under way already)
  let v5b := match tr.findIdx? (fun te => te.2 = .closeCall) with
    | some q =>
      let tq := match tr[q]? with | some te => te.1 | none => 0
      if ds.any (fun (p, t, _) => decide (p > q) && decide (t > tq)) then ["stops:dial-after-app-close"] else []
    | none => []
  -- with reconnection on, a run may only return because the server closed the connection or the application
  -- asked for it (close(), KeyboardInterrupt, a failing on_error handler) -- never after a mere loss
  let v6 := match lastEv tr with
    | some (.returned _) =>
      let asked := anns.any (otherCauseNoErr c.plan) || tr.any (fun te => te.2 = .closeCall)
      let tEnd := match tr.getLast? with | some te => te.1 | none => 0
      let byFrame := match ds.getLast? with
        | some (_, t0, _) => match world.getD (ds.length - 1) .refused with
          | .established script => (match closeFrameOf t0 script with | some (tc, _) => decide (tc ≤ tEnd) | none => false)
          | _ => false
        | none => false
      if asked || byFrame then [] else ["retry:gave-up-after-loss"]
    | _ => []
  v1 ++ v2 ++ v3 ++ v4 ++ v5 ++ v5b ++ v6

/-! ### all runs of a scenario -/

def zipRuns : List Trace → List (List Dial) → Nat → List (Trace × List Dial × Nat)
  | [], _, _ => []
  | t :: ts, ws, off => (t, ws.headD [], off) :: zipRuns ts ws.tail (off + t.length)

/-- all violated clauses, tagged with the property -/
def checkAll (c : Cfg) (exact : Bool) (worlds : List (List Dial)) (tr : Trace) : List String :=
  let anns := annotate tr 0 (fun _ => 0)
  (zipRuns (splitRuns tr []) worlds 0).flatMap fun (rt, w, off) =>
    let a := (anns.filter fun x => off ≤ x.pos && x.pos < off + rt.length).map fun x => { x with pos := x.pos - off }
    (c13Run c exact rt a w).map ("C13:" ++ ·) ++
    (c14Run c rt a w).map ("C14:" ++ ·) ++
    (if c.reconnect ≠ 0 then (c15Run c rt a w).map ("C15:" ++ ·) else
      (if resourcesBounded rt 0 0 then [] else ["C15:resources:more-than-one"]))

end WS.Spec.AppTrace
