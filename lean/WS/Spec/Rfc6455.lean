/-
  WS.Spec.Rfc6455 — an RFC 6455 §5.2 frame decoder and the legality rules of §5.4/§5.5/§7.4,
  written from the RFC (arithmetic on byte values, no reference to the code's shifts).
  Used as the independent decoder of C01 (client frames) and C02 (server frames), and as
  the oracle applied to the real implementation's bytes.
-/
import WS.Base.Bytes
import WS.Spec.Unicode
namespace WS.Spec

/-- payload[i] XOR key[i mod 4] (RFC 6455 §5.3), by position. -/
def unmaskAt (key : Bytes) (i : Nat) (b : UInt8) : UInt8 := b ^^^ key.getD (i % 4) 0

def unmaskFrom (key : Bytes) : Nat → Bytes → Bytes
  | _, [] => []
  | i, b :: rest => unmaskAt key i b :: unmaskFrom key (i + 1) rest

def unmask (key : Bytes) (p : Bytes) : Bytes := unmaskFrom key 0 p

structure WireFrame where
  fin : Nat
  rsv1 : Nat
  rsv2 : Nat
  rsv3 : Nat
  opcode : Nat
  masked : Bool
  key : Bytes          -- 4 bytes when masked, else []
  lenForm : Nat        -- 7, 16 or 64
  payload : Bytes      -- unmasked application data
  deriving Repr, DecidableEq

inductive Decode where
  | frame (f : WireFrame) (rest : Bytes)
  | needMore
  deriving Repr, DecidableEq

/-- §5.2, last stage: masking key (4 bytes iff MASK) and `len` bytes of payload data. -/
def decodePayload (b0 : UInt8) (masked : Bool) (form len : Nat) (rest1 : Bytes) : Decode :=
  let keyN := if masked then 4 else 0
  if rest1.length < keyN + len then .needMore else
  let key := rest1.take keyN
  let body := (rest1.drop keyN).take len
  .frame { fin := b0.toNat / 128, rsv1 := b0.toNat / 64 % 2, rsv2 := b0.toNat / 32 % 2,
           rsv3 := b0.toNat / 16 % 2, opcode := b0.toNat % 16, masked := masked, key := key,
           lenForm := form, payload := if masked then unmask key body else body }
         ((rest1.drop keyN).drop len)

/-- §5.2, "Payload length": 0–125 literal, 126 → next 2 bytes, 127 → next 8 bytes (network order). -/
def decodeLen (b0 : UInt8) (masked : Bool) (len7 : Nat) (rest : Bytes) : Decode :=
  if len7 = 126 then
    if rest.length < 2 then .needMore else decodePayload b0 masked 16 (unbe (rest.take 2)) (rest.drop 2)
  else if len7 = 127 then
    if rest.length < 8 then .needMore else decodePayload b0 masked 64 (unbe (rest.take 8)) (rest.drop 8)
  else decodePayload b0 masked 7 len7 rest

/-- §5.2 base framing protocol. -/
def decode : Bytes → Decode
  | b0 :: b1 :: rest => decodeLen b0 (b1.toNat / 128 == 1) (b1.toNat % 128) rest
  | _ => .needMore

/-- the shortest legal length encoding (§5.2 "Payload length": minimal number of bytes MUST be used). -/
def minimalForm (n : Nat) : Nat := if n ≤ 125 then 7 else if n ≤ 65535 then 16 else 64

/-- header size (without key) for a payload of `n` bytes in its minimal form. -/
def hdrLen (n : Nat) : Nat := if n ≤ 125 then 2 else if n ≤ 65535 then 4 else 10

/-- RFC-encoding of a server (or client) frame, for any permitted length form. -/
def encode (fin rsv1 rsv2 rsv3 opcode : Nat) (key : Option Bytes) (form : Nat) (payload : Bytes) : Bytes :=
  let b0 := UInt8.ofNat (fin * 128 + rsv1 * 64 + rsv2 * 32 + rsv3 * 16 + opcode)
  let m := if key.isSome then 128 else 0
  let n := payload.length
  let hdr : Bytes :=
    if form = 7 then [b0, UInt8.ofNat (m + n)]
    else if form = 16 then b0 :: UInt8.ofNat (m + 126) :: beN 2 n
    else b0 :: UInt8.ofNat (m + 127) :: beN 8 n
  match key with
  | some k => hdr ++ k ++ unmask k payload
  | none => hdr ++ payload

/-! ### legality (§5.2, §5.4, §5.5, §7.4) -/

/-- status codes that may appear in a close frame on the wire: RFC 6455 §7.4.1/§7.4.2 and the
    IANA registry (1000–1003, 1007–1014 assigned and sendable; 1004/1005/1006/1015 must not be
    sent; 3000–4999 registered/private use). Written as ranges, not as the code's tuple. -/
def wireCode (c : Nat) : Bool :=
  (1000 ≤ c && c ≤ 1014 && c != 1004 && c != 1005 && c != 1006) || (3000 ≤ c && c ≤ 4999)

def isControl (op : Nat) : Bool := op == 8 || op == 9 || op == 10
def isKnownOpcode (op : Nat) : Bool := op == 0 || op == 1 || op == 2 || op == 8 || op == 9 || op == 10

/-- a close body is legal iff empty, or ≥ 2 bytes with a wire-legal code and a UTF-8 reason. -/
def closeBodyLegal (body : Bytes) : Bool :=
  body.isEmpty ||
  (body.length ≥ 2 && wireCode (unbe (body.take 2)) && wellFormed (body.drop 2))

/-- legality of one received frame given whether a fragmented message is in progress. -/
def frameLegal (inMessage : Bool) (fin rsv1 rsv2 rsv3 opcode : Nat) (payload : Bytes) : Bool :=
  rsv1 == 0 && rsv2 == 0 && rsv3 == 0 && isKnownOpcode opcode &&
  (!isControl opcode || (fin == 1 && payload.length ≤ 125)) &&
  (opcode != 8 || closeBodyLegal payload) &&
  (opcode != 0 || inMessage) &&
  (!(opcode == 1 || opcode == 2) || !inMessage)

/-- the "message in progress" flag after a legal frame. -/
def inMessageAfter (inMessage : Bool) (fin opcode : Nat) : Bool :=
  if isControl opcode then inMessage else fin == 0

end WS.Spec
