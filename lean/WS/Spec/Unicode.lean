/-
  WS.Spec.Unicode — well-formed UTF-8 byte sequences, literally Table 3-7 of the Unicode
  Standard (ch. 3, "Well-Formed UTF-8 Byte Sequences").  Written from the standard, not
  from the code.  A second, more abstract characterisation (encodings of scalar values)
  is `encodeScalar` / `IsScalar`, related to `wellFormed` in WS.Props.C06.
-/
import WS.Base.Bytes
namespace WS.Spec

/-- is `b` in the closed range `[lo, hi]` -/
@[inline] def inR (b : UInt8) (lo hi : Nat) : Bool := lo ≤ b.toNat && b.toNat ≤ hi

/-- one row of Table 3-7: given the first byte, the number of trailing bytes and the
    permitted range of the *second* byte (third and fourth are always 80..BF). -/
def row (b0 : UInt8) : Option (Nat × Nat × Nat) :=
  if inR b0 0x00 0x7F then some (0, 0, 0)
  else if inR b0 0xC2 0xDF then some (1, 0x80, 0xBF)
  else if inR b0 0xE0 0xE0 then some (2, 0xA0, 0xBF)
  else if inR b0 0xE1 0xEC then some (2, 0x80, 0xBF)
  else if inR b0 0xED 0xED then some (2, 0x80, 0x9F)
  else if inR b0 0xEE 0xEF then some (2, 0x80, 0xBF)
  else if inR b0 0xF0 0xF0 then some (3, 0x90, 0xBF)
  else if inR b0 0xF1 0xF3 then some (3, 0x80, 0xBF)
  else if inR b0 0xF4 0xF4 then some (3, 0x80, 0x8F)
  else none

/-- the trailing bytes of one sequence: exactly `n` of them, the first in `[lo,hi]`,
    the others in `80..BF`. -/
def tailOk (n lo hi : Nat) (t : Bytes) : Bool :=
  t.length == n &&
  match t with
  | [] => true
  | b1 :: more => inR b1 lo hi && more.all (fun b => inR b 0x80 0xBF)

/-- Table 3-7: a byte string is well-formed UTF-8 iff it is a concatenation of sequences
    each matching one row of the table. -/
def wellFormed : Bytes → Bool
  | [] => true
  | b0 :: rest =>
    match row b0 with
    | none => false
    | some (n, lo, hi) => tailOk n lo hi (rest.take n) && wellFormed (rest.drop n)
termination_by bs => bs.length
decreasing_by simp [List.length_drop]; omega

/-! ### scalar values and their encodings (Unicode D92, Table 3-6) -/

def IsScalar (c : Nat) : Prop := c ≤ 0x10FFFF ∧ ¬ (0xD800 ≤ c ∧ c ≤ 0xDFFF)

instance : DecidablePred IsScalar := fun c => by unfold IsScalar; exact inferInstance

/-- Table 3-6 bit distribution. -/
def encodeScalar (c : Nat) : Bytes :=
  if c < 0x80 then [UInt8.ofNat c]
  else if c < 0x800 then [UInt8.ofNat (0xC0 + c / 64), UInt8.ofNat (0x80 + c % 64)]
  else if c < 0x10000 then
    [UInt8.ofNat (0xE0 + c / 4096), UInt8.ofNat (0x80 + c / 64 % 64), UInt8.ofNat (0x80 + c % 64)]
  else
    [UInt8.ofNat (0xF0 + c / 262144), UInt8.ofNat (0x80 + c / 4096 % 64),
     UInt8.ofNat (0x80 + c / 64 % 64), UInt8.ofNat (0x80 + c % 64)]

end WS.Spec
