/-
  WS.Spec.NoProxy — the reading of property C19 (exemption, proxy decision, CONNECT request).
  Written from the property text, not from the code.

  "a target is exempt exactly when the no_proxy option (else the environment) lists "*", the
   host itself, a CIDR block containing its IP address, or a leading-dot domain to which it
   belongs (the domain itself or a subdomain, on a label boundary)"

  Readings fixed here (each is the reading under which a reasonable implementation can hold):
  * an IP address is a canonical dotted quad (`Py.inetAton`); the CIDR clause applies to such
    hosts, the domain clause to all other hosts (an address literal belongs to no domain);
  * a CIDR block is `a/p` with `a` a dotted quad, `p` decimal, `p ≤ 32`, and **no host bits
    set** in `a` (what `ipaddress.ip_network` calls strict); it contains `h` when `h` and
    `a` agree on their first `p` bits.  `a/32` is a block (one address);
  * a leading-dot entry names the domain obtained by removing its leading dots; "belongs …
    on a label boundary" is literal: the labels of the domain are a suffix of the labels of
    the host (labels = the pieces between dots).  Comparison is exact (case-sensitive): the
    property asks for case-insensitive matching of cookies (C20), not here;
  * the list is the option when it is non-empty, else the value of `no_proxy` if that
    variable is defined, else of `NO_PROXY`, blanks removed, split on ",".
-/
import WS.Base.Py
namespace WS.Spec.NoProxy
open WS.Py

def labels (s : Str) : List Str := splitOn '.' s

/-- `a/p` as (network address, prefix length). -/
def cidr? (e : Str) : Option (Nat × Nat) :=
  match splitOn '/' e with
  | [a, p] =>
    match inetAton a, pyInt p with
    | some a, some p => if p ≤ 32 then some (a, p) else none
    | _, _ => none
  | _ => none

/-- the block `a/p` is well-formed (no host bits) and contains `h`: same first `p` bits. -/
def blockContains (a p h : Nat) : Bool :=
  a % 2 ^ (32 - p) == 0 && h / 2 ^ (32 - p) == a / 2 ^ (32 - p)

/-- the domain a leading-dot entry names. -/
def domainName? (e : Str) : Option Str :=
  match e with
  | '.' :: _ => some (e.dropWhile (· == '.'))
  | _ => none

/-- `host` is the domain `name` or a subdomain of it, on a label boundary. -/
def belongs (host name : Str) : Bool := (labels name).isSuffixOf (labels host)

def exempt (host : Str) (list : List Str) : Bool :=
  list.contains ['*'] || list.contains host ||
  match inetAton host with
  | some h => list.any fun e => match cidr? e with
      | some (a, p) => blockContains a p h
      | none => false
  | none => list.any fun e => match domainName? e with
      | some n => belongs host n
      | none => false

/-! ### which list, which proxy -/

abbrev Env := List (String × Str)

def envGet (env : Env) (k : String) : Option Str := env.lookup k

/-- value of the lower-case variable when defined, else of the upper-case one. -/
def envEither (env : Env) (lo up : String) : Str :=
  match envGet env lo with
  | some v => v
  | none => (envGet env up).getD []

def entries (v : Str) : List Str :=
  let v' := v.filter (· != ' ')
  if v' = [] then [] else splitOn ',' v'

def noProxyList (opt : List Str) (env : Env) : List Str :=
  if opt ≠ [] then opt else entries (envEither env "no_proxy" "NO_PROXY")

/-- the proxy the environment names for this scheme, blanks removed ("" = none). -/
def envProxy (secure : Bool) (env : Env) : Str :=
  (if secure then envEither env "https_proxy" "HTTPS_PROXY"
   else envEither env "http_proxy" "HTTP_PROXY").filter (· != ' ')

/-- "A connection goes through a proxy exactly when one is given by option or by the scheme's
    environment variable and the target is not exempt". -/
def useProxy (host : Str) (secure : Bool) (optHost : Str) (optNoProxy : List Str) (env : Env) : Bool :=
  (optHost ≠ [] || envProxy secure env ≠ []) && !exempt host (noProxyList optNoProxy env)

/-- the documented decision, case by case: exempt ⇒ direct; a proxy host option ⇒ that proxy
    (port 0 with it is a configuration error, reported as a proxy error); else the scheme's
    environment variable, when set and non-blank, names the proxy as a URL; else direct. -/
inductive Decision where
  | direct
  | viaOption (host : Str) (port : Nat) (auth : Option (Str × Str))
  | viaEnv (url : Str)
  | configError
  deriving DecidableEq, Repr

def decision (host : Str) (secure : Bool) (optHost : Str) (optPort : Nat) (optAuth : Option (Str × Str))
    (optNoProxy : List Str) (env : Env) : Decision :=
  if exempt host (noProxyList optNoProxy env) then .direct
  else if optHost ≠ [] then
    if optPort = 0 then .configError else .viaOption optHost optPort optAuth
  else if envProxy secure env ≠ [] then .viaEnv (envProxy secure env)
  else .direct

/-! ### the CONNECT request, read back

  `CONNECT h:p HTTP/1.1 CRLF Host: h:p CRLF [Proxy-Authorization: Basic b64 CRLF] CRLF` -/

structure ConnectReq where
  target : Str                    -- authority of the request line
  hostHdr : Str
  basic : Option Str              -- the base64 text after "Basic "
  deriving DecidableEq, Repr

/-- split a head at CRLF (lines never contain CR or LF). -/
def crlfLines : Str → List Str
  | [] => [[]]
  | '\r' :: '\n' :: rest => [] :: crlfLines rest
  | c :: rest => consHead c (crlfLines rest)

def stripPrefix? (p s : Str) : Option Str := if p.isPrefixOf s then some (s.drop p.length) else none

def parseConnect (req : Str) : Option ConnectReq :=
  match crlfLines req with
  | l0 :: l1 :: rest =>
    match splitOn ' ' l0, stripPrefix? "Host: ".toList l1 with
    | [m, t, v], some hh =>
      if m = "CONNECT".toList ∧ v = "HTTP/1.1".toList then
        match rest with
        | [e1, e2] => if e1 = [] ∧ e2 = [] then some ⟨t, hh, none⟩ else none
        | [l2, e1, e2] =>
          if e1 = [] ∧ e2 = [] then
            match stripPrefix? "Proxy-Authorization: Basic ".toList l2 with
            | some b => some ⟨t, hh, some b⟩
            | none => none
          else none
        | _ => none
      else none
    | _, _ => none
  | _ => none

/-- the status of a proxy reply, RFC 7230 §3.1.2 (`HTTP-version SP 3DIGIT SP reason CRLF`), the
    head being complete (ended by an empty line).  `none` = not such a head: the property then
    only asks that the client does not treat it as anything but success-or-proxy-error. -/
def replyStatus (reply : Str) : Option Nat :=
  match crlfLines reply with
  | l0 :: rest =>
    if !rest.dropLast.contains [] then none   -- no empty line ended by CRLF: head incomplete
    else if !(rest.takeWhile (· != [])).all (·.contains ':') then none   -- a field line without ":"
    else match splitOn ' ' l0 with
      | v :: code :: _ =>
        if "HTTP/".toList.isPrefixOf v && code.length == 3 && code.all isDigitC then some (digitsVal code)
        else none
      | _ => none
  | [] => none

end WS.Spec.NoProxy
