/-
  WS.Spec.Rfc3986 — the reading of property C18 (URL part and address loop).
  Written from RFC 3986 §3 / RFC 6455 §3 and the property text, not from the code.

  `classify u` sorts every string into one of three classes.

  * `target t` — `u` is a ws/wss URL in the sense of the grammar below, and `t` is what the
    property says about it: host (lower-cased; IPv6 without brackets), explicit port or
    80/443, resource = path ("/" if empty) ++ "?" ++ query when there is a (non-empty) query,
    TLS exactly for wss.
        ws-URI    = ( "ws" / "wss" ) ":" "//" [ userinfo "@" ] host [ ":" port ] path [ "?" query ] [ "#" fragment ]
        host      = "[" IP-literal "]"  /  1*( unreserved / sub-delims )
        port      = *DIGIT, value 1…65535 (empty = absent)
        path      = *( "/" / pchar )        query = *( pchar / "/" / "?" )
    `pchar` admits "%" without checking the two hex digits (nothing is decoded anywhere).
    The IP-literal recogniser is a parameter `v6ok` (literals over hex digits, ":" and "."):
    the theorems hold for every recogniser.
  * `refuse` — the classes the property names as refused with ValueError: no ":" at all,
    a scheme other than (lower-case) ws/wss, no "//" after the scheme (hence no authority and
    no host), an authority whose host is missing (empty, or only user-info and/or ":port").
  * `unconstrained` — everything else (authority present with a non-empty host part that does
    not fit the grammar: stray brackets, two colons, a non-numeric or out-of-range port, the
    explicit port 0 — the property's quantifier is 1…65535 —, percent-encoded host names,
    characters outside the grammar).  The property says nothing about these; the theorems
    only show that the code answers with a target or with ValueError, never anything else.

  Address loop (`dialSpec`): see below.
-/
import WS.Base.NetTypes
namespace WS.Spec.Url
open WS.Py
open WS.Net

inductive Verdict where
  | target (t : Target)
  | refuse
  | unconstrained
  deriving DecidableEq, Repr

/-! RFC 3986 §2 character classes -/
def unreserved (c : Char) : Bool := isAlphaC c || isDigitC c || c == '-' || c == '.' || c == '_' || c == '~'
def subDelim (c : Char) : Bool := "!$&'()*+,;=".toList.contains c
def pchar (c : Char) : Bool := unreserved c || subDelim c || c == ':' || c == '@' || c == '%'
def pathChar (c : Char) : Bool := pchar c || c == '/'
def queryChar (c : Char) : Bool := pchar c || c == '/' || c == '?'
def regNameChar (c : Char) : Bool := unreserved c || subDelim c
def userinfoChar (c : Char) : Bool := unreserved c || subDelim c || c == ':' || c == '%'
def literalChar (c : Char) : Bool := isHexC c || c == ':' || c == '.'
/-- the delimiters that end the authority (RFC 3986 §3.2) -/
def isDelim (c : Char) : Bool := c == '/' || c == '?' || c == '#'

/-- port text → value: empty = absent; otherwise decimal 1…65535. -/
inductive PortV where
  | absent | value (n : Nat) | bad
  deriving DecidableEq

def portOf (p : Str) : PortV :=
  if p = [] then .absent
  else if p.all isDigitC then
    let n := digitsVal p
    if 1 ≤ n ∧ n ≤ 65535 then .value n else .bad
  else .bad

/-- host and port of `host [ ":" port ]` (no user-info): bracket contents, or the text before
    the last ":".  `none` = does not fit the grammar. -/
def hostPort (v6ok : Str → Bool) (hp : Str) : Option (Str × PortV) :=
  match hp with
  | '[' :: r =>
    let lit := r.takeWhile (· != ']')
    match r.dropWhile (· != ']') with
    | ']' :: after =>
      if lit != [] && lit.all literalChar && v6ok lit then
        match after with
        | [] => some (lower lit, .absent)
        | ':' :: p => some (lower lit, portOf p)
        | _ => none
      else none
    | _ => none
  | _ =>
    let (name, colon, p) := rpartition ':' hp
    let name := if colon then name else hp
    if name != [] && name.all regNameChar then some (lower name, if colon then portOf p else .absent)
    else none

def isWs (s : Str) : Bool := s == "ws".toList
def isWss (s : Str) : Bool := s == "wss".toList

/-- resource = path ("/" if empty) ++ "?" ++ query when there is one. -/
def resource (path query : Str) : Str :=
  let r0 := if path.isEmpty then ['/'] else path
  if query.isEmpty then r0 else r0 ++ '?' :: query

/-- the verdict on `scheme "://" auth tail` for a ws/wss scheme (`auth` = up to the first of
    "/?#", `tail` = the rest). -/
def classifyHier (v6ok : Str → Bool) (secure : Bool) (auth tail : Str) : Verdict :=
  -- user-info ends at the last "@"; without one, `hp` is the whole authority
  let (ui, hasAt, hp) := rpartition '@' auth
  if hp.isEmpty || (hp.head? == some ':' && (hp.drop 1).all isDigitC) then .refuse   -- no host
  else if hasAt && !ui.all userinfoChar then .unconstrained
  else
    match hostPort v6ok hp with
    | none => .unconstrained
    | some (_, .bad) => .unconstrained
    | some (host, pv) =>
      let beforeFrag := tail.takeWhile (· != '#')
      let path := beforeFrag.takeWhile (· != '?')
      let query := (beforeFrag.dropWhile (· != '?')).drop 1
      let frag := (tail.dropWhile (· != '#')).drop 1
      if path.all pathChar && query.all queryChar && frag.all queryChar then
        let port := match pv with
          | .value n => n
          | _ => if secure then 443 else 80
        .target ⟨host, port, resource path query, secure⟩
      else .unconstrained

def classify (v6ok : Str → Bool) (u : Str) : Verdict :=
  if !u.contains ':' then .refuse                                 -- no scheme separator
  else
    let scheme := u.takeWhile (· != ':')
    let rest := (u.dropWhile (· != ':')).drop 1
    if !(isWs scheme || isWss scheme) then .refuse                -- another scheme
    else match rest with
      | '/' :: '/' :: body =>
        classifyHier v6ok (isWss scheme) (body.takeWhile (fun c => !isDelim c))
          (body.dropWhile (fun c => !isDelim c))
      | _ => .refuse                                              -- no "//": no authority, no host

/-! ### the address loop

  One entry per resolved address, in order, with what `connect()` on it does. -/

inductive DialResult where
  | connected (i : Nat)
  | failed (o : Outcome)
  deriving DecidableEq, Repr

/-- everything that must happen on socket `i`: created, timeout, default options, the
    user's options, then connect; closed iff the connect failed. -/
def block (timeout : Nat) (dflt user : List String) (i : Nat) (o : Outcome) : List Ev :=
  [.create i, .settimeout i timeout] ++ dflt.map (.setsockopt i) ++ user.map (.setsockopt i)
    ++ [.connect i] ++ (if o == .accept then [] else [.close i])

/-- "tried in order until one accepts, a refused or unreachable address never aborting the
    attempt while others remain": the addresses tried are the leading refused/unreachable
    ones plus the first other one (if any); the result is that one's outcome, or — all
    refused — the last error. -/
def dialSpec (timeout : Nat) (dflt user : List String) (outcomes : List Outcome) :
    DialResult × List Ev :=
  let skipped := outcomes.takeWhile Outcome.skippable
  let rest := outcomes.dropWhile Outcome.skippable
  let tried := skipped ++ rest.take 1
  let evs := (tried.zipIdx.map fun (o, i) => block timeout dflt user i o).flatten
  let res := match rest with
    | .accept :: _ => DialResult.connected skipped.length
    | o :: _ => .failed o
    | [] => match skipped.getLast? with
      | some o => .failed o
      | none => .failed (.other 0)        -- empty list: nothing to dial (ruled out by the caller)
  (res, evs)

end WS.Spec.Url
