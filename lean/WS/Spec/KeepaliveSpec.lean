/-
  WS.Spec.KeepaliveSpec — what property C16 says, as executable predicates on *observations* of a
  connection that stays up: the ticks at which pings reached the peer, the tick at which a ping/pong
  timeout was reported (if any), given the settings and what the peer sent.  Written from the property
  text; nothing of the model is used.

  Readings: "answers a ping within the timeout" = a pong arrives in [T, T + to] for the ping sent at T;
  "stops answering" = from some ping on, no pong arrives any more; "periodically" = at t₀ + k·iv for
  k ≥ 2 (the first ping is due after two intervals: one before the loop, one in it — that is the
  behaviour the statement's "periodically" is read against; the period is what matters).
-/
namespace WS.Spec.Keepalive

/-- accepted settings (ticks; `none` = no timeout): timeout positive, interval non-negative, and when
    both are in use the interval exceeds the timeout. -/
def argsOk (iv : Int) (to : Option Int) : Bool :=
  (match to with | none => true | some t => decide (t > 0)) &&
  decide (iv ≥ 0) &&
  (match to with
   | none => true
   | some t => if t ≠ 0 ∧ iv ≠ 0 then decide (iv > t) else true)

/-- ping ticks expected while the connection is up until `stop` (exclusive): 2·iv, 3·iv, … -/
def expectedPings (iv stop : Nat) : List Nat :=
  if iv = 0 then [] else
  ((List.range (stop / iv + 1)).map (· * iv)).filter fun t => decide (2 * iv ≤ t) && decide (t < stop)

/-- periodicity: the observed pings are exactly the expected ones; a ping due at the very tick the
    connection stops may or may not have been sent. -/
def periodicOk (iv stop : Nat) (pings : List Nat) : Bool :=
  pings == expectedPings iv stop || pings == expectedPings iv (stop + 1)

/-- is the ping sent at T answered within the timeout? -/
def answered (to : Nat) (pongs : List Nat) (T : Nat) : Bool :=
  pongs.any fun a => decide (T ≤ a) && decide (a ≤ T + to)

/-- the peer answers every ping (whose answer window lies inside the observation) within the timeout -/
def responsive (to : Nat) (pings pongs : List Nat) (endT : Nat) : Bool :=
  pings.all fun T => decide (T + to > endT) || answered to pongs T

/-- every pong is an answer: it arrives within the timeout after the latest ping before it -/
def onlyAnswers (to : Nat) (pings pongs : List Nat) : Bool :=
  pongs.all fun a =>
    match (pings.filter fun T => decide (T ≤ a)).getLast? with
    | some T => decide (a ≤ T + to)
    | none => true

/-- the first ping from which on the peer never answers again -/
def firstSilent (pings pongs : List Nat) : Option Nat :=
  pings.find? fun T => pongs.all fun a => decide (a < T)

/-- verdicts (clause:cause) for one observation; `endT` = tick at which the observation ends
    (the report, or the horizon) -/
def check (iv to : Nat) (pings pongs : List Nat) (report : Option Nat) (horizon : Nat) : List String :=
  let endT := match report with | some r => r | none => horizon
  (if periodicOk iv endT pings then [] else ["periodic:ping-times"]) ++
  (match report with
   | some _ =>
     if responsive to pings pongs endT then
       [if onlyAnswers to pings pongs then "no-false-positive:responsive-peer-reported"
        else "no-false-positive:late-unsolicited-pong"]
     else []
   | none => []) ++
  (match firstSilent pings pongs with
   | some T =>
     match report with
     | some r => if r ≤ T + 2 * to then [] else ["detect:report-later-than-two-timeouts"]
     | none => if T + 2 * to < horizon then ["detect:never-reported"] else []
   | none => [])

end WS.Spec.Keepalive
