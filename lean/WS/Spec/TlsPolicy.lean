/-
  WS.Spec.TlsPolicy — C11, written from the documentation (docs/source/faq.rst, the docstrings
  of `sslopt`) and the property text, not from `_http.py`.

    default                 → chain verified (CERT_REQUIRED), host name checked, system trust
                              store, the name checked / sent as SNI is the URL's host
    cert_reqs = CERT_NONE   → no verification at all (OpenSSL cannot check a name on an
                              unverified chain; asking for both is refused)
    check_hostname = False  → the chain is still verified
    ca_certs / ca_cert_path / WEBSOCKET_CLIENT_CA_BUNDLE
                            → only the trust store changes; an explicit option wins over the
                              environment variable
    server_hostname         → only the name changes
    context                 → the caller's context is used as it is
  ws:// targets are never wrapped.
-/
import WS.Base.H2Types
namespace WS.Spec.Tls
open WS.PyH2 WS.H2

/-- a non-empty string option (an empty string counts as "not given"). -/
def given (o : Option Str) : Option Str :=
  match o with
  | some s => if s.isEmpty then none else some s
  | none => none

/-- CA file: the explicit option, else the environment bundle when it names a file. -/
def caFile (o : SslOpt) (env : TlsEnv) : Option Str :=
  match o.caCerts with
  | some f => some f
  | none => if env.isFile then given env.bundle else none

/-- CA directory: the explicit option, else the environment bundle when it names a directory. -/
def caPath (o : SslOpt) (env : TlsEnv) : Option Str :=
  match o.caCertPath with
  | some p => some p
  | none => if env.isDir then given env.bundle else none

/-- trust store: explicit options first, the environment bundle for whichever of file / directory
    was not given explicitly; the system store when nothing is named. -/
def caSource (o : SslOpt) (env : TlsEnv) : CaSource :=
  if (given (caFile o env)).isSome ∨ (given (caPath o env)).isSome then
    .locations (caFile o env) (caPath o env)
  else .default

/-- the name that is checked and sent as SNI. -/
def peerName (o : SslOpt) (urlHost : Str) : Str :=
  match given o.serverHostname with
  | some h => h
  | none => urlHost

/-- the policy of a wss:// connection; `none` = the combination is refused (an error is raised,
    nothing is sent). -/
def tlsPolicy (o : SslOpt) (env : TlsEnv) (urlHost : Str) : Option Policy :=
  match o.context with
  | some c => some (.user c (peerName o urlHost))
  | none =>
    let verify := o.certReqs.getD .required
    match verify with
    | .none =>
      if o.checkHostname = some true then none
      else some (.fresh .none false .unset (peerName o urlHost))
    | v => some (.fresh v (o.checkHostname.getD true) (caSource o env) (peerName o urlHost))

/-! components of a policy (for "each option affects only its own check") -/
def Policy.verify : Policy → Option CertReqs
  | .fresh v _ _ _ => some v
  | .user _ _ => none
def Policy.check : Policy → Option Bool
  | .fresh _ c _ _ => some c
  | .user _ _ => none
def Policy.ca : Policy → Option CaSource
  | .fresh _ _ ca _ => some ca
  | .user _ _ => none
def Policy.sni : Policy → Str
  | .fresh _ _ _ s => s
  | .user _ s => s
def Policy.userCtx : Policy → Option Nat
  | .fresh _ _ _ _ => none
  | .user c _ => some c

/-- wrap exactly the secure scheme. -/
def wraps (secure : Bool) : Bool := secure

/-! ### ordering: TLS before WebSocket data

  On the timeline of one `connect`: a write of handshake bytes on transport `j` is allowed only if,
  for every dial of `j` for a secure URL earlier on the timeline, a successful wrap of `j` with the
  documented policy for that URL's host has happened earlier too. -/

def okAtB (pol : Str → Option Policy) (pre : List Ev) : Ev → Bool
  | .io j (.write _) =>
    pre.all (fun e => match e with
      | .dial j' u =>
        !(j' == j && u.secure) ||
          pre.any (fun w => match w with
            | .wrap j'' p true => j'' == j && pol u.host == some p
            | _ => false)
      | _ => true)
  | _ => true

def orderedB (pol : Str → Option Policy) : List Ev → List Ev → Bool
  | _, [] => true
  | pre, e :: rest => okAtB pol pre e && orderedB pol (pre ++ [e]) rest

/-- no transport dialled for a plain `ws://` URL is ever wrapped. -/
def wsNeverWrapped (tr : List Ev) : Bool :=
  tr.all (fun w => match w with
    | .wrap j _ _ => tr.all (fun e => match e with
        | .dial j' u => !(j' == j) || u.secure
        | _ => true)
    | _ => true)

end WS.Spec.Tls
