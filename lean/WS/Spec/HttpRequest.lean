/-
  WS.Spec.HttpRequest — C10: what a well-formed opening request is (RFC 7230 §3, RFC 6455 §4.1)
  and which request the URL and the options call for (from the property text).
  Independent of `_handshake.py`.

  `parseRequest` accepts exactly
      "GET" SP request-target SP "HTTP/1.1" CRLF  *( field-name ":" OWS field-value OWS CRLF )  CRLF
  with nothing after the empty line; field values are reported without the surrounding
  optional white space (RFC 7230 §3.2.4), so two requests that differ only there are the same.
-/
import WS.Base.H2Types
import WS.Base.Base64
namespace WS.Spec.Http
open WS WS.PyH2 WS.H2

structure Req where
  target : Str
  headers : List (Str × Str)         -- in order of appearance
  deriving Repr, DecidableEq, Inhabited

/-! ### the grammar -/

def isOWS (c : Char) : Bool := c = ' ' || c = '\t'

def trimOWS (s : Str) : Str := ((s.dropWhile isOWS).reverse.dropWhile isOWS).reverse

/-- RFC 7230 `tchar` -/
def isTchar (c : Char) : Bool :=
  let n := c.toNat
  (48 ≤ n && n ≤ 57) || (65 ≤ n && n ≤ 90) || (97 ≤ n && n ≤ 122) ||
  "!#$%&'*+-.^_`|~".toList.contains c

def isToken (s : Str) : Bool := !s.isEmpty && s.all isTchar

/-- no CR, no LF -/
def noCRLF (s : Str) : Bool := s.all (fun c => c != '\r' && c != '\n')

/-- text before / after the first occurrence of `sep`. -/
def breakAt (sep : Char) : Str → Option (Str × Str)
  | [] => none
  | c :: cs =>
    if c = sep then some ([], cs)
    else match breakAt sep cs with
      | some (a, b) => some (c :: a, b)
      | none => none

/-- split on CRLF. -/
def splitCRLF : Str → List Str
  | [] => [[]]
  | [c] => [[c]]
  | c :: d :: rest =>
    if c = '\r' ∧ d = '\n' then [] :: splitCRLF rest
    else match splitCRLF (d :: rest) with
      | f :: fs => (c :: f) :: fs
      | [] => [[c]]

def parseHeaderLine (l : Str) : Option (Str × Str) :=
  match breakAt ':' l with
  | some (name, v) => if isToken name ∧ noCRLF v then some (name, trimOWS v) else none
  | none => none

def parseHeaderLines : List Str → Option (List (Str × Str))
  | [] => some []
  | l :: ls =>
    match parseHeaderLine l, parseHeaderLines ls with
    | some h, some hs => some (h :: hs)
    | _, _ => none

/-- a request target: non-empty, no space, no control character. -/
def isTarget (t : Str) : Bool := !t.isEmpty && t.all (fun c => 32 < c.toNat && c.toNat != 127)

def parseRequestLine (l : Str) : Option Str :=
  if "GET ".toList.isPrefixOf l then
    match breakAt ' ' (l.drop 4) with
    | some (t, v) => if isTarget t ∧ v = "HTTP/1.1".toList then some t else none
    | none => none
  else none

def parseRequest (s : Str) : Option Req :=
  match splitCRLF s with
  | rl :: rest =>
    match rest.reverse with
    | [] :: [] :: hdrsRev =>
      match parseRequestLine rl, parseHeaderLines hdrsRev.reverse with
      | some t, some hs => some ⟨t, hs⟩
      | _, _ => none
    | _ => none
  | [] => none

/-! ### the request the URL and the options call for -/

/-- IPv6 literals are bracketed. -/
def bracketed (host : Str) : Str := if host.contains ':' then '[' :: host ++ [']'] else host

/-- "Host names the URL's host (bracketed if IPv6) with the port unless it is 80 or 443". -/
def hostPort (u : UrlParts) : Str :=
  if u.port = 80 ∨ u.port = 443 then bracketed u.host
  else bracketed u.host ++ ':' :: natRepr u.port

def nonEmpty (o : Option Str) : Option Str :=
  match o with
  | some s => if s.isEmpty then none else some s
  | none => none

/-- custom headers: list entries are ready-made `name: value` lines, dict entries with a `None`
    value are skipped. -/
def customHeaders : HeaderOpt → List (Str × Str)
  | .absent => []
  | .list l => l.map (fun line => (breakAt ':' line).getD (line, []))
  | .dict d => d.filterMap (fun kv => match kv.2 with | some v => some (kv.1, v) | none => none)

/-- `rand` = the 16 fresh random bytes of this request; `jar` = the cookie the jar holds for the
    host ("" = none).  Names and values as the options give them. -/
def expectedRaw (u : UrlParts) (o : Opts) (rand : Bytes) (jar : Str) : List (Str × Str) :=
  let cookies := [jar, o.cookie.getD []].filter (fun s => !s.isEmpty)
  [("Upgrade".toList, "websocket".toList),
   ("Host".toList, (nonEmpty o.host).getD (hostPort u))]
  ++ (if o.suppressOrigin then []
      else [("Origin".toList, match o.origin with
              | some og => og
              | none => (if u.secure then "https://" else "http://").toList ++ hostPort u)])
  ++ [("Sec-WebSocket-Key".toList, Base64.encode rand),
      ("Sec-WebSocket-Version".toList, "13".toList),
      ("Connection".toList, (nonEmpty o.connection).getD "Upgrade".toList)]
  ++ (if o.subprotocols.isEmpty then []
      else [("Sec-WebSocket-Protocol".toList, join [','] o.subprotocols)])
  ++ customHeaders o.header
  ++ (if cookies.isEmpty then [] else [("Cookie".toList, join "; ".toList cookies)])

/-- field values are compared without the surrounding optional white space -/
def norm (nv : Str × Str) : Str × Str := (nv.1, trimOWS nv.2)

def expected (u : UrlParts) (o : Opts) (rand : Bytes) (jar : Str) : Req :=
  { target := u.resource, headers := (expectedRaw u o rand jar).map norm }

/-- C10 key clause: the key is the base64 of `n` bytes. -/
def keyOk (key : Str) (rand : Bytes) (n : Nat) : Bool :=
  rand.length = n && Base64.decode key = some rand

end WS.Spec.Http
