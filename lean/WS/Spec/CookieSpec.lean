/-
  WS.Spec.CookieSpec — the reading of property C20 (cookies replayed only inside their domain).
  Written from the property text (and RFC 6265 §5.2.3 for the leading dot), not from the code.

  "Cookies received in a handshake response are kept only when the response names a Domain for
   them, and are afterwards sent only in handshakes to that domain or its subdomains (matched
   case-insensitively on a label boundary), never to any other host.  For every history of
   responses and targets the Cookie header sent is exactly the name-sorted cookies whose domain
   covers the target, latest value winning, followed by the cookie supplied by the caller."

  * a response is its cookies `(name, value)` in order and the one Domain it names (or none —
    an empty Domain attribute names nothing);
  * the store keeps `(domain key, name) ↦ value`, the key being the domain with one leading dot
    (added when absent) in lower case; a later value for the same (key, name) replaces the
    earlier one ("latest value winning"); responses without a Domain leave the store unchanged;
  * `covers key host`: the labels of the domain (the key without its dot) are a suffix of the
    labels of the lower-cased host — "that domain or its subdomains, on a label boundary";
  * "name-sorted": names in non-decreasing code-point order.  Cookies of the same name (held for
    two covering domains) may come in either order, so the Spec is a *relation*: an output is
    admissible when it is a permutation of the covering entries that is name-sorted.
-/
import WS.Base.Py
namespace WS.Spec.Cookie
open WS.Py

structure Response where
  cookies : List (Str × Str)
  domain : Option Str
  deriving Repr

/-- store: (domain key, cookie name) ↦ value; at most one entry per key. -/
abbrev Store := List ((Str × Str) × Str)

/-- one leading dot, lower case. -/
def key (d : Str) : Str :=
  lower (match d with
    | '.' :: _ => d
    | _ => '.' :: d)

/-- latest value wins. -/
def put (s : Store) (k : Str × Str) (v : Str) : Store := s.filter (fun e => e.1 != k) ++ [(k, v)]

def record (s : Store) (r : Response) : Store :=
  match r.domain with
  | none => s
  | some d => if d.isEmpty then s else r.cookies.foldl (fun s nv => put s (key d, nv.1) nv.2) s

def storeOf (hist : List Response) : Store := hist.foldl record []

def labels (s : Str) : List Str := splitOn '.' s

/-- the domain (key without its dot) or one of its subdomains, case-insensitively, on a label
    boundary. -/
def covers (k host : Str) : Bool :=
  match k with
  | '.' :: name => (labels name).isSuffixOf (labels (lower host))
  | _ => false

/-- the cookies whose domain covers the target. -/
def covering (s : Store) (host : Str) : List (Str × Str) :=
  (s.filter fun e => covers e.1.1 host).map fun e => (e.1.2, e.2)

/-- code-point order on strings (Python's `<=` on `str`). -/
def strLe : Str → Str → Bool
  | [], _ => true
  | _ :: _, [] => false
  | a :: as, b :: bs => a.toNat < b.toNat || (a.toNat == b.toNat && strLe as bs)

def NameSorted (l : List (Str × Str)) : Prop := l.Pairwise fun a b => strLe a.1 b.1 = true

/-- the pairs of an admissible Cookie header for `host` after the history `hist`. -/
def Admissible (hist : List Response) (host : Str) (out : List (Str × Str)) : Prop :=
  out.Perm (covering (storeOf hist) host) ∧ NameSorted out

/-- executable form, for the oracle. -/
def nameSortedB : List (Str × Str) → Bool
  | [] => true
  | [_] => true
  | a :: b :: r => strLe a.1 b.1 && nameSortedB (b :: r)

def admissibleB (hist : List Response) (host : Str) (out : List (Str × Str)) : Bool :=
  out.isPerm (covering (storeOf hist) host) && nameSortedB out

/-- `n=v` joined by "; ", then the caller's cookie. -/
def render (pairs : List (Str × Str)) : Str :=
  joinStr "; ".toList (pairs.map fun nv => nv.1 ++ '=' :: nv.2)

def header (pairs : List (Str × Str)) (client : Str) : Str :=
  joinStr "; ".toList ([render pairs, client].filter (· != []))

end WS.Spec.Cookie
