/-
  WS.Model.OpenSocket — mirrors websocket/_http.py `_open_socket` (the for/while/else
  structure) and websocket/_app.py `create_dispatcher`.

  World: one `Outcome` per resolved address = what `sock.connect(address)` does there
  (accept / ECONNREFUSED / ENETUNREACH / any other OSError).  Observation: the calls made on
  the sockets (`Net.Ev`), socket `i` being the one created for the `i`-th address.
  `DEFAULT_SOCKET_OPTION` is the generated `Gen.defaultSockOpts`.
  Not modelled: exceptions out of `socket()`, `settimeout`, `setsockopt` themselves.
-/
import WS.Base.Bytes
import WS.Gen.Tables
import WS.Base.NetTypes
namespace WS.Model.OpenSocket
open WS
open WS.Net (Outcome Ev)

inductive Res where
  | ok (i : Nat)                 -- `return sock` (socket number i, connected)
  | raised (o : Outcome)         -- the OSError of that connect attempt propagates
  | internal (k : String)        -- a Python-level failure
  deriving DecidableEq, Repr

/-- lines 198–204: create, settimeout, default options, user options. -/
def setup (timeout : Nat) (sockopt : List String) (i : Nat) : List Ev :=
  [.create i, .settimeout i timeout] ++ Gen.defaultSockOpts.map (.setsockopt i)
    ++ sockopt.map (.setsockopt i)

/-- the `for addrinfo in addrinfo_list:` loop from address number `i` on, `err` being the
    variable of that name (None / the last refused-or-unreachable error).

    Body, per address: `err = None; while not err:` runs its body once — either `connect`
    succeeds (`else: break` leaves the while, the trailing `break` leaves the for, `return
    sock`), or it raises: `sock.close()`, then an errno outside (ECONNREFUSED, ENETUNREACH)
    is re-raised, otherwise `err = error; continue` ends the while (an exception object is
    truthy) through its `else: continue` to the next address.  `for … else: if err: raise
    err`, and with nothing raised `return sock` — unbound when the list was empty. -/
def openFrom (timeout : Nat) (sockopt : List String) : Nat → List Outcome → Option Outcome → Res × List Ev
  | _, [], some e => (.raised e, [])
  | _, [], none => (.internal "UnboundLocalError", [])
  | i, o :: os, _ =>
    let pre := setup timeout sockopt i ++ [.connect i]
    match o with
    | .accept => (.ok i, pre)
    | o =>
      if o.skippable then
        let (r, ev) := openFrom timeout sockopt (i + 1) os (some o)
        (r, pre ++ [.close i] ++ ev)
      else (.raised o, pre ++ [.close i])

/-- `_open_socket(addrinfo_list, sockopt, timeout)` -/
def openSocket (timeout : Nat) (sockopt : List String) (outcomes : List Outcome) : Res × List Ev :=
  openFrom timeout sockopt 0 outcomes none

/-! ### `WebSocketApp.create_dispatcher` -/

inductive DispatcherKind where
  | wrapped | ssl (timeout : Nat) | plain (timeout : Nat)
  deriving DecidableEq, Repr

/-- `ping_timeout or 10`: None and 0 are falsy. -/
def createDispatcher (pingTimeout : Option Nat) (custom : Bool) (isSsl : Bool) : DispatcherKind :=
  if custom then .wrapped
  else
    let timeout := match pingTimeout with
      | some t => if t == 0 then Gen.dispatcherDefaultTimeout else t
      | none => Gen.dispatcherDefaultTimeout
    if isSsl then .ssl timeout else .plain timeout

end WS.Model.OpenSocket
