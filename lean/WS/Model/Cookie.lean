/-
  WS.Model.Cookie — mirrors websocket/_cookiejar.py `SimpleCookieJar.add/set/get`, the Cookie
  header assembly of websocket/_handshake.py `_get_handshake_headers` and the Set-Cookie
  merging of `_http.read_headers`, after the repairs `fix: cookie jar looks the domain up in
  lower case` and `fix: cookie jar sorts by cookie name`.

  Trusted base of this file: `http.cookies.SimpleCookie`'s *parser* is not modelled.  The
  model starts from the parsed object: an ordered dict name → (value, domain attribute), names
  distinct (the harness renders responses canonically, `n=v; Domain=d`, and the real parser
  consumes them).  A `dict` is an association list with in-place replacement (`dictSet`);
  `sorted` on tuples of `str` is code-point lexicographic (`pairLe`), realised by `mergeSort`.
-/
import WS.Base.Py
import WS.Gen.Tables
namespace WS.Model.Cookie
open WS.Py

/-! ### Python dict as an association list -/

def dictGet {β : Type} (d : List (Str × β)) (k : Str) : Option β := d.lookup k

/-- `d[k] = v`: replace in place, else append. -/
def dictSet {β : Type} : List (Str × β) → Str → β → List (Str × β)
  | [], k, v => [(k, v)]
  | (k', v') :: r, k, v => if k' = k then (k, v) :: r else (k', v') :: dictSet r k v

structure Morsel where
  name : Str
  value : Str
  domain : Str          -- "" = no Domain attribute
  deriving Repr, DecidableEq

/-- a `SimpleCookie` seen as name → value -/
abbrev Cookie := List (Str × Str)
/-- `SimpleCookieJar.jar` : domain → SimpleCookie -/
abbrev Jar := List (Str × Cookie)

/-- the name → value view of a parsed response. -/
def cookieOf (ms : List Morsel) : Cookie := ms.foldl (fun c m => dictSet c m.name m.value) []

/-- `cookie.update(other)` -/
def update (c other : Cookie) : Cookie := other.foldl (fun c nv => dictSet c nv.1 nv.2) c

def dotted (domain : Str) : Str := if ['.'].isPrefixOf domain then domain else '.' :: domain

/-- `self.jar.get(domain) if self.jar.get(domain) else http.cookies.SimpleCookie()`
    (an empty SimpleCookie is falsy). -/
def getOrNew (jar : Jar) (domain : Str) : Cookie :=
  match dictGet jar domain with
  | some c => if c.isEmpty then [] else c
  | none => []

/-- one turn of `for v in simple_cookie.values():` in `add`. -/
def addStep (all : Cookie) (jar : Jar) (m : Morsel) : Jar :=
  if m.domain.isEmpty then jar                       -- `if domain := v.get("domain")`
  else
    let domain := lower (dotted m.domain)
    -- repaired: looked up under the lower-cased key; before: under the key as written
    let lookupKey := if Gen.cookieLookupLowered then domain else dotted m.domain
    dictSet jar domain (update (getOrNew jar lookupKey) all)

/-- `SimpleCookieJar.add(set_cookie)` on the parsed `set_cookie`. -/
def add (jar : Jar) (ms : List Morsel) : Jar := ms.foldl (addStep (cookieOf ms)) jar

/-- `SimpleCookieJar.set` -/
def set (jar : Jar) (ms : List Morsel) : Jar :=
  ms.foldl (fun jar m =>
    if m.domain.isEmpty then jar else dictSet jar (lower (dotted m.domain)) (cookieOf ms)) jar

/-- code-point order on `str`. -/
def strLe : Str → Str → Bool
  | [], _ => true
  | _ :: _, [] => false
  | a :: as, b :: bs => a.toNat < b.toNat || (a.toNat == b.toNat && strLe as bs)

/-- `<=` on tuples `(k, value)`. -/
def pairLe (a b : Str × Str) : Bool :=
  if a.1 = b.1 then strLe a.2 b.2 else strLe a.1 b.1

/-- the cookies `get` collects, before sorting. -/
def collected (jar : Jar) (host : Str) : List (Str × Str) :=
  let host := lower host
  let cookies := (jar.filter fun dc => dc.1.isSuffixOf host || host == dc.1.drop 1).map (·.2)
  (cookies.filter (fun c => !c.isEmpty)).flatten             -- filter(None, cookies)

/-- the sorted `(k, v.value)` pairs of `get`. -/
def getPairs (jar : Jar) (host : Str) : List (Str × Str) :=
  if host.isEmpty then [] else (collected jar host).mergeSort pairLe

def renderPairs (pairs : List (Str × Str)) : Str :=
  joinStr "; ".toList (pairs.map fun nv => nv.1 ++ '=' :: nv.2)

/-- `SimpleCookieJar.get(host)`: repaired — sorts the `(k, value)` pairs; before — sorted the
    rendered `k=value` strings (generated shape fact). -/
def get (jar : Jar) (host : Str) : Str :=
  if Gen.cookieSortsPairs then renderPairs (getPairs jar host)
  else if host.isEmpty then []
  else joinStr "; ".toList (((collected jar host).map fun nv => nv.1 ++ '=' :: nv.2).mergeSort strLe)

/-- `"; ".join(filter(None, [server_cookie, client_cookie]))`; "" = no Cookie header. -/
def cookieHeader (jar : Jar) (host : Str) (client : Str) : Str :=
  joinStr "; ".toList ([get jar host, client].filter (fun s => !s.isEmpty))

/-- the value `read_headers` leaves under "set-cookie" after these Set-Cookie values
    (already stripped), `none` = no such line. -/
def mergeSetCookie (values : List Str) : Option Str :=
  values.foldl (fun acc v =>
    match acc with
    | some old => if old.isEmpty then some v else some (old ++ "; ".toList ++ v)
    | none => some v) none

/-! ### histories (what the correspondence runs and the theorems quantify over)

  A response is rendered canonically: every cookie carries the response's Domain attribute
  (`n=v; Domain=d`), or none. -/

def morselsOf (cookies : List (Str × Str)) (domain : Option Str) : List Morsel :=
  cookies.map fun nv => ⟨nv.1, nv.2, domain.getD []⟩

/-- the process-wide jar after the handshake responses of a history. -/
def jarOf (hist : List (List (Str × Str) × Option Str)) : Jar :=
  hist.foldl (fun jar r => add jar (morselsOf r.1 r.2)) []

end WS.Model.Cookie
