/-
  WS.Model.Proxy — mirrors websocket/_http.py `proxy_info`, `connect`, `_get_addrinfo_list`,
  `_tunnel`, `read_headers` (status part) and websocket/_url.py `get_proxy_info`, for the
  "http" proxy protocol (SOCKS is outside every property), after the repairs
  `fix: http_no_proxy … without http_proxy_host` and `fix: proxy URL … user name but no password`.

  Trusted base of this file.  `urlparse` of the environment value is `Model.Url.urlsplit`
  (netloc-derived attributes do not depend on the `;params` split); `unquote` is `Proxy.unquote`
  (escapes that decode to a byte ≥ 0x80, and "%" outside the userinfo, are outside the alphabet: the driver answers `unmodelled`);
  `str.encode()` of credentials is ASCII; `base64.encodebytes(..).strip()…replace("\n","")`
  is `B64.encode`; `recv_line` reads up to "\n", end of stream before that raises CLOSED;
  `bytes.decode("utf-8")` is the identity on ASCII; `int()` on ASCII digit strings only.
  The world is: the resolver's answer (addresses with connect outcomes, or gaierror) and the
  bytes the proxy sends back.  TLS is one opaque event carrying `server_hostname`.
-/
import WS.Base.B64
import WS.Base.NetTypes
import WS.Model.NoProxy
import WS.Model.Url
import WS.Model.OpenSocket
namespace WS.Model.Proxy
open WS WS.Py WS.Net
open WS.Model.NoProxy (Env envGetD isNoProxyHost)

/-- `proxy_info` for the http protocol. -/
structure ProxyInfo where
  host : Str                          -- "" = None
  port : Nat
  auth : Option (Str × Str)           -- (user, password); password "" = None/empty
  noProxy : List Str                  -- [] = None
  deriving Repr, DecidableEq

/-- `proxy_info.__init__(**options)` (http): port and auth are read only when a proxy host
    option is given; `http_no_proxy` always. -/
def proxyInfo (optHost : Str) (optPort : Nat) (optAuth : Option (Str × Str)) (optNoProxy : List Str) :
    ProxyInfo :=
  if !optHost.isEmpty then ⟨optHost, optPort, optAuth, optNoProxy⟩
  else ⟨[], 0, none, if Gen.proxyInfoNoProxyAlways then optNoProxy else []⟩

/-- `(phost, pport, pauth)`; `host = none` ⇒ direct. -/
structure Choice where
  host : Option Str
  port : Option Nat
  auth : Option (Str × Str)
  deriving Repr, DecidableEq

def direct : Choice := ⟨none, some 0, none⟩

/-- `urllib.parse.unquote` on a string whose escapes decode to ASCII (the driver answers `unmodelled` otherwise: bytes
    ≥ 0x80 go through a UTF-8 decoder with replacement): `%XX` with two hex digits becomes that character, anything else is
    kept as it is. -/
def unquote : Str → Str
  | [] => []
  | '%' :: a :: b :: rest =>
    match hexVal a, hexVal b with
    | some x, some y => Char.ofNat (16 * x + y) :: unquote rest
    | _, _ => '%' :: unquote (a :: b :: rest)
  | c :: rest => c :: unquote rest

/-- every escape of `s` decodes to an ASCII character. -/
def unquoteModelled : Str → Bool
  | [] => true
  | '%' :: a :: b :: rest =>
    match hexVal a, hexVal b with
    | some x, some _ => x < 8 && unquoteModelled rest
    | _, _ => unquoteModelled (a :: b :: rest)
  | _ :: rest => unquoteModelled rest

/-- `urlparse(value)` → (hostname, port, auth) as `get_proxy_info` uses them. -/
def envProxyParse (v6ok : Str → Bool) (value : Str) : Except Exn Choice :=
  match Url.urlsplit v6ok value [] with
  | .error e => .error e
  | .ok parsed =>
    let (user, pass) := Url.userinfo parsed.netloc
    -- `(unquote(username), unquote(password or "")) if proxy.username else None`;
    -- before the repair `unquote(password)`: TypeError on None      (generated shape fact)
    let auth : Except Exn (Option (Str × Str)) := match user with
      | some u =>
        if u.isEmpty then .ok none
        else match pass with
          | some pw => .ok (some (unquote u, unquote pw))
          | none => if Gen.envProxyPasswordOrEmpty then .ok (some (unquote u, [])) else .error (.internal "TypeError")
      | none => .ok none
    match auth with
    | .error e => .error e
    | .ok auth =>
      match Url.port parsed.netloc with          -- `.port` may raise ValueError
      | .error e => .error e
      | .ok p => .ok ⟨Url.hostname parsed.netloc, p, auth⟩

/-- `get_proxy_info(hostname, is_secure, proxy_host, proxy_port, proxy_auth, no_proxy)` -/
def getProxyInfo (v6ok : Str → Bool) (hostname : Str) (secure : Bool) (p : ProxyInfo) (env : Env) :
    Except Exn Choice :=
  match isNoProxyHost hostname p.noProxy env with
  | .error e => .error e
  | .ok true => .ok direct
  | .ok false =>
    if !p.host.isEmpty then
      if p.port == 0 then .error .proxy                 -- "Cannot use port 0 when proxy_host specified"
      else .ok ⟨some p.host, some p.port, p.auth⟩
    else
      -- env_key = "https_proxy" if is_secure else "http_proxy";  env_key.upper() spelled out
      let key := if secure then "https_proxy" else "http_proxy"
      let keyUp := if secure then "HTTPS_PROXY" else "HTTP_PROXY"
      let value := removeChar ' ' (envGetD env key (envGetD env keyUp []))
      if !value.isEmpty then envProxyParse v6ok value
      else .ok direct

/-! ### read_headers (status line) and the tunnel -/

/-- the complete lines of a reply (each ended by "\n"); what follows the last "\n" is never
    returned by `recv_line` (end of stream → CLOSED). -/
def completeLines (reply : Str) : List Str := (splitOn '\n' reply).dropLast

/-- the `while True` loop of `read_headers`, status only.  `status` is falsy for None and 0. -/
def readLoop : List Str → Option Nat → Except Exn (Option Nat)
  | [], _ => .error .closed                                   -- recv() returned b""
  | l :: rest, status =>
    let line := strip l
    if line.isEmpty then .ok status
    else if status.getD 0 == 0 then                           -- `if not status:`
      match splitOn ' ' line with
      | _ :: s1 :: _ =>
        match pyInt s1 with
        | some n => readLoop rest (some n)
        | none => .error .valueError                          -- int() failed
      | _ => .error (.internal "IndexError")
    else
      if line.contains ':' then readLoop rest status
      else .error .wsgeneric                                  -- "Invalid header"

/-- `read_headers(sock)[0]` on the reply bytes. -/
def readStatus (reply : Str) : Except Exn (Option Nat) := readLoop (completeLines reply) none

/-- the CONNECT request `_tunnel` writes. -/
def crlf : Str := ['\r', '\n']

/-- `auth_str` of `_tunnel`, when credentials are sent at all (`if auth and auth[0]`). -/
def authStr? (auth : Option (Str × Str)) : Option Str :=
  match auth with
  | some (user, pass) =>
    if user.isEmpty then none
    else some (if pass.isEmpty then user else user ++ ':' :: pass)
  | none => none

def tunnelRequest (host : Str) (port : Nat) (auth : Option (Str × Str)) : Str :=
  let hp := host ++ ':' :: natStr port
  let l0 := "CONNECT ".toList ++ hp ++ " HTTP/1.1".toList ++ crlf
  let l1 := "Host: ".toList ++ hp ++ crlf
  let l2 := match authStr? auth with
    | some s => "Proxy-Authorization: Basic ".toList ++ B64.encode (B64.asciiBytes s) ++ crlf
    | none => []
  l0 ++ l1 ++ l2 ++ crlf

/-- `_tunnel`: every failure of `read_headers` and every status other than 200 is PROXY. -/
def tunnel (reply : Str) : Except Exn Unit :=
  match readStatus reply with
  | .error _ => .error .proxy
  | .ok status => if status == some Gen.tunnelOkStatus then .ok () else .error .proxy

/-! ### connect -/

inductive CEv where
  | resolve (host : Str) (port : Nat)        -- getaddrinfo(host, port, 0, SOCK_STREAM, SOL_TCP)
  | sock (e : Ev)                            -- a call on one of the sockets tried
  | send (i : Nat) (data : Str)              -- bytes written before the WebSocket request
  | tls (i : Nat) (serverHostname : Str)     -- ssl wrap of socket i
  deriving Repr, DecidableEq

structure World where
  addrs : Option (List Outcome)              -- none = socket.gaierror
  proxyReply : Str
  deriving Repr

/-- `(phost and …)`: which name and port go to the resolver, and whether to tunnel. -/
def addrTarget (hostname : Str) (port : Nat) (c : Choice) : Str × Nat × Bool :=
  match c.host with
  | none => (hostname, port, false)
  | some ph =>
    if ph.isEmpty then (hostname, port, false)                  -- `if not phost`
    else
      let pp := match c.port with                               -- `pport and pport or 80`
        | some n => if n == 0 then Gen.proxyDefaultPort else n
        | none => Gen.proxyDefaultPort
      (ph, pp, true)

/-- `connect(url, options, proxy, None)` for the http protocol: result and everything observed. -/
def connect (v6ok : Str → Bool) (url : Str) (timeout : Nat) (sockopt : List String) (p : ProxyInfo)
    (env : Env) (w : World) : Except Exn (Nat × Target) × List CEv :=
  match Url.parseUrl v6ok url with
  | .error e => (.error e, [])
  | .ok t =>
    match getProxyInfo v6ok t.host t.secure p env with
    | .error e => (.error e, [])
    | .ok c =>
      let (rh, rp, needTunnel) := addrTarget t.host t.port c
      match w.addrs with
      | none => (.error .address, [.resolve rh rp])             -- gaierror → WebSocketAddressException
      | some [] => (.error .wsgeneric, [.resolve rh rp])        -- "Host not found."
      | some outs =>
        let (res, evs) := OpenSocket.openSocket timeout sockopt outs
        let tr := CEv.resolve rh rp :: evs.map .sock
        match res with
        | .raised _ => (.error .transport, tr)
        | .internal k => (.error (.internal k), tr)
        | .ok i =>
          let tr := if needTunnel then tr ++ [.send i (tunnelRequest t.host t.port c.auth)] else tr
          match (if needTunnel then tunnel w.proxyReply else .ok ()) with
          | .error e => (.error e, tr ++ [.sock (.close i)])    -- except: sock.close(); raise
          | .ok () =>
            let tr := if t.secure then tr ++ [.tls i t.host] else tr
            (.ok (i, t), tr)

end WS.Model.Proxy
