/-
  WS.Model.Frame — mirrors websocket/_abnf.py: `_mask`, `ABNF.mask`, `ABNF.create_frame`,
  `ABNF.format`, `ABNF._get_masked`, `ABNF.validate`, `ABNF._is_valid_close_status`.
  Constants are generated (WS.Gen).
-/
import WS.Base.Bytes
import WS.Gen.Tables
import WS.Model.Utf8
namespace WS.Model

/-- an ABNF object: the fields are Python ints, so `Nat` (the code never restricts them on
    construction). `data` is always bytes here (text is encoded by `create_frame`). -/
structure Frame where
  fin : Nat
  rsv1 : Nat
  rsv2 : Nat
  rsv3 : Nat
  opcode : Nat
  mask : Nat
  data : Bytes
  deriving Repr, DecidableEq, Inhabited

/-! ### masking -/

/-- per-byte cyclic XOR, key rotated as we go (what `_mask` computes; see `maskBig_eq`). -/
def maskCyc : Bytes → Bytes → Bytes
  | [k0, k1, k2, k3], b :: rest => (b ^^^ k0) :: maskCyc [k1, k2, k3, k0] rest
  | _, [] => []
  | _, bs => bs     -- key not 4 bytes: outside the model (Python raises)

/-- little-endian value (`int.from_bytes(x, "little")`; `sys.byteorder` on this platform). -/
def leVal : Bytes → Nat
  | [] => 0
  | b :: rest => b.toNat + 256 * leVal rest

/-- `n.to_bytes(len, "little")` (for `n < 256^len`). -/
def toLE : Nat → Nat → Bytes
  | 0, _ => []
  | len + 1, n => UInt8.ofNat (n % 256) :: toLE len (n / 256)

/-- `mask_value * (datalen // 4) + mask_value[: datalen % 4]` -/
def keyRep (key : Bytes) (n : Nat) : Bytes :=
  (List.replicate (n / 4) key).flatten ++ key.take (n % 4)

/-- `_mask`, literally: big-integer XOR of the data with the repeated key. -/
def maskBig (key data : Bytes) : Bytes :=
  toLE data.length (leVal data ^^^ leVal (keyRep key data.length))

/-- `ABNF.mask` on bytes arguments. -/
def mask (key data : Bytes) : Bytes := maskCyc key data

/-! ### create_frame / format -/

/-- `ABNF.create_frame(data, opcode, fin)` with `data` already bytes
    (a `str` is encoded to UTF-8 by the caller of this function when `opcode == OPCODE_TEXT`). -/
def createFrame (data : Bytes) (opcode : Nat) (fin : Nat := 1) : Frame :=
  { fin := fin, rsv1 := 0, rsv2 := 0, rsv3 := 0, opcode := opcode, mask := 1, data := data }

def bit01 (x : Nat) : Bool := x == 0 || x == 1

/-- `ABNF.format()`; `key` = what `get_mask_key(4)` returned (already bytes). -/
def format (f : Frame) (key : Bytes) : Except Exn Bytes :=
  if !(bit01 f.fin && bit01 f.rsv1 && bit01 f.rsv2 && bit01 f.rsv3) then .error .valueError
  else if !(Gen.opcodes.contains f.opcode) then .error .valueError
  else
    let length := f.data.length
    if length ≥ Gen.length63 then .error .valueError
    else if !(bit01 f.mask) then .error (.internal "UnicodeEncodeError")
    else
      let b0 := UInt8.ofNat (f.fin <<< 7 ||| f.rsv1 <<< 6 ||| f.rsv2 <<< 5 ||| f.rsv3 <<< 4 ||| f.opcode)
      let hdr : Bytes :=
        if length < Gen.length7 then [b0, UInt8.ofNat (f.mask <<< 7 ||| length)]
        else if length < Gen.length16 then b0 :: UInt8.ofNat (f.mask <<< 7 ||| 0x7E) :: beN 2 length
        else b0 :: UInt8.ofNat (f.mask <<< 7 ||| 0x7F) :: beN 8 length
      if f.mask == 0 then .ok (hdr ++ f.data)
      else .ok (hdr ++ (key ++ mask key f.data))

/-! ### validate -/

/-- `ABNF._is_valid_close_status` -/
def isValidCloseStatus (code : Nat) : Bool :=
  Gen.validCloseStatus.contains code || (Gen.closeRangeLo ≤ code && code < Gen.closeRangeHi)

/-- `ABNF.validate(skip_utf8_validation)`; `none` = returns normally.
    (control frames: `if self.opcode in (CLOSE, PING, PONG)`: `not self.fin` / `len(self.data) >= LENGTH_7`) -/
def validate (f : Frame) (skipUtf8 : Bool) : Option Exn :=
  if f.rsv1 != 0 || f.rsv2 != 0 || f.rsv3 != 0 then some .proto
  else if !(Gen.opcodes.contains f.opcode) then some .proto
  else if (f.opcode == Gen.opcodeClose || f.opcode == Gen.opcodePing || f.opcode == Gen.opcodePong) &&
      (f.fin == 0 || f.data.length ≥ Gen.length7) then some .proto
  else if f.opcode == Gen.opcodeClose then
    let l := f.data.length
    if l == 0 then none
    else if l == Gen.closeBodyBadEq || l ≥ Gen.closeBodyBadGe then some .proto
    else if l > 2 && !skipUtf8 && !validateUtf8 (f.data.drop 2) then some .proto
    else
      let code := 256 * (f.data.getD 0 0).toNat + (f.data.getD 1 0).toNat
      if !isValidCloseStatus code then some .proto else none
  else none

end WS.Model
