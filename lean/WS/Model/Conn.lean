/-
  WS.Model.Conn — the byte-level client: simulated socket (L0), `frame_buffer` (L1),
  `continuous_frame` + `recv_data_frame` loop (L2), the `WebSocket` object (L3).
  Mirrors websocket/_abnf.py:295-453, _core.py:285-574, _socket.py:91-190 function by
  function.  Loops take a fuel argument; `WS.Lemmas.*` show the fuel the callers pass is
  always enough (that is the "never spins" part of C17).

  Simulated socket = harness/simnet.py `SimSocket`: a script of incoming events, a cyclic
  short-write pattern, a virtual clock in milliseconds.
-/
import WS.Model.Frame
import WS.Spec.Unicode
namespace WS.Model

/-! ## L0 — the scripted socket -/

inductive TEv where
  | chunk (bs : Bytes)        -- bytes that have arrived
  | timeout                   -- the socket's timeout elapses once (raises socket.timeout)
  | wait (ms : Nat)           -- nothing arrives for `ms` milliseconds
  | eof                       -- orderly end of stream (recv returns b"")
  | reset                     -- ConnectionResetError
  deriving Repr, DecidableEq, Inhabited

inductive Tail where
  | eof | timeout
  deriving Repr, DecidableEq, Inhabited

structure Sock where
  inp : List TEv := []
  tail : Tail := .eof
  accepts : List Nat := []          -- cyclic short-write pattern ([] = accept everything)
  accI : Nat := 0
  sendFailAt : Option Nat := none   -- the n-th send call (0-based) and later ones raise EPIPE
  sendCalls : Nat := 0
  closed : Bool := false
  closeCalls : Nat := 0
  shutdownCalls : Nat := 0
  sent : List Bytes := []           -- accepted pieces, newest first
  recvSizes : List Nat := []        -- sizes asked, newest first
  calls : Nat := 0                  -- transport calls of any kind
  timeoutMs : Option Nat := none    -- sock.gettimeout() in ms
  clock : Nat := 0
  deriving Repr, Inhabited

inductive RecvRes where
  | data (bs : Bytes) | timedOut | empty | resetErr | badFd
  deriving Repr, DecidableEq

/-- `SimSocket.recv(n)`; fuel bounds the skipping of `wait` events and empty chunks. -/
def Sock.recv : Nat → Sock → Nat → RecvRes × Sock
  | 0, s, _ => (.timedOut, s)    -- unreachable with fuel = s.inp.length + 1
  | fuel + 1, s, n =>
    if s.closed then (.badFd, { s with calls := s.calls + 1, recvSizes := n :: s.recvSizes }) else
    match s.inp with
    | [] =>
      let s := { s with calls := s.calls + 1, recvSizes := n :: s.recvSizes }
      match s.tail with
      | .eof => (.empty, s)
      | .timeout => (.timedOut, { s with clock := s.clock + s.timeoutMs.getD 0 })
    | .chunk bs :: rest =>
      if bs.isEmpty then Sock.recv fuel { s with inp := rest } n
      else
        let s := { s with calls := s.calls + 1, recvSizes := n :: s.recvSizes }
        let d := bs.take n
        let r := bs.drop n
        (.data d, { s with inp := if r.isEmpty then rest else .chunk r :: rest })
    | .timeout :: rest =>
      (.timedOut, { s with inp := rest, calls := s.calls + 1, recvSizes := n :: s.recvSizes,
                           clock := s.clock + s.timeoutMs.getD 0 })
    | .wait ms :: rest =>
      match s.timeoutMs with
      | some t =>
        if ms ≥ t then
          (.timedOut, { s with inp := (if ms - t = 0 then rest else .wait (ms - t) :: rest),
                               calls := s.calls + 1, recvSizes := n :: s.recvSizes, clock := s.clock + t })
        else Sock.recv fuel { s with inp := rest, clock := s.clock + ms } n
      | none => Sock.recv fuel { s with inp := rest, clock := s.clock + ms } n
    | .eof :: _ =>
      (.empty, { s with inp := [], tail := .eof, calls := s.calls + 1, recvSizes := n :: s.recvSizes })
    | .reset :: _ =>
      (.resetErr, { s with inp := [], tail := .eof, calls := s.calls + 1, recvSizes := n :: s.recvSizes })

inductive SendRes where
  | accepted (n : Nat) | epipe | badFd
  deriving Repr, DecidableEq

/-- `SimSocket.send(data)` -/
def Sock.send (s : Sock) (data : Bytes) : SendRes × Sock :=
  let i := s.sendCalls
  let s := { s with sendCalls := s.sendCalls + 1, calls := s.calls + 1 }
  if s.closed then (.badFd, s)
  else if (match s.sendFailAt with | some k => decide (i ≥ k) | none => false) then (.epipe, s)
  else
    let n :=
      if s.accepts.isEmpty then data.length
      else if data.isEmpty then 0
      else max 1 (min data.length (s.accepts.getD (s.accI % s.accepts.length) 0))
    let s := if s.accepts.isEmpty then s else { s with accI := s.accI + 1 }
    (.accepted n, { s with sent := data.take n :: s.sent })

def Sock.close (s : Sock) : Sock :=
  { s with closed := true, closeCalls := s.closeCalls + 1, calls := s.calls + 1 }

def Sock.shutdown (s : Sock) : Sock :=
  { s with shutdownCalls := s.shutdownCalls + 1, calls := s.calls + 1 }

/-- everything written so far, oldest first. -/
def Sock.wire (s : Sock) : Bytes := s.sent.reverse.flatten

/-- upper bound on the bytes+events still to come (fuel for the loops). -/
def evSize : TEv → Nat
  | .chunk bs => bs.length + 1
  | _ => 1

def Sock.size (s : Sock) : Nat := (s.inp.map evSize).sum + s.inp.length + 2

/-! ## L1–L3 state -/

structure Hdr where
  fin : Nat
  rsv1 : Nat
  rsv2 : Nat
  rsv3 : Nat
  opcode : Nat
  hasMask : Nat
  lenBits : Nat
  deriving Repr, DecidableEq, Inhabited

structure Conn where
  sock : Sock := {}
  hasSock : Bool := true           -- `self.sock is not None`
  connected : Bool := true
  -- frame_buffer
  buf : Bytes := []                -- b"".join(recv_buffer)
  hdr : Option Hdr := none
  len : Option Nat := none
  maskv : Option Bytes := none     -- None | "" (= some []) | 4 bytes
  skipUtf8 : Bool := false
  -- continuous_frame
  fireCont : Bool := false
  contData : Option (Nat × Bytes) := none
  recving : Option Nat := none
  -- mask key source: scripted draws (one per formatted frame), zeros when exhausted
  keys : List Bytes := []
  keyDraws : Nat := 0
  -- ghost counter (never read by any operation): close frames written on the client's own initiative,
  -- i.e. by `close()` or by the automatic reply to the server's close (explicit `send_close()` calls are the caller's)
  ownCloses : Nat := 0
  deriving Repr, Inhabited

/-! ### `_socket.recv` / `WebSocket._recv` -/

/-- `_socket.recv(sock, bufsize)` + the clean-up of `WebSocket._recv` on CLOSED. -/
def Conn.sockRecv (c : Conn) (n : Nat) : Except Exn Bytes × Conn :=
  if !c.hasSock then (.error .closed, c)             -- "socket is already closed." — no transport call
  else
    let (r, s) := c.sock.recv (c.sock.inp.length + 1) n
    let c := { c with sock := s }
    match r with
    | .data bs => (.ok bs, c)
    | .timedOut => (.error .timeout, c)
    | .resetErr => (.error .transport, c)
    | .badFd => (.error .transport, c)
    | .empty =>                                     -- "Connection to remote host was lost."
      (.error .closed, { c with sock := c.sock.close, hasSock := false, connected := false })

/-! ### frame_buffer -/

/-- `frame_buffer.recv_strict(bufsize)`: the `while shortage > 0` loop, then the split. -/
def Conn.recvStrictLoop : Nat → Conn → Nat → Option Exn × Conn
  | 0, c, _ => (some (.internal "OutOfFuel"), c)
  | fuel + 1, c, bufsize =>
    if c.buf.length ≥ bufsize then (none, c)
    else
      let shortage := bufsize - c.buf.length
      match c.sockRecv (min Gen.recvCap shortage) with
      | (.error e, c) => (some e, c)
      | (.ok bs, c) => Conn.recvStrictLoop fuel { c with buf := c.buf ++ bs } bufsize

def Conn.recvStrict (c : Conn) (bufsize : Nat) : Except Exn Bytes × Conn :=
  match Conn.recvStrictLoop (c.sock.size + 1) c bufsize with
  | (some e, c) => (.error e, c)
  | (none, c) => (.ok (c.buf.take bufsize), { c with buf := c.buf.drop bufsize })

/-- `recv_header` -/
def Conn.recvHeader (c : Conn) : Option Exn × Conn :=
  match c.recvStrict 2 with
  | (.error e, c) => (some e, c)
  | (.ok h, c) =>
    let b1 := (h.getD 0 0).toNat
    let b2 := (h.getD 1 0).toNat
    (none, { c with hdr := some { fin := b1 >>> 7 &&& 1, rsv1 := b1 >>> 6 &&& 1, rsv2 := b1 >>> 5 &&& 1,
                                  rsv3 := b1 >>> 4 &&& 1, opcode := b1 &&& 0xF,
                                  hasMask := b2 >>> 7 &&& 1, lenBits := b2 &&& 0x7F } })

/-- `recv_length` (called with `self.header` set) -/
def Conn.recvLength (c : Conn) (h : Hdr) : Option Exn × Conn :=
  let lengthBits := h.lenBits &&& 0x7F
  if lengthBits == 0x7E then
    match c.recvStrict 2 with
    | (.error e, c) => (some e, c)
    | (.ok v, c) => (none, { c with len := some (unbe v) })
  else if lengthBits == 0x7F then
    match c.recvStrict 8 with
    | (.error e, c) => (some e, c)
    | (.ok v, c) => (none, { c with len := some (unbe v) })
  else (none, { c with len := some lengthBits })

/-- `recv_mask` -/
def Conn.recvMask (c : Conn) (h : Hdr) : Option Exn × Conn :=
  if h.hasMask != 0 then
    match c.recvStrict 4 with
    | (.error e, c) => (some e, c)
    | (.ok v, c) => (none, { c with maskv := some v })
  else (none, { c with maskv := some [] })

/-- `frame_buffer.recv_frame()` — resumable: a stage already completed is not repeated. -/
def Conn.recvFrame (c : Conn) : Except Exn Frame × Conn :=
  -- Header
  let (e1, c) := if c.hdr.isNone then c.recvHeader else (none, c)
  match e1 with
  | some e => (.error e, c)
  | none =>
  match c.hdr with
  | none => (.error (.internal "TypeError"), c)      -- unreachable
  | some h =>
  -- Frame length
  let (e2, c) := if c.len.isNone then c.recvLength h else (none, c)
  match e2 with
  | some e => (.error e, c)
  | none =>
  let length := c.len.getD 0
  -- Mask
  let (e3, c) := if c.maskv.isNone then c.recvMask h else (none, c)
  match e3 with
  | some e => (.error e, c)
  | none =>
  let maskValue := c.maskv.getD []
  -- Payload
  match c.recvStrict length with
  | (.error e, c) => (.error e, c)
  | (.ok payload, c) =>
    let payload := if h.hasMask != 0 then mask maskValue payload else payload
    let c := { c with hdr := none, len := none, maskv := none }     -- clear()
    let f : Frame := { fin := h.fin, rsv1 := h.rsv1, rsv2 := h.rsv2, rsv3 := h.rsv3,
                       opcode := h.opcode, mask := h.hasMask, data := payload }
    match validate f c.skipUtf8 with
    | some e => (.error e, c)
    | none => (.ok f, c)

/-! ### sending -/

/-- `_socket.send(sock, data)` through `WebSocket._send` -/
def Conn.sockSend (c : Conn) (data : Bytes) : Except Exn Nat × Conn :=
  if !c.hasSock then (.error .closed, c)
  else
    let (r, s) := c.sock.send data
    let c := { c with sock := s }
    match r with
    | .accepted n => (.ok n, c)
    | .epipe => (.error .transport, c)
    | .badFd => (.error .transport, c)

/-- `while data: l = self._send(data); data = data[l:]` -/
def Conn.sendLoop : Nat → Conn → Bytes → Option Exn × Conn
  | 0, c, _ => (some (.internal "OutOfFuel"), c)
  | fuel + 1, c, data =>
    if data.isEmpty then (none, c)
    else match c.sockSend data with
      | (.error e, c) => (some e, c)
      | (.ok l, c) => Conn.sendLoop fuel c (data.drop l)

/-- `WebSocket.send_frame(frame)`: one key draw, format, write loop; returns `len(data)`. -/
def Conn.sendFrame (c : Conn) (f : Frame) : Except Exn Nat × Conn :=
  let key := c.keys.headD [0, 0, 0, 0]
  match format f key with
  | .error e => (.error e, c)     -- the three ValueErrors are raised before the key is drawn
  | .ok data =>
    let c := if f.mask != 0 then { c with keys := c.keys.tail, keyDraws := c.keyDraws + 1 } else c
    match Conn.sendLoop (data.length + 1) c data with
    | (some e, c) => (.error e, c)
    | (none, c) => (.ok data.length, c)

/-- `WebSocket.send(payload, opcode)` with a bytes payload -/
def Conn.send (c : Conn) (payload : Bytes) (opcode : Nat) : Except Exn Nat × Conn :=
  c.sendFrame (createFrame payload opcode)

def Conn.ping (c : Conn) (payload : Bytes) := c.send payload Gen.opcodePing
def Conn.pong (c : Conn) (payload : Bytes) := c.send payload Gen.opcodePong

/-- `str.encode("utf-8")` of a Python str given by its code points: Table 3-6 of the Unicode Standard for every
    scalar value; a str holding a lone surrogate cannot be encoded (UnicodeEncodeError). -/
def encodeStr (cps : List Nat) : Except Exn Bytes :=
  if cps.all (fun c => decide (Spec.IsScalar c)) then .ok (cps.flatMap Spec.encodeScalar)
  else .error (.internal "UnicodeEncodeError")

/-- `WebSocket.send(payload: str)` (opcode TEXT): `ABNF.create_frame` encodes a str payload as UTF-8. -/
def Conn.sendText (c : Conn) (cps : List Nat) : Except Exn Nat × Conn :=
  match encodeStr cps with
  | .error e => (.error e, c)
  | .ok p => c.send p Gen.opcodeText

/-- `WebSocket.ping(payload: str)` / `pong(payload: str)`: `payload.encode("utf-8")` first. -/
def Conn.pingText (c : Conn) (cps : List Nat) : Except Exn Nat × Conn :=
  match encodeStr cps with
  | .error e => (.error e, c)
  | .ok p => c.ping p

def Conn.pongText (c : Conn) (cps : List Nat) : Except Exn Nat × Conn :=
  match encodeStr cps with
  | .error e => (.error e, c)
  | .ok p => c.pong p

/-- `WebSocket.send_close(status, reason)` -/
def Conn.sendClose (c : Conn) (status : Int) (reason : Bytes) : Except Exn Nat × Conn :=
  if status < 0 || status ≥ (Gen.length16 : Int) then (.error .valueError, c)
  else
    let c := { c with connected := false }
    c.send (beN 2 status.toNat ++ reason) Gen.opcodeClose

/-! ### continuous_frame + recv_data_frame -/

/-- `continuous_frame.validate` -/
def Conn.contValidate (c : Conn) (f : Frame) : Option Exn :=
  let rec? := match c.recving with | some n => n != 0 | none => false    -- truthiness of recving_frames
  if !rec? && f.opcode == Gen.opcodeCont then some .proto
  else if rec? && (f.opcode == Gen.opcodeText || f.opcode == Gen.opcodeBinary) then some .proto
  else none

/-- `continuous_frame.add`.  `if self.cont_data:` is truthiness of a 2-element list (always true once set). -/
def Conn.contAdd (c : Conn) (f : Frame) : Conn :=
  let c := match c.contData with
    | some (op, d) => { c with contData := some (op, d ++ f.data) }
    | none =>
      let c := if f.opcode == Gen.opcodeText || f.opcode == Gen.opcodeBinary
               then { c with recving := some f.opcode } else c
      { c with contData := some (f.opcode, f.data) }
  if f.fin != 0 then { c with recving := none } else c

/-- `continuous_frame.extract` -/
def Conn.contExtract (c : Conn) (f : Frame) : Except Exn (Nat × Frame) × Conn :=
  match c.contData with
  | none => (.error (.internal "TypeError"), c)     -- unreachable: add() ran just before
  | some (op, d) =>
    let c := { c with contData := none }
    let f := { f with data := d }
    if !c.fireCont && op == Gen.opcodeText && !c.skipUtf8 && !validateUtf8 d then (.error .payload, c)
    else (.ok (op, f), c)

/-- `WebSocket.recv_data_frame(control_frame)` — the `while True` loop. -/
def Conn.recvDataFrameLoop : Nat → Conn → Bool → Except Exn (Nat × Frame) × Conn
  | 0, c, _ => (.error (.internal "OutOfFuel"), c)
  | fuel + 1, c, controlFrame =>
    match c.recvFrame with
    | (.error e, c) => (.error e, c)
    | (.ok f, c) =>
      if f.opcode == Gen.opcodeText || f.opcode == Gen.opcodeBinary || f.opcode == Gen.opcodeCont then
        match c.contValidate f with
        | some e => (.error e, c)
        | none =>
          let c := c.contAdd f
          if f.fin != 0 || c.fireCont then c.contExtract f
          else Conn.recvDataFrameLoop fuel c controlFrame
      else if f.opcode == Gen.opcodeClose then
        -- `if self.connected: self.send_close()` — reply at most once per connection
        if !c.connected then (.ok (f.opcode, f), c)
        else match ({ c with ownCloses := c.ownCloses + 1 } : Conn).sendClose ((Gen.statusNormal : Nat) : Int) [] with
          | (.error e, c) => (.error e, c)
          | (.ok _, c) => (.ok (f.opcode, f), c)
      else if f.opcode == Gen.opcodePing then
        if f.data.length < Gen.pingMaxExcl then
          match c.pong f.data with
          | (.error e, c) => (.error e, c)
          | (.ok _, c) =>
            if controlFrame then (.ok (f.opcode, f), c)
            else Conn.recvDataFrameLoop fuel c controlFrame
        else (.error .proto, c)
      else if f.opcode == Gen.opcodePong then
        if controlFrame then (.ok (f.opcode, f), c)
        else Conn.recvDataFrameLoop fuel c controlFrame
      else Conn.recvDataFrameLoop fuel c controlFrame     -- unreachable after validate()

def Conn.recvDataFrame (c : Conn) (controlFrame : Bool) : Except Exn (Nat × Frame) × Conn :=
  Conn.recvDataFrameLoop (c.sock.size + c.buf.length + 2) c controlFrame

/-- `WebSocket.recv_data(control_frame)` -/
def Conn.recvData (c : Conn) (controlFrame : Bool) : Except Exn (Nat × Bytes) × Conn :=
  match c.recvDataFrame controlFrame with
  | (.error e, c) => (.error e, c)
  | (.ok (op, f), c) => (.ok (op, f.data), c)

/-- result of `WebSocket.recv()`: text (as its UTF-8 bytes), binary, or `""` for anything else. -/
inductive RecvVal where
  | text (utf8 : Bytes) | binary (bs : Bytes) | emptyStr
  deriving Repr, DecidableEq

/-- `WebSocket.recv()`; `data.decode("utf-8")` fails exactly on ill-formed input; the UnicodeDecodeError is mapped to
    WebSocketPayloadException when the source guards the call (`Gen.recvDecodeGuard`, a generated fact). -/
def Conn.recv (c : Conn) : Except Exn RecvVal × Conn :=
  match c.recvData false with
  | (.error e, c) => (.error e, c)
  | (.ok (op, d), c) =>
    if op == Gen.opcodeText then
      if validateUtf8Strict d then (.ok (.text d), c) else (.error (if Gen.recvDecodeGuard then .payload else .internal "UnicodeDecodeError"), c)
    else if op == Gen.opcodeBinary then (.ok (.binary d), c)
    else (.ok .emptyStr, c)
where
  /-- CPython's strict UTF-8 decoder accepts exactly the well-formed strings; modelled by the
      (proved-equal, WS.Props.C06) table validator. -/
  validateUtf8Strict (d : Bytes) : Bool := validateUtf8 d

/-! ### close / shutdown / abort -/

/-- `WebSocket.shutdown()` -/
def Conn.shutdown (c : Conn) : Conn :=
  if c.hasSock then { c with sock := c.sock.close, hasSock := false, connected := false } else c

/-- the wait loop of `close()`: `while timeout is None or time.time() - start < timeout`. -/
def Conn.closeWait : Nat → Conn → Nat → Option Nat → Conn
  | 0, c, _, _ => c
  | fuel + 1, c, start, timeoutMs =>
    let go := match timeoutMs with
      | none => true
      | some t => c.sock.clock - start < t
    if !go then c
    else match c.recvFrame with
      | (.error _, c) => c                       -- `except: break`
      | (.ok f, c) =>
        if f.opcode != Gen.opcodeClose then Conn.closeWait fuel c start timeoutMs
        else c                                   -- `break`

/-- `WebSocket.close(status, reason, timeout)`; `timeoutMs = none` is `timeout=None`. -/
def Conn.close (c : Conn) (status : Int) (reason : Bytes) (timeoutMs : Option Nat) : Option Exn × Conn :=
  if !c.connected then (none, c)
  else if status < 0 || status ≥ (Gen.length16 : Int) then (some .valueError, c)
  else
    let c := { c with connected := false, ownCloses := c.ownCloses + 1 }
    let c :=
      match c.send (beN 2 status.toNat ++ reason) Gen.opcodeClose with
      | (.error _, c) => c                        -- outer `except: pass`
      | (.ok _, c) =>
        if !c.hasSock then c                      -- self.sock.gettimeout() on None → AttributeError → pass
        else
          let saved := c.sock.timeoutMs
          let c := { c with sock := { c.sock with timeoutMs := timeoutMs } }
          let c := Conn.closeWait (c.sock.size + c.buf.length + 2) c c.sock.clock timeoutMs
          if !c.hasSock then c                    -- the wait lost the socket: settimeout on None → pass
          else
            let c := { c with sock := { c.sock with timeoutMs := saved } }
            { c with sock := c.sock.shutdown }
    (none, c.shutdown)

/-- `WebSocket.abort()` -/
def Conn.abort (c : Conn) : Option Exn × Conn :=
  if c.connected then
    if c.hasSock then (none, { c with sock := c.sock.shutdown })
    else (some (.internal "AttributeError"), c)
  else (none, c)

end WS.Model
