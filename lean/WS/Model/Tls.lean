/-
  WS.Model.Tls — mirrors `_ssl_socket` and `_wrap_sni_socket` (websocket/_http.py:238-314):
  the default dict and `update`, the env-bundle `isfile` / `isdir` branches, the
  `server_hostname` override, the CA loading test, the
  `cert_reqs == CERT_NONE and not check_hostname` selection with its two sets of `.get`
  defaults, and the two attribute assignments in the order the code makes them — on a
  model of `ssl.SSLContext(PROTOCOL_TLS_CLIENT)`'s attribute semantics
  (`check_hostname = True` forces CERT_REQUIRED when the mode was CERT_NONE;
   `verify_mode = CERT_NONE` while `check_hostname` is set raises ValueError).
  All defaults are generated constants (WS.Gen.h2Wrap…, sslDefault…).
  No Mathlib.
-/
import WS.Base.H2Types
import WS.Model.Http
import WS.Gen.Tables
namespace WS.Model.Tls
open WS WS.PyH2 WS.H2 WS.Model.Http

def certOf (s : String) : CertReqs :=
  if s = "ssl.CERT_REQUIRED" then .required
  else if s = "ssl.CERT_OPTIONAL" then .optional
  else .none

/-- Python truthiness of an optional string. -/
def truthy (o : Option Str) : Option Str :=
  match o with
  | some s => if s.isEmpty then none else some s
  | none => none

/-- `ssl.SSLContext` attributes that matter. -/
structure PyCtx where
  verify : CertReqs
  chk : Bool
  ca : CaSource
  deriving Repr, DecidableEq

/-- `ssl.SSLContext(ssl.PROTOCOL_TLS_CLIENT)` -/
def PyCtx.fresh : PyCtx := ⟨.required, true, .unset⟩

/-- `ssl.SSLContext(sslopt.get("ssl_version", ssl.PROTOCOL_TLS_CLIENT))`: a context made for one of the legacy
    protocol constants (PROTOCOL_TLS, PROTOCOL_TLSv1_2, …) starts with verification OFF (CERT_NONE, no host-name check). -/
def PyCtx.freshOf (legacy : Bool) : PyCtx := if legacy then ⟨.none, false, .unset⟩ else PyCtx.fresh

/-- `context.check_hostname = v` -/
def setCheck (c : PyCtx) (v : Bool) : PyCtx :=
  if v ∧ c.verify = .none then { c with verify := .required, chk := true } else { c with chk := v }

/-- `context.verify_mode = m` -/
def setVerify (c : PyCtx) (m : CertReqs) : Except HExn PyCtx :=
  if m = .none ∧ c.chk then .error .valueError else .ok { c with verify := m }

/-- the dict `sslopt` as `_wrap_sni_socket` sees it. -/
structure Merged where
  certReqs : Option CertReqs
  checkHostname : Option Bool
  caCerts : Option Str
  caCertPath : Option Str
  context : Option Nat
  legacy : Bool := false
  deriving Repr, DecidableEq

/-- `_wrap_sni_socket(sock, sslopt, hostname, check_hostname)` up to the `wrap_socket` call. -/
def wrapSni (o : Merged) (hostname : Str) : Except HExn Policy :=
  match o.context with
  | some c => .ok (.user c hostname)
  | none =>
    let c0 := PyCtx.freshOf o.legacy
    -- if sslopt.get("cert_reqs", CERT_NONE) != CERT_NONE: load CAs
    let c1 :=
      if o.certReqs.getD (certOf Gen.h2WrapLoadCertDefault) ≠ .none then
        if (truthy o.caCerts).isSome ∨ (truthy o.caCertPath).isSome then
          { c0 with ca := .locations o.caCerts o.caCertPath }
        else { c0 with ca := .default }
      else c0
    let r :=
      if o.certReqs.getD (certOf Gen.h2WrapCondCertDefault) = .none
          ∧ ¬ (o.checkHostname.getD Gen.h2WrapCondCheckDefault) then
        setVerify (setCheck c1 Gen.h2WrapBodyCheck) (certOf Gen.h2WrapBodyVerify)
      else
        setVerify (setCheck c1 (o.checkHostname.getD Gen.h2WrapElseCheckDefault))
          (o.certReqs.getD (certOf Gen.h2WrapElseCertDefault))
    match r with
    | .error e => .error e
    | .ok c => .ok (.fresh c.verify c.chk c.ca hostname)

/-- `if sslopt.get("server_hostname", None): hostname = sslopt["server_hostname"]` -/
def effectiveName (u : SslOpt) (hostname : Str) : Str :=
  match truthy u.serverHostname with
  | some h => h
  | none => hostname

/-- `_ssl_socket(sock, user_sslopt, hostname)` up to the `wrap_socket` call. -/
def sslSocket (u : SslOpt) (env : TlsEnv) (hostname : Str) : Except HExn Policy :=
  -- sslopt = {"cert_reqs": CERT_REQUIRED}; sslopt.update(user_sslopt)
  let certReqs := some (u.certReqs.getD (certOf Gen.sslDefaultCertReqs))
  let certPath := truthy env.bundle
  -- if cert_path and isfile(cert_path) and user_sslopt.get("ca_certs") is None: … elif … isdir …
  let useFile : Bool := certPath.isSome && env.isFile && u.caCerts.isNone
  let useDir : Bool := !useFile && certPath.isSome && env.isDir && u.caCertPath.isNone
  let caCerts := if useFile then certPath else u.caCerts
  let caCertPath := if useDir then certPath else u.caCertPath
  let hostname := effectiveName u hostname
  wrapSni ⟨certReqs, u.checkHostname, caCerts, caCertPath, u.context, u.legacy⟩ hostname

end WS.Model.Tls
